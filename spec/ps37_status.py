"""PS3.7 Annex C status categories — independent transcription (not derived from status.py).

General (non service-class specific) status codes of PS3.7 Annex C and the reserved ranges of
PS3.7 9.1 / PS3.4: Success 0000; Pending FF00, FF01; Cancel FE00; Warning 0001, 0107, 0116, Bxxx;
Failure Axxx, Cxxx and the individually assigned 01xx / 02xx codes; everything else: Unknown.
"""
try:
    import z3
except ImportError:  # replay side (/venv has no z3); only the Python spec functions are used there
    z3 = None

SUCCESS, FAILURE, WARNING, CANCEL, PENDING, UNKNOWN = "Success", "Failure", "Warning", "Cancel", "Pending", "Unknown"
CATEGORIES = (SUCCESS, FAILURE, WARNING, CANCEL, PENDING, UNKNOWN)

# PS3.7 Annex C.4 / C.5: individually assigned failure codes
GENERAL_FAILURES = (
    0x0105, 0x0106, 0x0110, 0x0111, 0x0112, 0x0113, 0x0114, 0x0115, 0x0117, 0x0118, 0x0119,
    0x0120, 0x0121, 0x0122, 0x0123, 0x0124, 0x0210, 0x0211, 0x0212, 0x0213,
)
GENERAL_WARNINGS = (0x0001, 0x0107, 0x0116)


def category(code: int) -> str:
    if code == 0x0000:
        return SUCCESS
    if code in (0xFF00, 0xFF01):
        return PENDING
    if code == 0xFE00:
        return CANCEL
    if 0xA000 <= code <= 0xAFFF or 0xC000 <= code <= 0xCFFF or code in GENERAL_FAILURES:
        return FAILURE
    if 0xB000 <= code <= 0xBFFF or code in GENERAL_WARNINGS:
        return WARNING
    return UNKNOWN


def category_z3(c):
    """z3 String-valued term for the category of the Int term c (c >= 0)."""
    S = z3.StringVal
    fail = z3.Or(z3.And(c >= 0xA000, c <= 0xAFFF), z3.And(c >= 0xC000, c <= 0xCFFF),
                 *[c == x for x in GENERAL_FAILURES])
    warn = z3.Or(z3.And(c >= 0xB000, c <= 0xBFFF), *[c == x for x in GENERAL_WARNINGS])
    return z3.If(c == 0, S(SUCCESS),
           z3.If(z3.Or(c == 0xFF00, c == 0xFF01), S(PENDING),
           z3.If(c == 0xFE00, S(CANCEL),
           z3.If(fail, S(FAILURE),
           z3.If(warn, S(WARNING), S(UNKNOWN))))))


def category_is_z3(c, cat):
    """z3 Bool: the category of the Int term c is `cat` (same ranges as category())"""
    fail = z3.Or(z3.And(c >= 0xA000, c <= 0xAFFF), z3.And(c >= 0xC000, c <= 0xCFFF), *[c == x for x in GENERAL_FAILURES])
    warn = z3.Or(z3.And(c >= 0xB000, c <= 0xBFFF), *[c == x for x in GENERAL_WARNINGS])
    succ, pend, canc = c == 0, z3.Or(c == 0xFF00, c == 0xFF01), c == 0xFE00
    first = {SUCCESS: succ, PENDING: pend, CANCEL: canc}
    if cat in first:
        return first[cat]
    none_first = z3.Not(z3.Or(succ, pend, canc))
    if cat == FAILURE:
        return z3.And(none_first, fail)
    if cat == WARNING:
        return z3.And(none_first, z3.Not(fail), warn)
    return z3.And(none_first, z3.Not(fail), z3.Not(warn))

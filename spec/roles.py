"""PS3.7 Annex D.3.3.4 SCP/SCU role selection — as a FUNCTION (not a table).

Requestor proposes (scu, scp) booleans for an abstract syntax, or nothing.  The acceptor answers each proposed
role with 1 only if it supports the requestor in that role.  Without a proposal, or when the acceptor does not
take part in role selection (its setting for either role is None), the default roles apply: requestor = SCU,
acceptor = SCP.  Returns (rq_as_scu, rq_as_scp, ac_as_scu, ac_as_scp)."""


def outcome(rq, ac):
    rq_scu, rq_scp = rq
    ac_scu, ac_scp = ac
    if rq_scu is None or rq_scp is None or ac_scu is None or ac_scp is None:
        return (True, False, False, True)
    reply_scu = bool(rq_scu and ac_scu)     # acceptor accepts the requestor acting as SCU
    reply_scp = bool(rq_scp and ac_scp)     # acceptor accepts the requestor acting as SCP
    # the requestor holds exactly the accepted roles; the acceptor holds the complementary ones
    return (reply_scu, reply_scp, reply_scp, reply_scu)


def reply(rq, ac):
    """the SCP/SCU role selection reply item the acceptor sends (None: no reply item)"""
    rq_scu, rq_scp = rq
    ac_scu, ac_scp = ac
    if rq_scu is None or rq_scp is None or ac_scu is None or ac_scp is None:
        return None
    return (bool(rq_scu and ac_scu), bool(rq_scp and ac_scp))


RQ_PROPOSALS = [(None, None), (True, True), (True, False), (False, True), (False, False)]
AC_SETTINGS = [(a, b) for a in (None, True, False) for b in (None, True, False)]

"""PS3.8 Tables 9-11 .. 9-26 and Annex D (D.1-1, D.3-1 .. D.3-15): byte layout of the seven PDUs and
of every item / sub-item — independent transcription (not derived from pdu.py / pdu_items.py).

A layout is a list of fields, in wire order:
    ("u8"|"u16"|"u32", value)     unsigned big-endian integer; value = constant | ("attr", name) |
                                  ("len", k) = number of bytes of ALL fields after this one, minus k
                                  ("lenof", name) = number of bytes of the field called name
    ("zero", n)                   n reserved bytes 00H
    ("str", name)                 character string, unpadded                    (named field)
    ("str16", name)               character string padded with spaces to 16     (named field)
    ("bytes", name)               opaque bytes                                  (named field)
    ("items", name)               concatenation of the encodings of the (sub-)items in that list
    ("uidlist", name)             for each UID: u16 length + UID                (related general SOP classes)
`name` is the attribute name pynetdicom uses for that PS3.8 field (the mapping of PS3.8 field names to
attribute names is the only thing taken from the code base).
"""

PDU = {
    "A_ASSOCIATE_RQ": dict(type=0x01, fields=[
        ("u8", 0x01), ("zero", 1), ("u32", ("len", 0)), ("u16", ("attr", "protocol_version")), ("zero", 2),
        ("str16", "called_ae_title"), ("str16", "calling_ae_title"), ("zero", 32), ("items", "variable_items")]),
    "A_ASSOCIATE_AC": dict(type=0x02, fields=[
        ("u8", 0x02), ("zero", 1), ("u32", ("len", 0)), ("u16", ("attr", "protocol_version")), ("zero", 2),
        ("str16", "reserved_aet"), ("str16", "reserved_aec"), ("zero", 32), ("items", "variable_items")]),
    "A_ASSOCIATE_RJ": dict(type=0x03, fields=[
        ("u8", 0x03), ("zero", 1), ("u32", 4), ("zero", 1), ("u8", ("attr", "result")), ("u8", ("attr", "source")),
        ("u8", ("attr", "reason_diagnostic"))]),
    "P_DATA_TF": dict(type=0x04, fields=[
        ("u8", 0x04), ("zero", 1), ("u32", ("len", 0)), ("items", "presentation_data_value_items")]),
    "A_RELEASE_RQ": dict(type=0x05, fields=[("u8", 0x05), ("zero", 1), ("u32", 4), ("zero", 4)]),
    "A_RELEASE_RP": dict(type=0x06, fields=[("u8", 0x06), ("zero", 1), ("u32", 4), ("zero", 4)]),
    "A_ABORT_RQ": dict(type=0x07, fields=[
        ("u8", 0x07), ("zero", 1), ("u32", 4), ("zero", 2), ("u8", ("attr", "source")), ("u8", ("attr", "reason_diagnostic"))]),
}

ITEM = {
    "ApplicationContextItem": dict(type=0x10, fields=[
        ("u8", 0x10), ("zero", 1), ("u16", ("len", 0)), ("str", "application_context_name")]),
    "PresentationContextItemRQ": dict(type=0x20, fields=[
        ("u8", 0x20), ("zero", 1), ("u16", ("len", 0)), ("u8", ("attr", "presentation_context_id")), ("zero", 3),
        ("items", "abstract_transfer_syntax_sub_items")]),
    "PresentationContextItemAC": dict(type=0x21, fields=[
        ("u8", 0x21), ("zero", 1), ("u16", ("len", 0)), ("u8", ("attr", "presentation_context_id")), ("zero", 1),
        ("u8", ("attr", "result_reason")), ("zero", 1), ("items", "transfer_syntax_sub_item")]),
    "AbstractSyntaxSubItem": dict(type=0x30, fields=[
        ("u8", 0x30), ("zero", 1), ("u16", ("len", 0)), ("str", "abstract_syntax_name")]),
    "TransferSyntaxSubItem": dict(type=0x40, fields=[
        ("u8", 0x40), ("zero", 1), ("u16", ("len", 0)), ("str", "transfer_syntax_name")]),
    "UserInformationItem": dict(type=0x50, fields=[
        ("u8", 0x50), ("zero", 1), ("u16", ("len", 0)), ("items", "user_data")]),
    "MaximumLengthSubItem": dict(type=0x51, fields=[
        ("u8", 0x51), ("zero", 1), ("u16", 4), ("u32", ("attr", "maximum_length_received"))]),
    "ImplementationClassUIDSubItem": dict(type=0x52, fields=[
        ("u8", 0x52), ("zero", 1), ("u16", ("len", 0)), ("str", "implementation_class_uid")]),
    "AsynchronousOperationsWindowSubItem": dict(type=0x53, fields=[
        ("u8", 0x53), ("zero", 1), ("u16", 4), ("u16", ("attr", "maximum_number_operations_invoked")),
        ("u16", ("attr", "maximum_number_operations_performed"))]),
    "SCP_SCU_RoleSelectionSubItem": dict(type=0x54, fields=[
        ("u8", 0x54), ("zero", 1), ("u16", ("len", 0)), ("u16", ("lenof", "sop_class_uid")), ("str", "sop_class_uid"),
        ("u8", ("attr", "scu_role")), ("u8", ("attr", "scp_role"))]),
    "ImplementationVersionNameSubItem": dict(type=0x55, fields=[
        ("u8", 0x55), ("zero", 1), ("u16", ("len", 0)), ("str", "implementation_version_name")]),
    "SOPClassExtendedNegotiationSubItem": dict(type=0x56, fields=[
        ("u8", 0x56), ("zero", 1), ("u16", ("len", 0)), ("u16", ("lenof", "sop_class_uid")), ("str", "sop_class_uid"),
        ("bytes", "service_class_application_information")]),
    "SOPClassCommonExtendedNegotiationSubItem": dict(type=0x57, fields=[
        ("u8", 0x57), ("u8", ("attr", "sub_item_version")), ("u16", ("len", 0)),
        ("u16", ("lenof", "sop_class_uid")), ("str", "sop_class_uid"),
        ("u16", ("lenof", "service_class_uid")), ("str", "service_class_uid"),
        ("u16", ("lenof", "related_general_sop_class_identification")),
        ("uidlist", "related_general_sop_class_identification")]),
    "UserIdentitySubItemRQ": dict(type=0x58, fields=[
        ("u8", 0x58), ("zero", 1), ("u16", ("len", 0)), ("u8", ("attr", "user_identity_type")),
        ("u8", ("attr", "positive_response_requested")), ("u16", ("lenof", "primary_field")), ("bytes", "primary_field"),
        ("u16", ("lenof", "secondary_field")), ("bytes", "secondary_field")]),
    "UserIdentitySubItemAC": dict(type=0x59, fields=[
        ("u8", 0x59), ("zero", 1), ("u16", ("len", 0)), ("u16", ("lenof", "server_response")), ("bytes", "server_response")]),
    # PDV item (Table 9-23): 4-byte item length, context id, PDV (message control header + fragment)
    "PresentationDataValueItem": dict(type=None, fields=[
        ("u32", ("len", 0)), ("u8", ("attr", "presentation_context_id")), ("bytes", "presentation_data_value")]),
}

# which attributes PDU.__eq__ / PDUItem.__eq__ must compare = the named fields above
def named_fields(layout):
    out = []
    for f in layout["fields"]:
        if f[0] in ("str", "str16", "bytes", "items", "uidlist"):
            out.append(f[1])
        elif isinstance(f[1], tuple) and f[1][0] == "attr":
            out.append(f[1][1])
    return out


# ---------------------------------------------------------------------------------------------
# native reference encoder (used by the replay / CPython cross-check side; no solver involved)
# ---------------------------------------------------------------------------------------------
def layout_of(obj):
    name = type(obj).__name__
    return PDU.get(name) or ITEM[name]


def ref_encode(obj) -> bytes:
    """bytes PS3.8 prescribes for a real pynetdicom PDU / item object (fields read with getattr)"""
    lay = layout_of(obj)["fields"]
    chunks = []
    for f in lay:
        kind = f[0]
        if kind in ("u8", "u16", "u32"):
            chunks.append((f, None))
        elif kind == "zero":
            chunks.append((f, b"\x00" * f[1]))
        elif kind == "str":
            v = getattr(obj, f[1])
            chunks.append((f, (v or "").encode("ascii")))
        elif kind == "str16":
            chunks.append((f, getattr(obj, f[1]).ljust(16).encode("ascii")))
        elif kind == "bytes":
            chunks.append((f, getattr(obj, f[1]) or b""))
        elif kind == "items":
            chunks.append((f, b"".join(ref_encode(x) for x in getattr(obj, f[1]))))
        elif kind == "uidlist":
            b = b""
            for u in getattr(obj, f[1]):
                b += len(u).to_bytes(2, "big") + str(u).encode("ascii")
            chunks.append((f, b))
    out = []
    for i, (f, b) in enumerate(chunks):
        if b is not None:
            out.append(b)
            continue
        n = {"u8": 1, "u16": 2, "u32": 4}[f[0]]
        v = f[1]
        if isinstance(v, int):
            val = v
        elif v[0] == "attr":
            val = getattr(obj, v[1])
        elif v[0] == "len":
            val = 0
            for (g, c) in chunks[i + 1:]:
                val += len(c) if c is not None else {"u8": 1, "u16": 2, "u32": 4}[g[0]]
            val -= v[1]
        else:
            val = next(len(c) for (g, c) in chunks if g[0] in ("str", "str16", "bytes", "items", "uidlist") and g[1] == v[1])
        out.append(int(val).to_bytes(n, "big"))
    return b"".join(out)

"""PS3.8 Section 9.2 — DICOM Upper Layer state machine: independent transcription of Table 9-10
(state transition table) and Tables 9-6 .. 9-9 (actions).  Written from the standard, not from fsm.py.
"""

STATES = [f"Sta{i}" for i in range(1, 14)]
EVENTS = [f"Evt{i}" for i in range(1, 20)]

# Table 9-10, row by row: event -> {state number: action}.  "5-12" style ranges expanded below.
_ROWS = {
    1: {1: "AE-1"},
    2: {4: "AE-2"},
    3: {2: "AA-1", 3: "AA-8", 5: "AE-3", "6-12": "AA-8", 13: "AA-6"},
    4: {2: "AA-1", 3: "AA-8", 5: "AE-4", "6-12": "AA-8", 13: "AA-6"},
    5: {1: "AE-5"},
    6: {2: "AE-6", 3: "AA-8", "5-12": "AA-8", 13: "AA-7"},
    7: {3: "AE-7"},
    8: {3: "AE-8"},
    9: {6: "DT-1", 8: "AR-7"},
    10: {2: "AA-1", 3: "AA-8", 5: "AA-8", 6: "DT-2", 7: "AR-6", "8-12": "AA-8", 13: "AA-6"},
    11: {6: "AR-1"},
    12: {2: "AA-1", 3: "AA-8", 5: "AA-8", 6: "AR-2", 7: "AR-8", "8-12": "AA-8", 13: "AA-6"},
    13: {2: "AA-1", 3: "AA-8", 5: "AA-8", 6: "AA-8", 7: "AR-3", 8: "AA-8", 9: "AA-8", 10: "AR-10",
         11: "AR-3", 12: "AA-8", 13: "AA-6"},
    14: {8: "AR-4", 9: "AR-9", 12: "AR-4"},
    15: {3: "AA-1", 4: "AA-2", "5-12": "AA-1"},
    16: {2: "AA-2", 3: "AA-3", "5-12": "AA-3", 13: "AA-2"},
    17: {2: "AA-5", 3: "AA-4", 4: "AA-4", "5-12": "AA-4", 13: "AR-5"},
    18: {2: "AA-2", 13: "AA-2"},
    19: {2: "AA-1", 3: "AA-8", "5-12": "AA-8", 13: "AA-7"},
}


def table():
    """{(event, state): action} with 'AE-1' style names."""
    out = {}
    for ev, row in _ROWS.items():
        for k, act in row.items():
            if isinstance(k, str):
                lo, hi = (int(x) for x in k.split("-"))
                rng = range(lo, hi + 1)
            else:
                rng = [k]
            for s in rng:
                key = (f"Evt{ev}", f"Sta{s}")
                assert key not in out
                out[key] = act
    return out


TABLE = table()

# Which events a peer / the transport can cause (used by C05's closure obligation)
PEER_EVENTS = ["Evt3", "Evt4", "Evt6", "Evt10", "Evt12", "Evt13", "Evt16", "Evt17", "Evt19"]
PDU_EVENTS = {"Evt3": "A_ASSOCIATE_AC", "Evt4": "A_ASSOCIATE_RJ", "Evt6": "A_ASSOCIATE_RQ", "Evt10": "P_DATA_TF",
              "Evt12": "A_RELEASE_RQ", "Evt13": "A_RELEASE_RP", "Evt16": "A_ABORT_RQ"}

# ---------------------------------------------------------------------------------------------
# Tables 9-6 .. 9-9.  Protocol-visible effects of each action:
#   ("connect",)                         issue TRANSPORT CONNECT request
#   ("send", <PDU kind>)                 send that PDU   (field constraints in FIELD_RULES)
#   ("indicate", <primitive kind>)       issue indication/confirmation primitive to the service user
#   ("pdata_indication",)                P-DATA indication (pynetdicom hands it straight to the DIMSE provider)
#   ("artim", "start"|"stop")            ARTIM timer ("start or restart" is "start")
#   ("close",)                           close transport connection
# next: next state, or for AE-6 / AR-8 a dict keyed by the condition name.
# ---------------------------------------------------------------------------------------------
ACTIONS = {
    "AE-1": dict(effects=[("connect",)], next="Sta4"),
    "AE-2": dict(effects=[("send", "A_ASSOCIATE_RQ")], next="Sta5"),
    "AE-3": dict(effects=[("indicate", "A_ASSOCIATE")], next="Sta6"),
    "AE-4": dict(effects=[("indicate", "A_ASSOCIATE"), ("close",)], next="Sta1"),
    "AE-5": dict(effects=[("artim", "start")], next="Sta2"),
    "AE-6": dict(cond="rq_acceptable",
                 effects={True: [("artim", "stop"), ("indicate", "A_ASSOCIATE")],
                          False: [("artim", "stop"), ("send", "A_ASSOCIATE_RJ"), ("artim", "start")]},
                 next={True: "Sta3", False: "Sta13"}),
    "AE-7": dict(effects=[("send", "A_ASSOCIATE_AC")], next="Sta6"),
    "AE-8": dict(effects=[("send", "A_ASSOCIATE_RJ"), ("artim", "start")], next="Sta13"),
    "DT-1": dict(effects=[("send", "P_DATA_TF")], next="Sta6"),
    "DT-2": dict(effects=[("pdata_indication",)], next="Sta6"),
    "AR-1": dict(effects=[("send", "A_RELEASE_RQ")], next="Sta7"),
    "AR-2": dict(effects=[("indicate", "A_RELEASE")], next="Sta8"),
    "AR-3": dict(effects=[("indicate", "A_RELEASE"), ("close",)], next="Sta1"),
    "AR-4": dict(effects=[("send", "A_RELEASE_RP"), ("artim", "start")], next="Sta13"),
    "AR-5": dict(effects=[("artim", "stop")], next="Sta1"),
    "AR-6": dict(effects=[("pdata_indication",)], next="Sta7"),
    "AR-7": dict(effects=[("send", "P_DATA_TF")], next="Sta8"),
    "AR-8": dict(cond="is_requestor",
                 effects={True: [("indicate", "A_RELEASE")], False: [("indicate", "A_RELEASE")]},
                 next={True: "Sta9", False: "Sta10"}),
    "AR-9": dict(effects=[("send", "A_RELEASE_RP")], next="Sta11"),
    "AR-10": dict(effects=[("indicate", "A_RELEASE")], next="Sta12"),
    "AA-1": dict(effects=[("send", "A_ABORT_RQ"), ("artim", "start")], next="Sta13"),
    "AA-2": dict(effects=[("artim", "stop"), ("close",)], next="Sta1"),
    "AA-3": dict(cond="user_initiated",
                 effects={True: [("indicate", "A_ABORT"), ("close",)], False: [("indicate", "A_P_ABORT"), ("close",)]},
                 next={True: "Sta1", False: "Sta1"}),
    "AA-4": dict(effects=[("indicate", "A_P_ABORT")], next="Sta1"),
    "AA-5": dict(effects=[("artim", "stop")], next="Sta1"),
    "AA-6": dict(effects=[], next="Sta13"),
    "AA-7": dict(effects=[("send", "A_ABORT_RQ")], next="Sta13"),
    "AA-8": dict(effects=[("send", "A_ABORT_RQ"), ("indicate", "A_P_ABORT"), ("artim", "start")], next="Sta13"),
}

# Field constraints on what is sent / indicated.
#   AE-6 (not acceptable): A-ASSOCIATE-RJ result 1 (rejected-permanent), source 2 (service-provider ACSE),
#                          reason 2 (protocol-version-not-supported)          [PS3.8 Table 9-21]
#   AA-1: A-ABORT "service-user source": source 0, reason 0 — unless the local user queued an abort
#         primitive (pynetdicom API extension, own contract: the primitive's source / provider reason)
#   AA-7: A-ABORT from the service provider: source 2; reason 2 (unexpected PDU)
#   AA-8: A-ABORT service-provider source: source 2, reason one of the defined values
PROVIDER_REASONS = (0, 1, 2, 4, 5, 6)
AE6_REJECT = dict(result=1, source=2, reason_diagnostic=2)
AA1_DEFAULT = dict(source=0, reason_diagnostic=0)
AA7_ABORT = dict(source=2, reason_diagnostic=2)
AA8_SOURCE = 2

# Consumption of the queues (frame, derived from the code's call sites — see DESIGN 3/C04):
POPS_PDU = {"AE-3", "AE-4", "AE-6", "DT-2", "AR-2", "AR-3", "AR-6", "AR-8", "AR-10", "AA-3"}
POPS_PDU_IF_ANY = {"AA-6"}
POPS_PRIMITIVE = {"AE-1", "AE-2", "AE-7", "AE-8", "DT-1", "AR-1", "AR-4", "AR-7", "AR-9"}
# implementation obligations for actions that end in Sta1 (C05/C27): exactly one connection-closed
# notification, exactly one kill of the provider, transport closed or shut down exactly once.
TO_IDLE = {"AE-4", "AR-3", "AR-5", "AA-2", "AA-3", "AA-4", "AA-5"}
# actions after which the DIMSE layer must be woken with the (None, None) sentinel (abort paths)

"""Replay for C04: run the REAL fsm actions / do_action / table with recording stubs and compare with
the PS3.8 transcription natively (no symbolic engine involved).  Also used as CPython cross-check."""
import itertools
import queue
import sys
import types

from common import load, done
from spec import ps38_fsm as S

from pynetdicom import fsm, evt
from pynetdicom.pdu import (A_ASSOCIATE_RQ, A_ASSOCIATE_AC, A_ASSOCIATE_RJ, P_DATA_TF, A_RELEASE_RQ, A_RELEASE_RP,
                            A_ABORT_RQ)
from pynetdicom.pdu_primitives import A_ASSOCIATE, A_RELEASE, A_ABORT, A_P_ABORT, P_DATA
from pynetdicom.transport import T_CONNECT


class Rec:
    def __init__(self):
        self.trace = []


class Timer:
    def __init__(self, rec):
        self.rec = rec

    def start(self):
        self.rec.trace.append(("artim", "start"))

    def restart(self):
        self.rec.trace.append(("artim", "start"))

    def stop(self):
        self.rec.trace.append(("artim", "stop"))


class Sock:
    def __init__(self, rec, shutdown_raises=False):
        self.rec = rec
        self.shutdown_raises = shutdown_raises

    def connect(self, prim):
        self.rec.trace.append(("connect", prim))

    def close(self):
        self.rec.trace.append(("close", "close"))

    def _shutdown_socket(self):
        self.rec.trace.append(("close", "shutdown"))
        if self.shutdown_raises:
            raise OSError("shutdown failed")


class RQ(queue.Queue):
    def __init__(self, rec, name):
        super().__init__()
        self.rec, self.name = rec, name

    def get(self, *a, **k):
        v = super().get(*a, **k)
        self.rec.trace.append((self.name, v))
        return v


class UserQ:
    def __init__(self, rec):
        self.rec = rec

    def put(self, x):
        self.rec.trace.append(("indicate", x))


class Dimse:
    def __init__(self, rec):
        self.rec = rec
        self.msg_queue = types.SimpleNamespace(put=lambda x: rec.trace.append(("dimse_sentinel", x)))

    def receive_primitive(self, p):
        self.rec.trace.append(("pdata_indication", p))


def mk_dul(is_requestor, shutdown_raises=False):
    rec = Rec()
    addr = types.SimpleNamespace(as_tuple=("127.0.0.1", 11112))
    assoc = types.SimpleNamespace(is_requestor=is_requestor, dimse=Dimse(rec),
                                  acceptor=types.SimpleNamespace(address_info=addr),
                                  requestor=types.SimpleNamespace(address_info=addr),
                                  get_handlers=lambda e: [])
    dul = types.SimpleNamespace(rec=rec, assoc=assoc, artim_timer=Timer(rec), socket=Sock(rec, shutdown_raises),
                                to_provider_queue=RQ(rec, "pop_primitive"), _recv_pdu=RQ(rec, "pop_pdu"),
                                to_user_queue=UserQ(rec))
    dul._send = lambda pdu: rec.trace.append(("send", pdu))
    dul.kill_dul = lambda: rec.trace.append(("kill",))
    return dul, rec


def assoc_prim():
    p = A_ASSOCIATE()
    p.application_context_name = "1.2.840.10008.3.1.1.1"
    p.calling_ae_title = "A"
    p.called_ae_title = "B"
    from pynetdicom.pdu_primitives import MaximumLengthNotification, ImplementationClassUIDNotification
    m = MaximumLengthNotification()
    m.maximum_length_received = 16382
    i = ImplementationClassUIDNotification()
    i.implementation_class_uid = "1.2.3"
    p.user_information = [m, i]
    return p


RJ_TRIPLES = [(r, s, d) for r in (1, 2) for s, ds in ((1, (1, 2, 3, 7)), (2, (1, 2)), (3, (1, 2))) for d in ds]


def scenarios(a):
    """yield (description, dul, rec, info)"""
    for is_req in (True, False):
        if a in ("AE-1", "AE-7"):
            dul, rec = mk_dul(is_req)
            p = assoc_prim()
            if a == "AE-7":
                p.result = 0
            dul.to_provider_queue.put(p)
            yield f"is_requestor={is_req}", dul, rec, {"head": p}
        elif a == "AE-2":
            dul, rec = mk_dul(is_req)
            t = T_CONNECT(assoc_prim())
            t._result = "Evt2"
            dul.to_provider_queue.put(t)
            yield f"is_requestor={is_req}", dul, rec, {"head": t}
        elif a == "AE-8":
            for tr in RJ_TRIPLES:
                dul, rec = mk_dul(is_req)
                p = assoc_prim()
                p.result, p.result_source, p.diagnostic = tr
                dul.to_provider_queue.put(p)
                yield f"is_requestor={is_req} rj={tr}", dul, rec, {"rj": tr}
        elif a in ("DT-1", "AR-7"):
            dul, rec = mk_dul(is_req)
            p = P_DATA()
            p.presentation_data_value_list = [[1, b"\x03\x00"]]
            dul.to_provider_queue.put(p)
            yield f"is_requestor={is_req}", dul, rec, {}
        elif a in ("AR-1", "AR-4", "AR-9"):
            dul, rec = mk_dul(is_req)
            p = A_RELEASE()
            if a != "AR-1":
                p.result = "affirmative"
            dul.to_provider_queue.put(p)
            yield f"is_requestor={is_req}", dul, rec, {}
        elif a == "AE-3":
            dul, rec = mk_dul(is_req)
            p = assoc_prim()
            p.result = 0
            dul._recv_pdu.put(A_ASSOCIATE_AC(p))
            yield f"is_requestor={is_req}", dul, rec, {}
        elif a == "AE-4":
            for tr in RJ_TRIPLES:
                dul, rec = mk_dul(is_req)
                pdu = A_ASSOCIATE_RJ()
                pdu.result, pdu.source, pdu.reason_diagnostic = tr
                dul._recv_pdu.put(pdu)
                yield f"is_requestor={is_req} rj={tr}", dul, rec, {"rj": tr}
        elif a == "AE-6":
            for pv in (1, 0, 2, 3, 0xFFFF):
                dul, rec = mk_dul(is_req)
                pdu = A_ASSOCIATE_RQ(assoc_prim())
                pdu.protocol_version = pv
                dul._recv_pdu.put(pdu)
                yield f"is_requestor={is_req} protocol_version={pv}", dul, rec, {"cond": pv == 1}
        elif a in ("DT-2", "AR-6"):
            dul, rec = mk_dul(is_req)
            p = P_DATA()
            p.presentation_data_value_list = [[1, b"\x03\x00"]]
            dul._recv_pdu.put(P_DATA_TF(p))
            yield f"is_requestor={is_req}", dul, rec, {}
        elif a in ("AR-2", "AR-8"):
            dul, rec = mk_dul(is_req)
            dul._recv_pdu.put(A_RELEASE_RQ())
            yield f"is_requestor={is_req}", dul, rec, {"cond": is_req}
        elif a in ("AR-3", "AR-10"):
            dul, rec = mk_dul(is_req)
            dul._recv_pdu.put(A_RELEASE_RP())
            yield f"is_requestor={is_req}", dul, rec, {}
        elif a == "AA-3":
            for src in (0, 2):
                for rsn in S.PROVIDER_REASONS:
                    dul, rec = mk_dul(is_req)
                    pdu = A_ABORT_RQ()
                    pdu.source, pdu.reason_diagnostic = src, rsn
                    dul._recv_pdu.put(pdu)
                    yield f"is_requestor={is_req} source={src} reason={rsn}", dul, rec, {"cond": src != 2, "abort": (src, rsn)}
        elif a == "AA-6":
            for had in (True, False):
                dul, rec = mk_dul(is_req)
                if had:
                    dul._recv_pdu.put(A_RELEASE_RQ())
                yield f"is_requestor={is_req} pdu_queued={had}", dul, rec, {"had_pdu": had}
        elif a == "AA-1":
            dul, rec = mk_dul(is_req)
            yield f"is_requestor={is_req} provider queue empty", dul, rec, {"head": 0}
            for src in (0, 2):
                dul, rec = mk_dul(is_req)
                p = A_ABORT()
                p.abort_source = src
                dul.to_provider_queue.put(p)
                yield f"is_requestor={is_req} A_ABORT source={src}", dul, rec, {"head": 1, "abort_source": src}
            for rsn in S.PROVIDER_REASONS:
                dul, rec = mk_dul(is_req)
                p = A_P_ABORT()
                p.provider_reason = rsn
                dul.to_provider_queue.put(p)
                yield f"is_requestor={is_req} A_P_ABORT reason={rsn}", dul, rec, {"head": 2, "provider_reason": rsn}
        elif a in ("AR-5", "AA-4", "AA-5"):
            for sr in (False, True):
                dul, rec = mk_dul(is_req, sr)
                yield f"is_requestor={is_req} shutdown_raises={sr}", dul, rec, {}
        else:
            dul, rec = mk_dul(is_req)
            yield f"is_requestor={is_req}", dul, rec, {}


def check_action(a):
    """returns list of mismatches"""
    bad = []
    fn = getattr(fsm, a.replace("-", "_"))
    spec = S.ACTIONS[a]
    for desc, dul, rec, info in scenarios(a):
        events = []
        orig = evt.trigger
        fsm.evt.trigger = lambda assoc, e, attrs=None: rec.trace.append(("evt", e.name, attrs))
        try:
            try:
                nxt = fn(dul)
            except Exception as e:
                bad.append({"scenario": desc, "observed": f"exception {e!r}", "expected": "no exception"})
                continue
        finally:
            fsm.evt.trigger = orig
        if "cond" in spec:
            c = bool(info["cond"])
            eff, want_next = spec["effects"][c], spec["next"][c]
        else:
            eff, want_next = spec["effects"], spec["next"]
        proto = []
        for e in rec.trace:
            if e[0] == "connect":
                proto.append(("connect",))
            elif e[0] in ("send", "indicate"):
                proto.append((e[0], type(e[1]).__name__))
            elif e[0] == "pdata_indication":
                proto.append(("pdata_indication",))
            elif e[0] == "artim":
                proto.append(e)
            elif e[0] == "close" and not (a in ("AR-5", "AA-4", "AA-5") and e[1] == "shutdown"):
                proto.append(("close",))
        if nxt != want_next:
            bad.append({"scenario": desc, "observed": f"next state {nxt}", "expected": want_next})
        if sorted(proto) != sorted(eff):
            bad.append({"scenario": desc, "observed": f"effects {proto}", "expected": f"{eff}"})
        pops_pdu = sum(1 for e in rec.trace if e[0] == "pop_pdu")
        pops_pr = sum(1 for e in rec.trace if e[0] == "pop_primitive")
        want_pdu = 1 if a in S.POPS_PDU or (a in S.POPS_PDU_IF_ANY and info.get("had_pdu")) else 0
        want_pr = 1 if a in S.POPS_PRIMITIVE or (a == "AA-1" and info.get("head") in (1, 2)) else 0
        if (pops_pdu, pops_pr) != (want_pdu, want_pr):
            bad.append({"scenario": desc, "observed": f"pops pdu={pops_pdu} primitive={pops_pr}",
                        "expected": f"pdu={want_pdu} primitive={want_pr}"})
        sent = [e[1] for e in rec.trace if e[0] == "send"]
        ind = [e[1] for e in rec.trace if e[0] == "indicate"]

        def fields(o, names):
            return tuple(getattr(o, n) for n in names)
        if a == "AE-6" and sent and fields(sent[0], ("result", "source", "reason_diagnostic")) != (1, 2, 2):
            bad.append({"scenario": desc, "observed": fields(sent[0], ("result", "source", "reason_diagnostic")), "expected": (1, 2, 2)})
        if a == "AE-8" and sent and fields(sent[0], ("result", "source", "reason_diagnostic")) != info["rj"]:
            bad.append({"scenario": desc, "observed": fields(sent[0], ("result", "source", "reason_diagnostic")), "expected": info["rj"]})
        if a == "AE-4" and ind and fields(ind[0], ("result", "result_source", "diagnostic")) != info["rj"]:
            bad.append({"scenario": desc, "observed": fields(ind[0], ("result", "result_source", "diagnostic")), "expected": info["rj"]})
        if a == "AA-1" and sent:
            got = fields(sent[0], ("source", "reason_diagnostic"))
            want = {0: (0, 0), 1: (info.get("abort_source"), 0), 2: (2, info.get("provider_reason"))}[info["head"]]
            if got != want:
                bad.append({"scenario": desc, "observed": got, "expected": want})
        if a == "AA-7" and sent and fields(sent[0], ("source", "reason_diagnostic")) != (2, 2):
            bad.append({"scenario": desc, "observed": fields(sent[0], ("source", "reason_diagnostic")), "expected": (2, 2)})
        if a == "AA-8" and sent:
            got = fields(sent[0], ("source", "reason_diagnostic"))
            if got[0] != 2 or got[1] not in S.PROVIDER_REASONS:
                bad.append({"scenario": desc, "observed": got, "expected": "(2, defined reason)"})
        if a == "AA-3" and ind:
            src, rsn = info["abort"]
            p = ind[0]
            ok = (isinstance(p, A_P_ABORT) and p.provider_reason == rsn) if src == 2 else (isinstance(p, A_ABORT) and p.abort_source == src)
            if not ok:
                bad.append({"scenario": desc, "observed": repr(p), "expected": "indication carrying the PDU's source/reason"})
        n_evt = sum(1 for e in rec.trace if e[0] == "evt" and e[1] == "EVT_CONN_CLOSE")
        n_kill = sum(1 for e in rec.trace if e[0] == "kill")
        n_close = sum(1 for e in rec.trace if e[0] == "close")
        n_sent = sum(1 for e in rec.trace if e[0] == "dimse_sentinel")
        if a in S.TO_IDLE:
            if (n_evt, n_kill, n_close) != (1, 1, 1) or rec.trace[-1][0] != "kill":
                bad.append({"scenario": desc, "observed": f"EVT_CONN_CLOSE={n_evt} kill={n_kill} close={n_close} last={rec.trace[-1][0]}",
                            "expected": "1/1/1, kill last"})
        elif (n_evt, n_kill, n_close) != (0, 0, 0):
            bad.append({"scenario": desc, "observed": f"EVT_CONN_CLOSE={n_evt} kill={n_kill} close={n_close}", "expected": "0/0/0"})
        if n_sent != (1 if a in ("AA-2", "AA-3", "AA-4") else 0):
            bad.append({"scenario": desc, "observed": f"dimse sentinel x{n_sent}", "expected": "only on AA-2/3/4"})
        ann = fsm.ACTIONS[a][2]
        if not (nxt == ann or (isinstance(ann, tuple) and nxt in ann)):
            bad.append({"scenario": desc, "observed": f"returns {nxt}", "expected": f"announced {ann}"})
    return bad


def check_table():
    bad = []
    for ev in S.EVENTS:
        for st in S.STATES:
            got, want = fsm.TRANSITION_TABLE.get((ev, st)), S.TABLE.get((ev, st))
            if got != want:
                bad.append({"scenario": f"({ev},{st})", "observed": got, "expected": want})
    for a, sp in S.ACTIONS.items():
        ent = fsm.ACTIONS.get(a)
        if ent is None or ent[1] is not getattr(fsm, a.replace("-", "_"), None):
            bad.append({"scenario": f"ACTIONS[{a}]", "observed": repr(ent), "expected": "bound to its function"})
    return bad


def check_do_action():
    bad = []
    for ev in S.EVENTS:
        for st in S.STATES:
            dul, rec = mk_dul(True)
            sm = fsm.StateMachine(dul)
            sm.current_state = st
            want = S.TABLE.get((ev, st))
            called = []
            saved = dict(fsm.ACTIONS)
            for a, ent in saved.items():
                nxt = S.ACTIONS[a]["next"]
                out = sorted(set(nxt.values()))[0] if isinstance(nxt, dict) else nxt
                fsm.ACTIONS[a] = (ent[0], (lambda d, a=a, out=out: (called.append(a), out)[1]), ent[2])
            trans = []
            orig = fsm.evt.trigger
            fsm.evt.trigger = lambda assoc, e, attrs=None: trans.append((e.name, attrs))
            try:
                try:
                    sm.do_action(ev)
                    exc = None
                except Exception as e:
                    exc = e
            finally:
                fsm.evt.trigger = orig
                fsm.ACTIONS.update(saved)
            if want is None:
                if not isinstance(exc, fsm.InvalidEventError) or called or sm.current_state != st:
                    bad.append({"scenario": f"({ev},{st}) not in Table 9-10", "observed": f"exc={exc!r} called={called} state={sm.current_state}",
                                "expected": "InvalidEventError, no action, state unchanged"})
            else:
                nxt = S.ACTIONS[want]["next"]
                outs = set(nxt.values()) if isinstance(nxt, dict) else {nxt}
                ok = exc is None and called == [want] and sm.current_state in outs and len(trans) == 1 and \
                    trans[0][1] == {"action": want, "current_state": st, "fsm_event": ev, "next_state": sm.current_state}
                if not ok:
                    bad.append({"scenario": f"({ev},{st})", "observed": f"exc={exc!r} called={called} state={sm.current_state} evts={trans}",
                                "expected": f"action {want}, next in {sorted(outs)}, one EVT_FSM_TRANSITION"})
    return bad


def main():
    rec = load() if len(sys.argv) > 1 and sys.argv[1] != "--all" else {"id": "all"}
    oid = rec["id"]
    bad = []
    if "TRANSITION_TABLE" in oid or "/ACTIONS/" in oid or "/tables/" in oid or oid == "all":
        bad += check_table()
    if "do_action" in oid or "transition" in oid or oid == "all":
        bad += check_do_action()
    acts = [a for a in S.ACTIONS if oid == "all" or f":{a.replace('-', '_')}/" in oid]
    for a in acts:
        bad += [dict(b, action=a) for b in check_action(a)]
    if bad:
        done(True, input=bad[0].get("scenario"), observed=bad[0]["observed"], expected=bad[0]["expected"],
             action=bad[0].get("action"), mismatches=len(bad), all=bad[:10])
    done(False, note="real code agrees with the PS3.8 transcription on every replay scenario")


main()

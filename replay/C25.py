"""Replay for C25: a REAL C-STORE between two pynetdicom AEs on 127.0.0.1 for each uncompressed / deflated transfer syntax, with
chunked receive on and off; the SCP handler reads the data set every way the Event offers (decoded, raw bytes, file) and the
result is compared with what was sent."""
import os
import socket

from common import load, done

from pydicom.dataset import Dataset, FileMetaDataset
from pydicom.uid import ImplicitVRLittleEndian, ExplicitVRLittleEndian, ExplicitVRBigEndian, DeflatedExplicitVRLittleEndian
from pynetdicom import AE, evt, _config
from pynetdicom.dsutils import encode
from pynetdicom.sop_class import CTImageStorage

rec = load()
ob = rec.get("id", "")


def make_ds(ts):
    ds = Dataset()
    ds.file_meta = FileMetaDataset()
    ds.file_meta.TransferSyntaxUID = ts
    ds.SOPClassUID = CTImageStorage
    ds.SOPInstanceUID = "1.2.3.4.5"
    ds.PatientName = "Test^Patient"
    ds.PatientID = "12345"
    ds.Rows, ds.Columns = 3, 3
    ds.PixelData = bytes(range(18))
    ds.BitsAllocated = 16
    return ds


ALL_TS = None


def run(ts, chunked, every_syntax_its_own_context=False):
    _config.STORE_RECV_CHUNKED_DATASET = chunked
    seen = {}

    def handle(event):
        seen["raw"] = event.encoded_dataset(include_meta=False)
        try:
            seen["decoded"] = event.dataset
        except Exception as e:
            seen["decoded"] = e
        if chunked:
            try:
                seen["file"] = open(event.dataset_path, "rb").read()
            except Exception as e:
                seen["file"] = e
        return 0x0000
    scp = AE()
    scp.add_supported_context(CTImageStorage, ALL_TS if every_syntax_its_own_context else [ts])
    srv = scp.start_server(("127.0.0.1", 0), block=False, evt_handlers=[(evt.EVT_C_STORE, handle)])
    port = srv.socket.getsockname()[1]
    try:
        scu = AE()
        for t in (ALL_TS if every_syntax_its_own_context else [ts]):
            scu.add_requested_context(CTImageStorage, [t])      # one presentation context per transfer syntax
        assoc = scu.associate("127.0.0.1", port)
        ds = make_ds(ts)
        st = assoc.send_c_store(ds)
        assoc.release()
    finally:
        srv.shutdown()
        _config.STORE_RECV_CHUNKED_DATASET = False
    want = encode(ds, ts.is_implicit_VR, ts.is_little_endian, ts.is_deflated)
    return seen, want, ds


def codec_round_trips():
    """bounded, native: dsutils.decode(dsutils.encode(ds)) through the REAL pydicom codec and zlib for every transfer-syntax
    flag combination the library uses and data sets of very different size / compressibility (the deflate branch talks to
    zlib, an assumed library contract in the proof)"""
    import random
    from io import BytesIO
    from pynetdicom.dsutils import decode
    rnd = random.Random(7)
    variants = {"small": lambda d: None,
                "odd-length values": lambda d: (setattr(d, "PatientName", "A"), setattr(d, "PatientID", "123")),
                "6 MiB of zeros (deflates about 1000:1)": lambda d: setattr(d, "PixelData", bytes(6 * 1024 * 1024)),
                "300 KiB of noise (does not deflate)": lambda d: setattr(d, "PixelData", bytes(rnd.getrandbits(8) for _ in range(300 * 1024)))}
    for ts in (ImplicitVRLittleEndian, ExplicitVRLittleEndian, ExplicitVRBigEndian, DeflatedExplicitVRLittleEndian):
        for label, edit in variants.items():
            ds = make_ds(ts)
            edit(ds)
            del ds.file_meta
            flags = (ts.is_implicit_VR, ts.is_little_endian, ts.is_deflated)
            enc = encode(ds, *flags)
            if enc is None:
                return dict(input={"transfer syntax": ts.name, "data set": label}, observed="encode returned None", expected="bytes")
            try:
                back = decode(BytesIO(enc), *flags)
                same = back == ds
                why = None if same else {k: (len(getattr(back, k, b"")), len(getattr(ds, k))) for k in ("PixelData",) if getattr(back, k, None) != getattr(ds, k)}
            except Exception as e:
                same, why = False, repr(e)
            if not same or len(enc) % 2:
                return dict(input={"transfer syntax": ts.name, "data set": label}, observed={"decoded equals what was encoded": same, "difference": why,
                                                                                             "encoded length": len(enc)},
                            expected="decode(encode(ds)) == ds and an even number of encoded bytes")
    return None


if "bounded-native" in ob or "dsutils" in ob or ob.endswith("cross-check"):
    _bad = codec_round_trips()
    if _bad:
        done(True, **_bad)
    if "bounded-native" in ob:
        done(False, note="decode(encode(ds)) == ds on 4 transfer syntaxes x 4 data sets through the real pydicom codec and zlib")
ALL_TS = [ExplicitVRLittleEndian, ExplicitVRBigEndian, DeflatedExplicitVRLittleEndian, ImplicitVRLittleEndian]
if "decode_msg" in ob or ob.endswith("cross-check"):
    bad = None
    # the same SOP class accepted in several contexts with different transfer syntaxes: the received file must name the syntax
    # of the context the data set arrived on
    from pydicom import dcmread
    from io import BytesIO as _B
    for ts in ALL_TS:
        seen, want, ds = run(ts, True, every_syntax_its_own_context=True)
        f = seen.get("file")
        try:
            got_ts = dcmread(_B(f), stop_before_pixels=True, force=True).file_meta.TransferSyntaxUID if isinstance(f, bytes) else repr(f)
        except Exception as e:
            got_ts = repr(e)
        dec = seen.get("decoded")
        same = not isinstance(dec, Exception) and dec is not None and dec.get("PatientName") == ds.PatientName and dec.get("PixelData") == ds.PixelData
        if got_ts != ts or not same:
            bad = dict(input={"chunked receive": True, "presentation contexts": "one per transfer syntax for the same SOP class", "sent with": ts.name},
                       observed={"Transfer Syntax UID of the received file": str(getattr(got_ts, "name", got_ts)), "event.dataset equals what was sent": same},
                       expected={"Transfer Syntax UID of the received file": ts.name, "event.dataset equals what was sent": True})
            break
    if bad:
        done(True, **bad)
    if "decode_msg" in ob:
        done(False, note="chunked receive: the received file names the transfer syntax of the context the data set arrived on (4 contexts for one SOP class)")
bad = None
for ts in (ImplicitVRLittleEndian, ExplicitVRLittleEndian, ExplicitVRBigEndian, DeflatedExplicitVRLittleEndian):
    for chunked in (False, True):
        seen, want, ds = run(ts, chunked)
        problems = {}
        if seen.get("raw") != want:
            problems["encoded_dataset(include_meta=False)"] = f"{len(seen.get('raw') or b'')} bytes, sent {len(want)} bytes"
        dec = seen.get("decoded")
        if isinstance(dec, Exception) or dec is None or dec.PatientName != ds.PatientName or dec.PixelData != ds.PixelData:
            problems["dataset"] = repr(dec)[:80]
        if problems:
            bad = dict(input={"transfer syntax": ts.name, "STORE_RECV_CHUNKED_DATASET": chunked}, observed=problems,
                       expected="every accessor presents the data set that was sent")
            break
    if bad:
        break
if bad:
    done(True, **bad)
done(False, note="all accessors returned the sent data set for all four transfer syntaxes, chunked receive on and off")

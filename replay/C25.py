"""Replay for C25: a REAL C-STORE between two pynetdicom AEs on 127.0.0.1 for each uncompressed / deflated transfer syntax, with
chunked receive on and off; the SCP handler reads the data set every way the Event offers (decoded, raw bytes, file) and the
result is compared with what was sent."""
import os
import socket

from common import load, done

from pydicom.dataset import Dataset, FileMetaDataset
from pydicom.uid import ImplicitVRLittleEndian, ExplicitVRLittleEndian, ExplicitVRBigEndian, DeflatedExplicitVRLittleEndian
from pynetdicom import AE, evt, _config
from pynetdicom.dsutils import encode
from pynetdicom.sop_class import CTImageStorage

rec = load()
ob = rec.get("id", "")


def make_ds(ts):
    ds = Dataset()
    ds.file_meta = FileMetaDataset()
    ds.file_meta.TransferSyntaxUID = ts
    ds.SOPClassUID = CTImageStorage
    ds.SOPInstanceUID = "1.2.3.4.5"
    ds.PatientName = "Test^Patient"
    ds.PatientID = "12345"
    ds.Rows, ds.Columns = 3, 3
    ds.PixelData = bytes(range(18))
    ds.BitsAllocated = 16
    return ds


def run(ts, chunked):
    _config.STORE_RECV_CHUNKED_DATASET = chunked
    seen = {}

    def handle(event):
        seen["raw"] = event.encoded_dataset(include_meta=False)
        try:
            seen["decoded"] = event.dataset
        except Exception as e:
            seen["decoded"] = e
        if chunked:
            try:
                seen["file"] = open(event.dataset_path, "rb").read()
            except Exception as e:
                seen["file"] = e
        return 0x0000
    scp = AE()
    scp.add_supported_context(CTImageStorage, [ts])
    srv = scp.start_server(("127.0.0.1", 0), block=False, evt_handlers=[(evt.EVT_C_STORE, handle)])
    port = srv.socket.getsockname()[1]
    try:
        scu = AE()
        scu.add_requested_context(CTImageStorage, [ts])
        assoc = scu.associate("127.0.0.1", port)
        ds = make_ds(ts)
        st = assoc.send_c_store(ds)
        assoc.release()
    finally:
        srv.shutdown()
        _config.STORE_RECV_CHUNKED_DATASET = False
    want = encode(ds, ts.is_implicit_VR, ts.is_little_endian, ts.is_deflated)
    return seen, want, ds


bad = None
for ts in (ImplicitVRLittleEndian, ExplicitVRLittleEndian, ExplicitVRBigEndian, DeflatedExplicitVRLittleEndian):
    for chunked in (False, True):
        seen, want, ds = run(ts, chunked)
        problems = {}
        if seen.get("raw") != want:
            problems["encoded_dataset(include_meta=False)"] = f"{len(seen.get('raw') or b'')} bytes, sent {len(want)} bytes"
        dec = seen.get("decoded")
        if isinstance(dec, Exception) or dec is None or dec.PatientName != ds.PatientName or dec.PixelData != ds.PixelData:
            problems["dataset"] = repr(dec)[:80]
        if problems:
            bad = dict(input={"transfer syntax": ts.name, "STORE_RECV_CHUNKED_DATASET": chunked}, observed=problems,
                       expected="every accessor presents the data set that was sent")
            break
    if bad:
        break
if bad:
    done(True, **bad)
done(False, note="all accessors returned the sent data set for all four transfer syntaxes, chunked receive on and off")

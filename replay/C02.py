"""Replay for C02: raw bytes from a peer are pushed through the REAL receive path - AssociationSocket.recv,
DULServiceProvider._read_pdu_data / _decode_pdu, the REAL state machine (do_action with the real actions) and the REAL DIMSE
provider - one reactor step at a time.  Reports the first byte string for which an exception escapes (that exception would end
the DUL reactor thread), or for which the item splitters do not terminate."""
import queue
import threading
import types

from common import load, done

from pynetdicom.transport import AssociationSocket
from pynetdicom.dul import DULServiceProvider
from pynetdicom.fsm import StateMachine
from pynetdicom.dimse import DIMSEServiceProvider
from pynetdicom import pdu as PDU, pdu_items as ITEMS

rec = load()
ob = rec.get("id", "")


class FakeSock:
    def __init__(self, stream):
        self.stream, self.pos, self.sent, self.closed = bytes(stream), 0, [], False

    def recv(self, k):
        out = self.stream[self.pos:self.pos + k]
        self.pos += len(out)
        return out


def provider(stream, state, requestor=False):
    """a real DUL provider in FSM state `state`, its socket delivering `stream`"""
    dul = DULServiceProvider.__new__(DULServiceProvider)
    raw = FakeSock(stream)
    sock = types.SimpleNamespace(socket=raw, sent=[])
    sock.recv = lambda n: AssociationSocket.recv(sock, n)
    sock.send = lambda b: sock.sent.append(bytes(b))
    sock.close = lambda: setattr(raw, "closed", True)
    sock._shutdown_socket = lambda: setattr(raw, "closed", True)
    dul.socket = sock
    dul.event_queue = queue.Queue()
    dul._recv_pdu = queue.Queue()
    dul.to_provider_queue = queue.Queue()
    dul.to_user_queue = queue.Queue()
    dul._kill_thread = False
    dul._is_killed = False
    addr = types.SimpleNamespace(as_tuple=("127.0.0.1", 11112))
    assoc = types.SimpleNamespace(get_handlers=lambda e: [], is_requestor=requestor, is_acceptor=not requestor, dul=dul,
                                  acse_timeout=5, dimse_timeout=5, network_timeout=5, _kill=False, is_established=True,
                                  is_aborted=False, acceptor=types.SimpleNamespace(address_info=addr, maximum_length=16382),
                                  requestor=types.SimpleNamespace(address_info=addr, maximum_length=16382), _accepted_cx={},
                                  _serve_request=lambda *a: None)
    dul._assoc = assoc
    assoc.dimse = DIMSEServiceProvider(assoc)
    dul.artim_timer = types.SimpleNamespace(start=lambda: None, stop=lambda: None, restart=lambda: None, expired=False)
    dul._idle_timer = types.SimpleNamespace(restart=lambda: None)
    dul.state_machine = StateMachine(dul)
    dul.state_machine.current_state = state
    return dul


def feed(stream, state, requestor=False, steps=6):
    """run reactor steps by hand: read one PDU, process the queued events; returns a description of what escaped, or None"""
    dul = provider(stream, state, requestor)
    for _ in range(steps):
        try:
            DULServiceProvider._read_pdu_data(dul)
        except Exception as e:
            return f"{type(e).__name__}: {e} escaped DULServiceProvider._read_pdu_data"
        while True:
            try:
                ev = dul.event_queue.get(False)
            except queue.Empty:
                break
            st = dul.state_machine.current_state
            try:
                dul.state_machine.do_action(ev)
            except Exception as e:
                return f"{type(e).__name__}: {e} escaped StateMachine.do_action({ev!r}) in {st} (the reactor thread ends with it)"
            if dul.state_machine.current_state == "Sta1":
                return None
        if dul.socket.socket.pos >= len(stream):
            return None
    return None


def pdv(ctx, payload):
    return (len(payload) + 1).to_bytes(4, "big") + bytes([ctx]) + payload


def pdata(*pdvs):
    body = b"".join(pdvs)
    return b"\x04\x00" + len(body).to_bytes(4, "big") + body


WITNESSES = [
    ("A-ABORT with the reserved source value 3", bytes.fromhex("070000000004" + "00000300"), "Sta6", False, "to_primitive"),
    ("A-ABORT from the provider with reserved reason 3", bytes.fromhex("070000000004" + "00000203"), "Sta6", False, "to_primitive"),
    ("A-ASSOCIATE-RJ with result 3", bytes.fromhex("030000000004" + "00030101"), "Sta5", True, "to_primitive"),
    ("A-ASSOCIATE-RJ with source 1 and reason 4", bytes.fromhex("030000000004" + "00010104"), "Sta5", True, "to_primitive"),
    ("P-DATA-TF whose PDV holds only the context id (no message control header)", pdata(pdv(1, b"")), "Sta6", False, "receive_primitive"),
    ("P-DATA-TF with a last command fragment that is not a data set", pdata(pdv(1, b"\x03" + b"\x01\x02\x03")), "Sta6", False, "receive_primitive"),
    ("P-DATA-TF with a command set that has no CommandField", pdata(pdv(1, b"\x03" + bytes.fromhex("0000000004000000" + "00000000"))), "Sta6", False,
     "receive_primitive"),
    ("P-DATA-TF with an unknown CommandField 0x7777", pdata(pdv(1, b"\x03" + bytes.fromhex("00000001" + "02000000" + "7777"))), "Sta6", False,
     "receive_primitive"),
]
bad = None
for desc, stream, state, req, tag in WITNESSES:
    if tag == "to_primitive" and "receive_primitive" in ob:
        continue
    if tag == "receive_primitive" and "_read_pdu_data" in ob:
        continue
    what = feed(stream, state, req)
    if what:
        bad = dict(input={"received bytes": stream.hex(), "what": desc, "FSM state": state}, observed=what,
                   expected="the PDU is classified (PDU event or Evt19) and handled by the state machine without an exception")
        break
if bad is None and "_generate_items" in ob:
    # termination of the item splitters on malformed input: run each in a thread with a deadline
    cases = [b"", b"\x10", b"\x10\x00\x00", b"\x10\x00\x00\x00", b"\x10\x00\xff\xff", b"\x00" * 64, b"\x10\x00\x00\x00" * 1000,
             bytes(range(256)) * 4]
    fns = [("PDU._generate_items", PDU.PDU._generate_items), ("P_DATA_TF._generate_items", PDU.P_DATA_TF._generate_items),
           ("PDUItem._generate_items", ITEMS.PDUItem._generate_items),
           ("SOPClassCommonExtendedNegotiationSubItem._generate_items", ITEMS.SOPClassCommonExtendedNegotiationSubItem._generate_items)]
    for name, fn in fns:
        if name.split(".")[0] not in ob:
            continue
        for b in cases:
            res = {}

            def run():
                try:
                    n = 0
                    for _ in fn(b):
                        n += 1
                        if n > len(b) + 1:
                            res["v"] = "more items than bytes"
                            return
                    res["v"] = "ok"
                except (AssertionError, Exception) as e:
                    res["v"] = "ok" if type(e).__name__ in ("AssertionError", "error") else f"raised {e!r}"
            t = threading.Thread(target=run, daemon=True)
            t.start()
            t.join(3)
            if res.get("v") != "ok":
                bad = dict(input={"bytes": b[:64].hex(), "function": name}, observed=res.get("v", "did not terminate within 3 s"),
                           expected="terminates; raises only AssertionError/struct.error")
                break
        if bad:
            break
if bad:
    done(True, **bad)
done(False, note="no scripted byte string made an exception escape the receive path")

"""Replay for C19: REAL Association._serve_request and Association._c_store_scp with stub collaborators: a request that
arrives on a context id that was not accepted must not reach a handler nor be answered as if valid."""
import sys
import types

from common import load, done

from pynetdicom import evt
from pynetdicom.association import Association
from pynetdicom.dimse_primitives import C_STORE, C_ECHO
from pynetdicom.presentation import PresentationContext

rec = load()
CT = "1.2.840.10008.5.1.4.1.1.2"


def cx(cid, ab, scp=True, scu=True):
    c = PresentationContext()
    c.context_id, c.abstract_syntax, c.transfer_syntax = cid, ab, ["1.2.840.10008.1.2"]
    c.result, c._as_scp, c._as_scu = 0, scp, scu
    return c


def stub_assoc(accepted):
    log = []
    a = Association.__new__(Association)
    a._accepted_cx = {c.context_id: c for c in accepted}
    rej = cx(3, CT)
    rej.result = 3
    a._rejected_cx = [rej]
    a.dimse = types.SimpleNamespace(send_msg=lambda rsp, cid: log.append(("send_msg", cid, getattr(rsp, "Status", None))), cancel_req={})
    a._handlers = {}

    def handler(event):
        log.append(("handler", event.context.context_id))
        return 0x0000
    a.get_handlers = lambda e: (handler, None) if e.is_intervention else []
    a._abort_nonblocking = lambda: None
    a._abort_blocking = lambda: log.append(("abort",))
    a.abort = a._abort_blocking
    a._sent_release = False
    a._is_paused = False
    a.is_established = True
    a.acceptor = types.SimpleNamespace(accepted_common_extended={})
    return a, log


bad = None
if "_c_store_scp" in rec["id"]:
    for rid in (9, 1, 255, 0, 7):
        a, log = stub_assoc([cx(5, CT)])
        req = C_STORE()
        req.MessageID, req.AffectedSOPClassUID, req.AffectedSOPInstanceUID, req.Priority = 1, CT, "1.2.3", 2
        req._context_id = rid
        a._c_store_scp(req)
        handled = [x for x in log if x[0] == "handler"]
        ok_answers = [x for x in log if x[0] == "send_msg" and x[2] in (0, None)]
        if handled or ok_answers:
            bad = dict(input={"accepted context ids": [5], "C-STORE request arrives on context id": rid},
                       observed=log, expected="no handler call and no success response for an unaccepted context id")
            break
else:
    for rid in (9, 1, 255, 0):
        a, log = stub_assoc([cx(5, "1.2.840.10008.1.1")])
        req = C_ECHO()
        req.MessageID, req.AffectedSOPClassUID = 1, "1.2.840.10008.1.1"
        a._serve_request(req, rid)
        if [x for x in log if x[0] in ("handler", "send_msg")] or ("abort",) not in log:
            bad = dict(input={"accepted context ids": [5], "C-ECHO request arrives on context id": rid}, observed=log,
                       expected="abort, no handler call, no response")
            break
if bad:
    done(True, **bad)
done(False, note="requests on unaccepted context ids were neither handled nor answered")

"""Replay for C19: REAL Association._serve_request and Association._c_store_scp with stub collaborators: a request that
arrives on a context id that was not accepted must not reach a handler nor be answered as if valid."""
import sys
import types

from common import load, done

from pynetdicom import evt
from pynetdicom.association import Association
from pynetdicom.dimse_primitives import C_STORE, C_ECHO
from pynetdicom.presentation import PresentationContext

rec = load()


def decode_context_check():
    """native: the REAL encode_msg / decode_msg - a request whose command set is sent on one context id and whose data-set
    fragments are relabelled with another: the received message's context id must be the command set's"""
    from io import BytesIO
    from pynetdicom.dimse_messages import C_STORE_RQ, DIMSEMessage
    from pynetdicom.dimse_primitives import C_STORE
    from pynetdicom.pdu_primitives import P_DATA
    p = C_STORE()
    p.MessageID, p.AffectedSOPClassUID, p.AffectedSOPInstanceUID, p.Priority = 1, "1.2.840.10008.5.1.4.1.1.2", "1.2.3", 2
    p.DataSet = BytesIO(b"\x08\x00\x18\x00\x04\x00\x00\x001.2\x00" * 20)
    m = C_STORE_RQ()
    m.primitive_to_message(p)
    for cmd_ctx, data_ctx in ((3, 1), (9, 5), (1, 1)):
        rx = DIMSEMessage()
        done_ = False
        for pd in m.encode_msg(cmd_ctx, 64):
            q = P_DATA()
            q.presentation_data_value_list = [[cmd_ctx if (v[0] & 1) else data_ctx, v] for (_c, v) in pd.presentation_data_value_list]
            done_ = rx.decode_msg(q)
        if not done_ or rx.context_id != cmd_ctx:
            return dict(input={"command-set fragments sent on context id": cmd_ctx, "data-set fragments sent on context id": data_ctx},
                        observed={"message complete": done_, "context id recorded for the received message": rx.context_id},
                        expected={"context id recorded for the received message": cmd_ctx})
    return None


if "decode_msg" in rec.get("id", "") or rec.get("id", "").endswith("cross-check"):
    _bad = decode_context_check()
    if _bad:
        done(True, **_bad)
    if "decode_msg" in rec.get("id", ""):
        done(False, note="the received message's context id is the one of its command set")
CT = "1.2.840.10008.5.1.4.1.1.2"


def cx(cid, ab, scp=True, scu=True):
    c = PresentationContext()
    c.context_id, c.abstract_syntax, c.transfer_syntax = cid, ab, ["1.2.840.10008.1.2"]
    c.result, c._as_scp, c._as_scu = 0, scp, scu
    return c


def stub_assoc(accepted):
    log = []
    a = Association.__new__(Association)
    a._accepted_cx = {c.context_id: c for c in accepted}
    rej = cx(3, CT)
    rej.result = 3
    a._rejected_cx = [rej]
    a.dimse = types.SimpleNamespace(send_msg=lambda rsp, cid: log.append(("send_msg", cid, getattr(rsp, "Status", None))), cancel_req={})
    a._handlers = {}

    def handler(event):
        log.append(("handler", event.context.context_id))
        return 0x0000
    a.get_handlers = lambda e: (handler, None) if e.is_intervention else []
    a._abort_nonblocking = lambda: None
    a._abort_blocking = lambda: log.append(("abort",))
    a.abort = a._abort_blocking
    a._sent_release = False
    a._is_paused = False
    a.is_established = True
    a.acceptor = types.SimpleNamespace(accepted_common_extended={})
    return a, log


bad = None
if "_c_store_scp" in rec["id"]:
    for rid in (9, 1, 255, 0, 7):
        a, log = stub_assoc([cx(5, CT)])
        req = C_STORE()
        req.MessageID, req.AffectedSOPClassUID, req.AffectedSOPInstanceUID, req.Priority = 1, CT, "1.2.3", 2
        req._context_id = rid
        a._c_store_scp(req)
        handled = [x for x in log if x[0] == "handler"]
        ok_answers = [x for x in log if x[0] == "send_msg" and x[2] in (0, None)]
        if handled or ok_answers:
            bad = dict(input={"accepted context ids": [5], "C-STORE request arrives on context id": rid},
                       observed=log, expected="no handler call and no success response for an unaccepted context id")
            break
else:
    for rid in (9, 1, 255, 0):
        a, log = stub_assoc([cx(5, "1.2.840.10008.1.1")])
        req = C_ECHO()
        req.MessageID, req.AffectedSOPClassUID = 1, "1.2.840.10008.1.1"
        a._serve_request(req, rid)
        if [x for x in log if x[0] in ("handler", "send_msg")] or ("abort",) not in log:
            bad = dict(input={"accepted context ids": [5], "C-ECHO request arrives on context id": rid}, observed=log,
                       expected="abort, no handler call, no response")
            break
if bad:
    done(True, **bad)
done(False, note="requests on unaccepted context ids were neither handled nor answered")

"""Replay / CPython cross-check for C11: REAL negotiate_as_acceptor -> (what the A-ASSOCIATE-AC carries) ->
REAL negotiate_as_requestor for every role proposal x acceptor setting x transfer-syntax ordering."""
import sys

from common import load, done
from spec import roles as R

from pynetdicom.presentation import negotiate_as_acceptor, negotiate_as_requestor, PresentationContext
from pynetdicom.pdu import A_ASSOCIATE_AC
from pynetdicom.pdu_primitives import A_ASSOCIATE, MaximumLengthNotification, ImplementationClassUIDNotification

ABS = ["1.2.840.10008.1.1", "1.2.840.10008.5.1.4.1.1.2", "1.2.840.10008.5.1.4.1.2.1.1"]
TS = ["1.2.840.10008.1.2", "1.2.840.10008.1.2.1", "1.2.840.10008.1.2.2"]


def cx(cid, ab, ts, scu=None, scp=None):
    c = PresentationContext()
    c.context_id = cid
    if ab:
        c.abstract_syntax = ab
    c.transfer_syntax = list(ts)
    c.scu_role, c.scp_role = scu, scp
    return c


def through_wire(results, replies):
    """carry the acceptor's answer through a real A-ASSOCIATE-AC PDU"""
    p = A_ASSOCIATE()
    p.application_context_name = "1.2.840.10008.3.1.1.1"
    p.calling_ae_title, p.called_ae_title = "A", "B"
    p.presentation_context_definition_results_list = results
    m = MaximumLengthNotification()
    m.maximum_length_received = 16382
    i = ImplementationClassUIDNotification()
    i.implementation_class_uid = "1.2.3"
    p.user_information = [m, i] + list(replies)
    p.result = 0
    pdu = A_ASSOCIATE_AC()
    pdu.decode(A_ASSOCIATE_AC(p).encode())
    out = pdu.to_primitive()
    from pynetdicom.pdu_primitives import SCP_SCU_RoleSelectionNegotiation
    rr = {x.sop_class_uid: (x.scu_role, x.scp_role) for x in out.user_information if isinstance(x, SCP_SCU_RoleSelectionNegotiation)}
    return out.presentation_context_definition_results_list, rr


def acse_roles_check():
    """native: the REAL ACSE._negotiate_as_requestor with a stub association; the roles every requested context carries when
    negotiate_as_requestor is called, for lists with repeated abstract syntaxes"""
    import itertools
    import types
    import pynetdicom.acse as acse_mod
    from pynetdicom.acse import ACSE
    AB = ["1.2.840.10008.5.1.4.1.1.2", "1.2.840.10008.5.1.4.1.1.4"]
    ROLES = [(None, None), (True, False), (None, True), (True, True)]
    role_maps = [{}]
    for a in ROLES:
        role_maps += [{AB[0]: a}, {AB[1]: a}] + [{AB[0]: a, AB[1]: b} for b in ROLES]
    snap = {}
    orig = acse_mod.negotiate_as_requestor

    def spy(rq, results, roles=None):
        snap["roles"] = [(c.scu_role, c.scp_role) for c in rq]
        return orig(rq, results, roles)
    acse_mod.negotiate_as_requestor = spy
    try:
        for k in (1, 2, 3):
            for abs_ in itertools.product(AB, repeat=k):
                for rmap in role_maps:
                    snap.clear()
                    cxs = [cx(2 * i + 1, ab, [TS[0]]) for i, ab in enumerate(abs_)]
                    items = {ab: types.SimpleNamespace(scu_role=v[0], scp_role=v[1]) for ab, v in rmap.items()}
                    rsp = A_ASSOCIATE()
                    rsp.result = 0
                    rsp.presentation_context_definition_results_list = []
                    ready = types.SimpleNamespace(wait=lambda: True)
                    sock = types.SimpleNamespace(_ready=ready, _is_connected=True)
                    dul = types.SimpleNamespace(receive_pdu=lambda wait=True, timeout=None: rsp, kill_dul=lambda: None, socket=sock)
                    assoc = types.SimpleNamespace(requestor=types.SimpleNamespace(requested_contexts=cxs, role_selection=items, primitive=None),
                                                  acceptor=types.SimpleNamespace(role_selection={}, primitive=None), dul=dul, acse_timeout=1,
                                                  get_handlers=lambda e: [], kill=lambda: None, abort=lambda: None, _accepted_cx={}, _rejected_cx=[],
                                                  is_established=False, is_aborted=False, is_rejected=False, accepted_contexts=[])
                    a = ACSE(assoc)
                    a.send_request = lambda: None
                    a.send_abort = lambda *x: None
                    try:
                        a._negotiate_as_requestor()
                    except Exception as e:
                        return dict(input={"requested abstract syntaxes": list(abs_), "role items": rmap}, observed=repr(e), expected="no exception")
                    want = [((rmap[ab][0] or False, rmap[ab][1] or False) if ab in rmap else (None, None)) for ab in abs_]
                    if snap.get("roles") != want:
                        return dict(input={"requested contexts (abstract syntaxes)": list(abs_), "role items (abstract syntax -> (scu, scp))": rmap},
                                    observed={"roles of the requested contexts when negotiate_as_requestor is called": snap.get("roles")},
                                    expected=want)
    finally:
        acse_mod.negotiate_as_requestor = orig
    return None


def no_usable_context_check():
    """native, over 127.0.0.1: a requestor whose every proposed context is refused by the acceptor aborts the association it was
    just granted - the A-ABORT goes out, the connection is closed and EVT_CONN_CLOSE is notified exactly once on its side"""
    import time
    from pynetdicom import AE, evt
    from pynetdicom.pdu import A_ABORT_RQ
    scp = AE()
    scp.add_supported_context("1.2.840.10008.1.1")
    srv = scp.start_server(("127.0.0.1", 0), block=False)
    seen = []
    try:
        scu = AE()
        scu.acse_timeout = scu.dimse_timeout = scu.network_timeout = 10
        scu.add_requested_context("1.2.840.10008.5.1.4.1.1.2")
        hs = [(evt.EVT_CONN_OPEN, lambda e: seen.append("CONN_OPEN")), (evt.EVT_CONN_CLOSE, lambda e: seen.append("CONN_CLOSE")),
              (evt.EVT_ABORTED, lambda e: seen.append("ABORTED")),
              (evt.EVT_PDU_SENT, lambda e: seen.append("SENT:" + type(e.pdu).__name__))]
        assoc = scu.associate("127.0.0.1", srv.socket.getsockname()[1], evt_handlers=hs)
        t0 = time.time()
        while assoc.dul.is_alive() and time.time() - t0 < 5:
            time.sleep(0.05)
        got = {"aborted": assoc.is_aborted, "established": assoc.is_established, "A-ABORT PDUs sent": seen.count("SENT:A_ABORT_RQ"),
               "EVT_CONN_CLOSE": seen.count("CONN_CLOSE"), "EVT_ABORTED": seen.count("ABORTED"), "state": assoc.dul.state_machine.current_state}
    finally:
        srv.shutdown()
    want = {"aborted": True, "established": False, "A-ABORT PDUs sent": 1, "EVT_CONN_CLOSE": 1, "EVT_ABORTED": 1, "state": "Sta1"}
    if got != want:
        return dict(input="requestor proposes only CT Image Storage, the acceptor supports only Verification", observed=got, expected=want)
    return None


_rec = load() if len(sys.argv) > 1 else {"id": ""}
if "no-accepted-context" in _rec.get("id", "") or _rec.get("id", "").endswith("cross-check"):
    _bad = no_usable_context_check()
    if _bad:
        done(True, **_bad)
    if "no-accepted-context" in _rec.get("id", ""):
        done(False, note="the real requestor aborted, sent the A-ABORT and closed the connection, EVT_CONN_CLOSE once")
if "_negotiate_as_requestor" in _rec.get("id", "") or _rec.get("id", "").endswith("cross-check"):
    _bad = acse_roles_check()
    if _bad:
        done(True, **_bad)
    if "_negotiate_as_requestor" in _rec.get("id", ""):
        done(False, note="the real ACSE._negotiate_as_requestor applied the proposed roles to every requested context")
bad = None
n = 0
for prop in [None] + R.RQ_PROPOSALS[1:]:
    for ac_set in R.AC_SETTINGS:
        for supported in (True, False):
            for rq_ts, ac_ts in (([TS[0]], [TS[0]]), ([TS[0], TS[1]], [TS[1], TS[0]]), ([TS[0]], [TS[1]]), (TS, [TS[2], TS[0]])):
              for sname, ab2, ts2, order in (("other", ABS[1], None, 0), ("same-supported", ABS[0], None, 0),
                                             ("same-unsupported", ABS[0], ["1.2.840.10008.1.2.4.90"], 0),
                                             ("same-unsupported-first", ABS[0], ["1.2.840.10008.1.2.4.90"], 1)):
                if bad:
                    break
                n += 1
                first_id, second_id = (1, 3) if order == 0 else (3, 1)
                proposed = [cx(first_id, ABS[0], rq_ts), cx(second_id, ab2, ts2 or rq_ts)]
                if order:
                    proposed.reverse()
                sup = [cx(None, ABS[0] if supported else ABS[2], ac_ts, *ac_set)]
                roles = {ABS[0]: prop} if prop else {}
                res, replies = negotiate_as_acceptor(proposed, sup, dict(roles))
                wire, reply_map = through_wire(res, replies)
                rk = ((prop[0] or False), (prop[1] or False)) if prop else (None, None)
                requested = sorted([cx(first_id, ABS[0], rq_ts, *rk), cx(second_id, ab2, ts2 or rq_ts, *(rk if ab2 == ABS[0] else (None, None)))],
                                   key=lambda c: c.context_id)
                out = negotiate_as_requestor(requested, wire, reply_map)
                a = {c.context_id: c for c in res}
                r = {c.context_id: c for c in out}
                acc_a = sorted(k for k, c in a.items() if c.result == 0)
                acc_r = sorted(k for k, c in r.items() if c.result == 0)
                desc = {"proposal": prop, "acceptor_roles": ac_set, "abstract_syntax_supported": supported, "rq_ts": rq_ts, "ac_ts": ac_ts,
                        "second proposed context": sname}
                if sorted(r) != [1, 3] or len(out) != 2:
                    bad = dict(input=desc, observed=sorted(r), expected=[1, 3])
                elif acc_a != acc_r:
                    bad = dict(input=desc, observed={"acceptor accepted": acc_a, "requestor accepted": acc_r}, expected="same ids")
                else:
                    for k in acc_a:
                        if [str(t) for t in a[k].transfer_syntax] != [str(t) for t in r[k].transfer_syntax] or a[k].abstract_syntax != r[k].abstract_syntax:
                            bad = dict(input=desc, observed={"acceptor": [str(t) for t in a[k].transfer_syntax], "requestor": [str(t) for t in r[k].transfer_syntax]},
                                       expected="same syntaxes")
                        elif not (r[k].as_scu == a[k].as_scp and r[k].as_scp == a[k].as_scu):
                            bad = dict(input=desc, observed={"requestor (scu,scp)": (r[k].as_scu, r[k].as_scp), "acceptor (scu,scp)": (a[k].as_scu, a[k].as_scp)},
                                       expected="complementary roles")
                if bad:
                    break
            if bad:
                break
        if bad:
            break
    if bad:
        break
# two SOP classes that both carry a role proposal, the acceptor answers only one of them (it has role settings for that one
# only): the unanswered one gets the default roles on both sides, whichever comes first in the request
for prop in R.RQ_PROPOSALS[1:]:
    for ac_set in R.AC_SETTINGS:
        for order in (0, 1):
            if bad:
                break
            n += 1
            ids = (1, 3) if order == 0 else (3, 1)
            proposed = sorted([cx(ids[0], ABS[0], [TS[0]]), cx(ids[1], ABS[1], [TS[0]])], key=lambda c: c.context_id)
            sup = [cx(None, ABS[0], [TS[0]], *ac_set), cx(None, ABS[1], [TS[0]])]
            res, replies = negotiate_as_acceptor(proposed, sup, {ABS[0]: prop, ABS[1]: prop})
            wire, reply_map = through_wire(res, replies)
            rk = ((prop[0] or False), (prop[1] or False))
            requested = sorted([cx(ids[0], ABS[0], [TS[0]], *rk), cx(ids[1], ABS[1], [TS[0]], *rk)], key=lambda c: c.context_id)
            out = negotiate_as_requestor(requested, wire, reply_map)
            a = {c.context_id: c for c in res}
            r = {c.context_id: c for c in out}
            desc = {"proposal for both SOP classes": prop, "acceptor role settings (first SOP class only)": ac_set,
                    "context id of the answered SOP class": ids[0], "of the unanswered one": ids[1]}
            for k in sorted(a):
                if a[k].result == 0 and (k not in r or r[k].result != 0 or not (r[k].as_scu == a[k].as_scp and r[k].as_scp == a[k].as_scu)):
                    bad = dict(input=desc, observed={"context": k, "requestor (scu,scp)": (r[k].as_scu, r[k].as_scp) if k in r else None,
                                                     "acceptor (scu,scp)": (a[k].as_scu, a[k].as_scp)}, expected="complementary roles")
                    break
if bad:
    done(True, **bad)
done(False, note=f"both sides agree on {n} negotiations carried through a real A-ASSOCIATE-AC")

"""Replay for C27: the REAL DULServiceProvider._send with the REAL AssociationSocket.send over a raw socket that fails (or
accepts the data in pieces); a bound EVT_PDU_SENT / EVT_DATA_SENT handler records what pynetdicom announced as sent."""
import queue
import types

from common import load, done

from pynetdicom import evt
from pynetdicom.dul import DULServiceProvider
from pynetdicom.transport import AssociationSocket
from pynetdicom.pdu import A_RELEASE_RQ

rec = load()


class Raw:
    def __init__(self, fail_after=None, piece=3):
        self.accepted = b""
        self.fail_after, self.piece = fail_after, piece

    def send(self, b):
        if self.fail_after is not None and len(self.accepted) >= self.fail_after:
            raise OSError("connection reset by peer")
        n = min(self.piece, len(b))
        self.accepted += bytes(b[:n])
        return n


def run(fail_after):
    seen = []
    handlers = {evt.EVT_PDU_SENT: [(lambda e: seen.append(("EVT_PDU_SENT", type(e.pdu).__name__)), None)],
                evt.EVT_DATA_SENT: [(lambda e: seen.append(("EVT_DATA_SENT", len(e.data))), None)]}
    assoc = types.SimpleNamespace(get_handlers=lambda e: handlers.get(e, []), _abort_nonblocking=lambda: None, _abort_blocking=lambda: None,
                                  abort=lambda: None)
    dul = DULServiceProvider.__new__(DULServiceProvider)
    dul._assoc = assoc
    dul.event_queue = queue.Queue()
    sock = AssociationSocket.__new__(AssociationSocket)
    sock._assoc = assoc
    assoc.dul = dul
    raw = Raw(fail_after)
    sock.socket = raw
    dul.socket = sock
    pdu = A_RELEASE_RQ()
    DULServiceProvider._send(dul, pdu)
    events = []
    while True:
        try:
            events.append(dul.event_queue.get(False))
        except queue.Empty:
            break
    return seen, events, raw.accepted, pdu.encode()


bad = None
for fail_after in (0, 3, None):
    seen, events, accepted, wire = run(fail_after)
    complete = accepted == wire
    announced = any(s[0] == "EVT_PDU_SENT" for s in seen)
    if announced and not complete:
        bad = dict(input={"PDU": "A-RELEASE-RQ (10 bytes)", "raw socket.send": f"raises OSError after {fail_after} bytes were accepted"},
                   observed={"notifications": seen, "bytes handed to the transport": len(accepted), "FSM events queued": events},
                   expected="EVT_PDU_SENT only for a PDU whose bytes were all handed to the transport")
        break
    if complete and not announced:
        bad = dict(input={"raw socket.send": "accepts 3 bytes per call"}, observed={"notifications": seen}, expected="EVT_PDU_SENT once")
        break
if bad:
    done(True, **bad)
done(False, note="sent-PDU notifications match what was handed to the transport")

"""Replay for C22 (also the CPython cross-check of the SCP contracts): the REAL service-class SCP implementations run against
a stub association with a grid of handler behaviours (statuses of every category, out-of-range values, malformed results,
status datasets carrying command fields, exceptions before/between yields, too few/too many results).  Reports the first
behaviour whose recorded response sequence breaks a C22 clause; scenarios are filtered by the failed obligation's name."""
from common import load, done
from svc_scenarios import all_scenarios, run_scenario

rec = load()
ob = rec.get("id", "")
hits = []
for sc in all_scenarios():
    if sc["applies"](ob):
        v = run_scenario(sc, "C22") if "n" in sc else None
        if v:
            hits.append((sc, v))
if hits:
    sc, v = hits[0]
    done(True, input=sc["desc"], observed=v["observed"], expected=v["expected"], what=v["what"],
         other_failing_inputs=[h[0]["desc"] for h in hits[1:6]])
done(False, note="no scripted handler behaviour breaks the clause natively")

"""Replay for C29: the REAL qrscp database module on an in-memory SQLite database with a handful of instances; queries built
from the failing obligation's witness show what the real search returns against PS3.4 C.2.2.2 matching computed independently."""
import fnmatch
import re

from common import load, done

from pydicom.dataset import Dataset
from sqlalchemy import create_engine
from sqlalchemy.orm import sessionmaker

from pynetdicom.apps.qrscp import db
from pynetdicom.sop_class import PatientRootQueryRetrieveInformationModelFind as PR_FIND

rec = load()
ob = rec.get("id", "")


def instance(pid, name, study, series, sop):
    ds = Dataset()
    ds.PatientID, ds.PatientName = pid, name
    ds.StudyInstanceUID, ds.SeriesInstanceUID, ds.SOPInstanceUID = study, series, sop
    ds.SOPClassUID = "1.2.840.10008.5.1.4.1.1.2"
    ds.StudyDate, ds.StudyTime, ds.AccessionNumber, ds.StudyID = "20200101", "120000", "A1", "S1"
    ds.Modality, ds.SeriesNumber, ds.InstanceNumber = "CT", "1", "1"
    return ds


def session_with(instances):
    engine = create_engine("sqlite:///:memory:")
    db.Base.metadata.create_all(engine)
    session = sessionmaker(bind=engine)()
    for ds in instances:
        db.add_instance(ds, session)
    return session


def dicom_wild(pattern, value, case_sensitive=True):
    """PS3.4 C.2.2.2.4: '*' any sequence, '?' any one character, everything else literal"""
    rx = "".join(".*" if c == "*" else "." if c == "?" else re.escape(c) for c in pattern)
    return re.fullmatch(rx, value, 0 if case_sensitive else re.I) is not None


STORE = [instance("AXB1", "Doe^John", "1.1", "1.1.1", "1.1.1.1"), instance("AXB1", "Doe^John", "1.1", "1.1.1", "1.1.1.2"),
         instance("A_B2", "Roe^Jane", "1.2", "1.2.1", "1.2.1.1"), instance("axb3", "Poe^Ann", "1.3", "1.3.1", "1.3.1.1"),
         instance("A%B4", "Moe^Al", "1.4", "1.4.1", "1.4.1.1")]
bad = None
session = session_with(STORE)


def find_patients(key):
    q = Dataset()
    q.QueryRetrieveLevel = "PATIENT"
    q.PatientID = key
    return db.search(PR_FIND, q, session)


if "no-other-character-is-treated-as-a-wild-card" in ob or not ob:
    for key in ("A_B*", "A%B*"):
        got = sorted({m.patient_id for m in find_patients(key)})
        want = sorted({d.PatientID for d in STORE if dicom_wild(key, d.PatientID)})
        if got != want:
            bad = dict(input={"PatientID key": key, "stored patient ids": sorted({d.PatientID for d in STORE})}, observed=got, expected=want)
            break
if not bad and "case-sensitive" in ob:
    key = "axb*"
    got = sorted({m.patient_id for m in find_patients(key)})
    want = sorted({d.PatientID for d in STORE if dicom_wild(key, d.PatientID)})
    if got != want:
        bad = dict(input={"PatientID key": key, "stored patient ids": sorted({d.PatientID for d in STORE})}, observed=got, expected=want)
if not bad and "one-result-per-matching-entity" in ob:
    res = find_patients("AXB1")
    if len(res) != 1:
        bad = dict(input={"level": "PATIENT", "PatientID key": "AXB1", "stored": "one patient AXB1 with two instances"},
                   observed=f"{len(res)} results (one per stored instance)", expected="1 result (one per matching patient)")
def over_the_wire(q):
    """the identifier as the SCP sees it: encoded and decoded again (zero-length values come back as '' / [] with pydicom 3)"""
    from io import BytesIO
    from pynetdicom.dsutils import encode, decode
    return decode(BytesIO(encode(q, True, True)), True, True)


if not bad and ("build_query" in ob or not ob):
    # dispatch: zero-length keys (universal matching), several UIDs (list of UID matching), wild cards on every text key
    q = Dataset()
    q.QueryRetrieveLevel = "PATIENT"
    q.PatientID, q.PatientName = "", ""
    got = sorted({m.patient_id for m in db.search(PR_FIND, over_the_wire(q), session)})
    want = sorted({d.PatientID for d in STORE})
    if got != want:
        bad = dict(input={"level": "PATIENT", "keys": "PatientID and PatientName zero-length, identifier decoded from its wire form",
                          "decoded values": [repr(e.value) for e in over_the_wire(q)]}, observed=got, expected=want)
    if not bad:
        q = Dataset()
        q.QueryRetrieveLevel = "STUDY"
        q.PatientID = ""
        q.StudyInstanceUID = ["1.1", "1.3"]
        try:
            got = sorted({m.study_instance_uid for m in db.search(PR_FIND, over_the_wire(q), session)})
        except Exception as e:
            got = f"{type(e).__name__}: {str(e)[:120]}"
        if got != ["1.1", "1.3"]:
            bad = dict(input={"level": "STUDY", "StudyInstanceUID": ["1.1", "1.3"]}, observed=got, expected=["1.1", "1.3"])
    if not bad:
        mods = [("CT", "1.1.1.1"), ("MR", "1.2.1.1"), ("CR", "1.3.1.1")]
        s2 = session_with([instance(f"P{i}", "X^Y", f"2.{i}", f"2.{i}.1", f"2.{i}.1.1") for i in range(3)])
        for inst, (m, _u) in zip(s2.query(db.Instance).order_by(db.Instance.patient_id).all(), mods):
            inst.modality = m
        s2.commit()
        for key in ("C*", "?R", "*"):
            q = Dataset()
            q.QueryRetrieveLevel = "SERIES"
            q.PatientID, q.StudyInstanceUID, q.Modality = None, None, key
            got = sorted(m.modality for m in db.search(PR_FIND, q, s2))
            want = sorted(m for m, _u in mods if dicom_wild(key, m))
            if got != want:
                bad = dict(input={"level": "SERIES", "Modality key": key, "stored modalities": [m for m, _u in mods]}, observed=got, expected=want)
                break
if bad:
    done(True, **bad)
done(False, note="the real search returned exactly what PS3.4 matching selects for the tried keys")

"""Replay for C29: the REAL qrscp database module on an in-memory SQLite database with a handful of instances; queries built
from the failing obligation's witness show what the real search returns against PS3.4 C.2.2.2 matching computed independently."""
import fnmatch
import re

from common import load, done

from pydicom.dataset import Dataset
from sqlalchemy import create_engine
from sqlalchemy.orm import sessionmaker

from pynetdicom.apps.qrscp import db
from pynetdicom.sop_class import PatientRootQueryRetrieveInformationModelFind as PR_FIND

rec = load()
ob = rec.get("id", "")


def instance(pid, name, study, series, sop):
    ds = Dataset()
    ds.PatientID, ds.PatientName = pid, name
    ds.StudyInstanceUID, ds.SeriesInstanceUID, ds.SOPInstanceUID = study, series, sop
    ds.SOPClassUID = "1.2.840.10008.5.1.4.1.1.2"
    ds.StudyDate, ds.StudyTime, ds.AccessionNumber, ds.StudyID = "20200101", "120000", "A1", "S1"
    ds.Modality, ds.SeriesNumber, ds.InstanceNumber = "CT", "1", "1"
    return ds


def session_with(instances):
    engine = create_engine("sqlite:///:memory:")
    db.Base.metadata.create_all(engine)
    session = sessionmaker(bind=engine)()
    for ds in instances:
        db.add_instance(ds, session)
    return session


def dicom_wild(pattern, value, case_sensitive=True):
    """PS3.4 C.2.2.2.4: '*' any sequence, '?' any one character, everything else literal"""
    rx = "".join(".*" if c == "*" else "." if c == "?" else re.escape(c) for c in pattern)
    return re.fullmatch(rx, value, 0 if case_sensitive else re.I) is not None


STORE = [instance("AXB1", "Doe^John", "1.1", "1.1.1", "1.1.1.1"), instance("AXB1", "Doe^John", "1.1", "1.1.1", "1.1.1.2"),
         instance("A_B2", "Roe^Jane", "1.2", "1.2.1", "1.2.1.1"), instance("axb3", "Poe^Ann", "1.3", "1.3.1", "1.3.1.1"),
         instance("A%B4", "Moe^Al", "1.4", "1.4.1", "1.4.1.1")]
bad = None
session = session_with(STORE)


def find_patients(key):
    q = Dataset()
    q.QueryRetrieveLevel = "PATIENT"
    q.PatientID = key
    return db.search(PR_FIND, q, session)


if "no-other-character-is-treated-as-a-wild-card" in ob or not ob:
    for key in ("A_B*", "A%B*"):
        got = sorted({m.patient_id for m in find_patients(key)})
        want = sorted({d.PatientID for d in STORE if dicom_wild(key, d.PatientID)})
        if got != want:
            bad = dict(input={"PatientID key": key, "stored patient ids": sorted({d.PatientID for d in STORE})}, observed=got, expected=want)
            break
if not bad and "case-sensitive" in ob:
    key = "axb*"
    got = sorted({m.patient_id for m in find_patients(key)})
    want = sorted({d.PatientID for d in STORE if dicom_wild(key, d.PatientID)})
    if got != want:
        bad = dict(input={"PatientID key": key, "stored patient ids": sorted({d.PatientID for d in STORE})}, observed=got, expected=want)
if not bad and "one-result-per-matching-entity" in ob:
    res = find_patients("AXB1")
    if len(res) != 1:
        bad = dict(input={"level": "PATIENT", "PatientID key": "AXB1", "stored": "one patient AXB1 with two instances"},
                   observed=f"{len(res)} results (one per stored instance)", expected="1 result (one per matching patient)")
if bad:
    done(True, **bad)
done(False, note="the real search returned exactly what PS3.4 matching selects for the tried keys")

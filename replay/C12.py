"""Replay for C12: the REAL validators / setters with concrete strings built from the verifier's counterexample (or a fixed set of
boundary strings), and the REAL A-ASSOCIATE-RQ encoder to show what reaches the wire."""
from common import load, done

from pynetdicom import _validators, _config
from pynetdicom.utils import set_ae
from pynetdicom.pdu import A_ASSOCIATE_RQ
from pynetdicom.pdu_primitives import A_ASSOCIATE, MaximumLengthNotification, ImplementationClassUIDNotification
from pynetdicom.presentation import PresentationContext, build_context

rec = load()
ob = rec.get("id", "")
model = rec.get("model") or {}


def model_string():
    cs = sorted(((int(k.split("[")[1][:-1]), v) for k, v in model.items() if k.startswith("value[") and isinstance(v, int)))
    return "".join(chr(v) for _, v in cs) if cs else None


def legal_ae(s):
    return 1 <= len(s) <= 16 and all(32 <= ord(c) <= 126 and c != "\\" for c in s) and s.strip(" ") != ""


def legal_ui(s):
    return 1 <= len(s) <= 64 and all(c in "0123456789." for c in s)


def rq_bytes(calling="A", called="B", abstract="1.2.840.10008.1.1"):
    p = A_ASSOCIATE()
    p.application_context_name = "1.2.840.10008.3.1.1.1"
    p.calling_ae_title, p.called_ae_title = calling, called
    cx = PresentationContext()
    cx.context_id = 1
    cx.abstract_syntax = abstract
    cx.transfer_syntax = ["1.2.840.10008.1.2"]
    p.presentation_context_definition_list = [cx]
    m = MaximumLengthNotification()
    m.maximum_length_received = 16382
    i = ImplementationClassUIDNotification()
    i.implementation_class_uid = "1.2.3"
    p.user_information = [m, i]
    pdu = A_ASSOCIATE_RQ()
    pdu.from_primitive(p)
    return pdu.encode()


def proposed_ids(contexts):
    """the context ids of the A-ASSOCIATE-RQ the REAL AE.associate builds (nothing listens on the port: the request object is
    complete before the connection is attempted)"""
    from pynetdicom import AE
    ae = AE()
    ae.acse_timeout = ae.network_timeout = ae.dimse_timeout = ae.connection_timeout = 1
    assoc = ae.associate("127.0.0.1", 1, contexts=contexts)
    return [c.context_id for c in assoc.requestor.requested_contexts]


def check_context_ids():
    def fresh(n):
        return [build_context("1.2.840.10008.1.1") for _ in range(n)]

    def numbered(ids):
        out = fresh(len(ids))
        for c, i in zip(out, ids):
            c.context_id = i
        return out
    shared = build_context("1.2.840.10008.5.1.4.1.1.2")
    cases = [("three fresh contexts", fresh(3)), ("contexts that already carry ids [1, 5, None]", numbered([1, 5, None])),
             ("contexts that already carry ids [3, None, None]", numbered([3, None, None])),
             ("the same context object listed twice", [shared, shared]),
             ("the same context object listed twice among others", fresh(1) + [shared] + fresh(1) + [shared])]
    for label, cxs in cases:
        ids = proposed_ids(cxs)
        if ids != [2 * i + 1 for i in range(len(cxs))]:
            return dict(input={"contexts passed to AE.associate": label}, observed={"context ids in the request": ids},
                        expected=f"distinct odd ids {[2 * i + 1 for i in range(len(cxs))]}")
    return None


bad = None
cands = [s for s in [model_string()] if s is not None]
if "associate" in ob or ob.endswith("cross-check"):
    bad = check_context_ids()
    if bad:
        done(True, **bad)
    if "associate" in ob:
        done(False, note="AE.associate numbered every tried context list 1, 3, 5, ...")
if "validate_ui" in ob or "set_uid" in ob:
    for s in cands + ["1.2.abc", "not a uid", "1..2", "\x001"]:
        ok, why = _validators.validate_ui(__import__("pydicom").uid.UID(s))
        if ok and not legal_ui(s):
            on_wire = None
            try:
                on_wire = s.encode("ascii", "replace") in rq_bytes(abstract=s)
            except Exception as e:
                on_wire = f"not sent: {e!r}"
            bad = dict(input={"UID": s, "ENFORCE_UID_CONFORMANCE": _config.ENFORCE_UID_CONFORMANCE}, observed={"validate_ui": [ok, why],
                       "appears as an abstract syntax in the encoded A-ASSOCIATE-RQ": on_wire},
                       expected="a UID that is not made of digits and dots is refused")
            break
else:
    for s in cands + ["STORE\x7fSCU", "A\x1fB", "A\\B", " " * 16, "", "\t", "X" * 17, "café", "\x7f"]:
        r = None
        try:
            r = set_ae(s, "Called AE Title", False, False)
        except (ValueError, TypeError):
            pass
        okv = _validators.validate_ae(s)[0]
        if (r is not None and not legal_ae(s)) or (okv and s and not all(32 <= ord(c) <= 126 and c != "\\" for c in s)) or (okv and len(s) > 16):
            on_wire = None
            try:
                on_wire = rq_bytes(called=s)[10:26].hex()
            except Exception as e:
                on_wire = f"not sent: {e!r}"
            bad = dict(input={"AE title": repr(s)}, observed={"set_ae returned": repr(r), "validate_ae": okv, "Called AE Title field on the wire": on_wire},
                       expected="an AE title with control characters, a backslash, non-ASCII characters, more than 16 characters or only spaces is refused")
            break
if bad:
    done(True, **bad)
done(False, note="every candidate string was classified as the value representation requires")

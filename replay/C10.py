"""Replay / CPython cross-check for C10: the REAL negotiate_as_acceptor on every small configuration, compared
with an independent specification function (PS3.8 9.3.2/9.3.3 result reasons + PS3.7 D.3.3.4 role function)."""
import itertools
import sys

from common import load, done
from spec import roles as R

from pynetdicom.presentation import negotiate_as_acceptor, PresentationContext, SCP_SCU_ROLES

ABS = ["1.2.840.10008.1.1", "1.2.840.10008.5.1.4.1.1.2", "1.2.840.10008.5.1.4.1.2.1.1"]
TS = ["1.2.840.10008.1.2", "1.2.840.10008.1.2.1", "1.2.840.10008.1.2.2"]


def cx(cid, ab, ts, scu=None, scp=None):
    c = PresentationContext()
    c.context_id = cid
    c.abstract_syntax = ab
    c.transfer_syntax = list(ts)
    c.scu_role, c.scp_role = scu, scp
    return c


def spec_one(p, supported, roles):
    """expected (result, ts, as_scu, as_scp, reply) for proposed context p"""
    ac = next((a for a in supported if a.abstract_syntax == p.abstract_syntax), None)
    if ac is None:
        return (3, p.transfer_syntax[0], False, False, None)
    common = [t for t in ac.transfer_syntax if t in p.transfer_syntax]
    if not common:
        return (4, p.transfer_syntax[0], False, False, None)
    prop = roles.get(p.abstract_syntax, (None, None))
    acs = (ac.scu_role, ac.scp_role)
    _, _, as_scu, as_scp = R.outcome(prop, acs)
    res = 1 if (as_scu, as_scp) == (False, False) else 0
    rep = R.reply(prop, acs) if (res == 0 and p.abstract_syntax in roles) else None
    return (res, common[0], as_scu, as_scp, rep)


def check(proposed, supported, roles):
    try:
        res, replies = negotiate_as_acceptor(proposed, supported, dict(roles))
    except Exception as e:
        return dict(observed=f"exception {e!r}", expected="a result list")
    if [c.context_id for c in res] != sorted(p.context_id for p in proposed):
        return dict(observed=[c.context_id for c in res], expected="one result per proposed id, sorted")
    rep = {r.sop_class_uid: (bool(r.scu_role), bool(r.scp_role)) for r in replies}
    want_rep = {}
    for p in proposed:
        c = next(x for x in res if x.context_id == p.context_id)
        w = spec_one(p, supported, roles)
        got = (c.result, c.transfer_syntax[0] if c.transfer_syntax else None, c.as_scu if c.result in (0, 1) else False,
               c.as_scp if c.result in (0, 1) else False)
        if c.abstract_syntax != p.abstract_syntax or got != w[:4]:
            return dict(observed={"id": p.context_id, "got": got}, expected={"want": w[:4]})
        if w[4] is not None:
            want_rep[p.abstract_syntax] = w[4]
    # one reply per abstract syntax (the last accepted context with that abstract syntax wins in the code; all agree)
    if set(rep) != set(want_rep) or any(rep[k] != want_rep[k] for k in rep):
        return dict(observed={"replies": rep}, expected={"replies": want_rep})
    return None


def check_unrestricted():
    from pynetdicom.presentation import negotiate_unrestricted
    for uid in ("1.2.3.4", "1.2.840.10008.5.1.4.1.1.2"):          # private, CT Image Storage
        for prop in [None] + R.RQ_PROPOSALS[1:]:
            p = cx(1, uid, [TS[1], TS[0]])
            roles = {uid: prop} if prop else {}
            res, replies = negotiate_unrestricted([p], [], dict(roles))
            c = res[0]
            want = R.outcome(prop or (None, None), (True, True))[2:]
            got = (c.as_scu, c.as_scp)
            if c.result != 0 or c.transfer_syntax != [TS[1]] or got != want:
                return dict(input={"abstract_syntax": uid, "role_proposal": prop, "mode": "unrestricted storage"},
                            observed={"result": c.result, "transfer_syntax": [str(t) for t in c.transfer_syntax], "acceptor (as_scu, as_scp)": got},
                            expected={"result": 0, "transfer_syntax": [TS[1]], "acceptor (as_scu, as_scp)": want})
    return None


def check_ts_invariant():
    """class invariant used as a precondition by the negotiation contracts: '' is never in _transfer_syntax"""
    for held in ([], [TS[0]], [TS[0], TS[1]]):
        for arg in ("", b"", TS[2], TS[0], None, 17):
            c = PresentationContext()
            c.transfer_syntax = list(held)
            before = list(c.transfer_syntax)
            try:
                c.add_transfer_syntax(arg)
            except Exception as e:            # noqa: BLE001
                after = list(c._transfer_syntax)
                if "" in after:
                    return dict(input={"held": held, "argument": repr(arg)}, observed=f"{e!r}; list {after}", expected="no empty UID in the list")
                continue
            after = list(c._transfer_syntax)
            if "" in after:
                return dict(input={"held": held, "argument": repr(arg)}, observed={"_transfer_syntax": [str(x) for x in after]},
                            expected="no empty UID in the list")
        c = PresentationContext()
        try:
            c.transfer_syntax = list(held) + [""]
        except ValueError:
            pass
        if "" in c._transfer_syntax:
            return dict(input={"transfer_syntax setter": held + [""]}, observed={"_transfer_syntax": [str(x) for x in c._transfer_syntax]},
                        expected="no empty UID in the list")
    return None


def check_rq_without_transfer_syntax():
    """a REAL acceptor on 127.0.0.1 receives an A-ASSOCIATE-RQ whose only presentation-context item carries an abstract syntax
    but no transfer-syntax sub-item: it must answer (reject / abort / accept with a result) - not die in the negotiation"""
    import socket
    import threading
    import time
    from pynetdicom import AE
    from pynetdicom.pdu import A_ASSOCIATE_RQ
    from pynetdicom.pdu_primitives import A_ASSOCIATE, MaximumLengthNotification, ImplementationClassUIDNotification
    from pynetdicom.sop_class import Verification
    p = A_ASSOCIATE()
    p.application_context_name = "1.2.840.10008.3.1.1.1"
    p.calling_ae_title, p.called_ae_title = "A", "B"
    c = cx(1, ABS[0], [TS[0]])
    p.presentation_context_definition_list = [c]
    m = MaximumLengthNotification()
    m.maximum_length_received = 16382
    i = ImplementationClassUIDNotification()
    i.implementation_class_uid = "1.2.3"
    p.user_information = [m, i]
    pdu = A_ASSOCIATE_RQ()
    pdu.from_primitive(p)
    item = pdu.variable_items[1]
    item.abstract_transfer_syntax_sub_items = [item.abstract_transfer_syntax_sub_items[0]]     # drop the transfer syntax
    data = pdu.encode()
    errs = []
    old_hook = threading.excepthook
    threading.excepthook = lambda a: errs.append(repr(a.exc_value))
    ae = AE()
    ae.add_supported_context(Verification)
    ae.acse_timeout = ae.network_timeout = 2
    srv = ae.start_server(("127.0.0.1", 0), block=False)
    try:
        s = socket.create_connection(("127.0.0.1", srv.socket.getsockname()[1]))
        s.sendall(data)
        s.settimeout(3)
        try:
            r = s.recv(4096)
            reply = {1: "A-ASSOCIATE-RQ", 2: "A-ASSOCIATE-AC", 3: "A-ASSOCIATE-RJ", 7: "A-ABORT"}.get(r[0], hex(r[0])) if r else "connection closed"
        except OSError as e:
            reply = f"nothing within 3 s ({e})"
        time.sleep(0.3)
        s.close()
    finally:
        srv.shutdown()
        threading.excepthook = old_hook
    if errs or reply.startswith("nothing"):
        return dict(input={"received": "A-ASSOCIATE-RQ with one presentation context item: abstract syntax, NO transfer syntax sub-item", "bytes": data.hex()},
                    observed={"reply": reply, "uncaught exceptions in pynetdicom threads": errs},
                    expected="the request is answered (A-ASSOCIATE-RJ / A-ABORT / a rejected context); no thread dies")
    return None


def check_unrestricted_classification():
    """native, exhaustive over the SOP-class tables of pynetdicom.sop_class (plus private and unknown UIDs): with
    UNRESTRICTED_STORAGE_SERVICE a proposed context is accepted unconditionally exactly when its abstract syntax is private,
    a storage SOP class or unknown to pynetdicom; every other known SOP class is negotiated normally (here: the acceptor
    supports nothing, so result 3)"""
    from pynetdicom import sop_class as S
    from pynetdicom.presentation import negotiate_unrestricted, PresentationContext
    groups = {n: v for n, v in vars(S).items() if n.startswith("_") and n.endswith("_CLASSES") and isinstance(v, dict)
              and v and all(isinstance(x, str) for x in v.values())}
    cases = [(g, name, uid, g == "_STORAGE_CLASSES") for g, d in sorted(groups.items()) for name, uid in sorted(d.items())]
    cases += [("private", "private", "1.2.826.0.1.3680043.9.3811.1.99", True), ("unknown", "unknown public", "1.2.840.10008.5.1.4.1.1.9999.1", True)]
    wrong = []
    for g, name, uid, storage_like in cases:
        c = PresentationContext()
        c.context_id, c.abstract_syntax, c.transfer_syntax = 1, uid, ["1.2.840.10008.1.2"]
        res, _roles = negotiate_unrestricted([c], [], {})
        got = res[0].result
        if (got == 0) != storage_like or (not storage_like and got != 3):
            wrong.append({"table": g, "SOP class": name, "uid": uid, "result": got, "expected": 0 if storage_like else 3})
    if wrong:
        return dict(input={"UNRESTRICTED_STORAGE_SERVICE": True, "supported contexts": [], "proposed": f"one context per SOP class ({len(cases)} cases)"},
                    observed=wrong[:6], expected="result 0 exactly for private / storage / unknown abstract syntaxes, 3 for every other known SOP class")
    return None


def main():
    rec = load() if len(sys.argv) > 1 and sys.argv[1] != "--all" else {"id": "all"}
    if "unrestricted-storage-classification" in rec["id"] or rec["id"].endswith("cross-check") or rec["id"] == "all":
        b = check_unrestricted_classification()
        if b:
            done(True, **b)
        if "unrestricted-storage-classification" in rec["id"]:
            done(False, note="every SOP class pynetdicom knows is classified as the tables say")
    if "add_transfer_syntax" in rec["id"]:
        b = check_ts_invariant()
        if b:
            done(True, **b)
        done(False, note="add_transfer_syntax never puts the empty UID into the list on the replay cases")
    if "to_primitive" in rec["id"]:
        b = check_rq_without_transfer_syntax()
        if b:
            done(True, **b)
        done(False, note="an A-ASSOCIATE-RQ whose presentation context has no transfer syntax is answered without a crash")
    if "negotiate_unrestricted" in rec["id"]:
        b = check_unrestricted()
        if b:
            done(True, **b)
        done(False, note="unrestricted negotiation agrees with the specification on the replay cases")
    bad = None
    n = 0
    ts_lists = [list(p) for k in (1, 2, 3) for p in itertools.permutations(TS, k)]      # all 15 ordered selections
    for p_ts, a_ts in itertools.product(ts_lists, ts_lists):
        for ac_set in R.AC_SETTINGS:
            for prop in [None] + R.RQ_PROPOSALS[1:]:
                for same_abs in (True, False):
                    proposed = [cx(1, ABS[0], p_ts), cx(3, ABS[1], p_ts[::-1])]
                    supported = [cx(None, ABS[0] if same_abs else ABS[2], a_ts, *ac_set)]
                    roles = {ABS[0]: prop} if prop else {}
                    n += 1
                    b = check(proposed, supported, roles)
                    if b:
                        bad = dict(input={"proposed_ts": p_ts, "supported_ts": a_ts, "acceptor_roles": ac_set, "proposal": prop,
                                          "abstract_syntax_supported": same_abs}, **b)
                        break
                if bad:
                    break
            if bad:
                break
        if bad:
            break
    if not bad:
        # two supported contexts: the first proposed with a role proposal, the second without one (and vice versa)
        for prop in R.RQ_PROPOSALS[1:]:
            for ac1 in R.AC_SETTINGS:
                for ac2 in ((True, True), (False, True), (True, False), (None, None)):
                    for order in (0, 1):
                        proposed = [cx(1, ABS[0], [TS[0]]), cx(3, ABS[1], [TS[0]])]
                        if order:
                            proposed = [cx(1, ABS[1], [TS[0]]), cx(3, ABS[0], [TS[0]])]
                        supported = [cx(None, ABS[0], [TS[0]], *ac1), cx(None, ABS[1], [TS[0]], *ac2)]
                        n += 1
                        b = check(proposed, supported, {ABS[0]: prop})
                        if b:
                            bad = dict(input={"proposed (id, abstract)": [(c.context_id, str(c.abstract_syntax)) for c in proposed],
                                              "role proposal": {ABS[0]: prop}, "acceptor roles": {ABS[0]: ac1, ABS[1]: ac2}}, **b)
                            break
                    if bad:
                        break
                if bad:
                    break
            if bad:
                break
    if not bad:
        for k in (0, 1, 2):
            b = check([cx(2 * i + 1, ABS[i % 3], [TS[i % 3]]) for i in range(k)], [], {})
            if b:
                bad = dict(input=f"{k} proposed, nothing supported", **b)
    # table
    if not bad:
        for rq in R.RQ_PROPOSALS:
            for ac in R.AC_SETTINGS:
                if SCP_SCU_ROLES[rq][ac] != R.outcome(rq, ac):
                    bad = dict(input={"table cell": [rq, ac]}, observed=SCP_SCU_ROLES[rq][ac], expected=R.outcome(rq, ac))
    if bad:
        done(True, **bad)
    done(False, note=f"real negotiate_as_acceptor agrees with the specification on {n} configurations")


main()

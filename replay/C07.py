"""Replay for C07: a REAL pynetdicom acceptor (C-FIND / C-GET SCP whose handler yields slowly) and a REAL requestor on 127.0.0.1;
the requestor asks for release at a chosen arrival point (idle, or while the handler is still producing results) and must get
A-RELEASE-RP: both sides end released, nobody times out or aborts."""
import socket
import threading
import time

from common import load, done

from pydicom.dataset import Dataset
from pynetdicom import AE, evt, debug_logger  # noqa: F401
from pynetdicom.sop_class import PatientRootQueryRetrieveInformationModelFind as FIND

rec = load()


def free_port():
    s = socket.socket()
    s.bind(("127.0.0.1", 0))
    p = s.getsockname()[1]
    s.close()
    return p


def scenario(arrival):
    """arrival: 'idle' | 'during-handler'"""
    port = free_port()
    log = {"scp_released": 0, "scp_aborted": 0, "rp_sent": 0}

    def handle_find(event):
        for i in range(6):
            time.sleep(0.25)
            ds = Dataset()
            ds.QueryRetrieveLevel = "PATIENT"
            ds.PatientID = str(i)
            yield 0xFF00, ds

    def on_pdu(event):
        if type(event.pdu).__name__ == "A_RELEASE_RP":
            log["rp_sent"] += 1
    handlers = [(evt.EVT_C_FIND, handle_find), (evt.EVT_RELEASED, lambda e: log.__setitem__("scp_released", log["scp_released"] + 1)),
                (evt.EVT_ABORTED, lambda e: log.__setitem__("scp_aborted", log["scp_aborted"] + 1)), (evt.EVT_PDU_SENT, on_pdu)]
    scp = AE()
    scp.add_supported_context(FIND)
    srv = scp.start_server(("127.0.0.1", port), block=False, evt_handlers=handlers)
    try:
        scu = AE()
        scu.acse_timeout = 3
        scu.dimse_timeout = 5
        scu.add_requested_context(FIND)
        assoc = scu.associate("127.0.0.1", port)
        if not assoc.is_established:
            return None
        t0 = time.time()
        if arrival == "during-handler":
            q = Dataset()
            q.QueryRetrieveLevel = "PATIENT"
            q.PatientID = "*"
            responses = assoc.send_c_find(q, FIND)
            next(responses)                      # the first Pending response: the handler is now between yields
            assoc.release()                      # A-RELEASE-RQ arrives while the handler still produces results
        else:
            assoc.release()
        dt = time.time() - t0
        time.sleep(0.5)
        ok = assoc.is_released and not assoc.is_aborted and log["rp_sent"] == 1 and log["scp_released"] == 1 and log["scp_aborted"] == 0
        if not ok:
            return dict(input={"release request arrives": arrival}, observed={"requestor released": assoc.is_released,
                        "requestor aborted": assoc.is_aborted, "seconds": round(dt, 1), "acceptor": log},
                        expected="A-RELEASE-RP sent once, both sides released, nobody aborted")
        return None
    finally:
        srv.shutdown()


bad = None
for arrival in ("idle", "during-handler"):
    bad = scenario(arrival)
    if bad:
        break
if bad:
    done(True, **bad)
done(False, note="the release request was answered at both arrival points")

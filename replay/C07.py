"""Replay for C07: a REAL pynetdicom acceptor (C-FIND / C-GET SCP whose handler yields slowly) and a REAL requestor on 127.0.0.1;
the requestor asks for release at a chosen arrival point (idle, or while the handler is still producing results) and must get
A-RELEASE-RP: both sides end released, nobody times out or aborts."""
import socket
import threading
import time

from common import load, done

from pydicom.dataset import Dataset
from pynetdicom import AE, evt, debug_logger  # noqa: F401
from pynetdicom.sop_class import PatientRootQueryRetrieveInformationModelFind as FIND

rec = load()


def free_port():
    s = socket.socket()
    s.bind(("127.0.0.1", 0))
    p = s.getsockname()[1]
    s.close()
    return p


def scenario(arrival):
    """arrival: 'idle' | 'during-handler'"""
    port = free_port()
    log = {"scp_released": 0, "scp_aborted": 0, "rp_sent": 0}

    def handle_find(event):
        for i in range(6):
            time.sleep(0.25)
            ds = Dataset()
            ds.QueryRetrieveLevel = "PATIENT"
            ds.PatientID = str(i)
            yield 0xFF00, ds

    def on_pdu(event):
        if type(event.pdu).__name__ == "A_RELEASE_RP":
            log["rp_sent"] += 1
    handlers = [(evt.EVT_C_FIND, handle_find), (evt.EVT_RELEASED, lambda e: log.__setitem__("scp_released", log["scp_released"] + 1)),
                (evt.EVT_ABORTED, lambda e: log.__setitem__("scp_aborted", log["scp_aborted"] + 1)), (evt.EVT_PDU_SENT, on_pdu)]
    scp = AE()
    scp.add_supported_context(FIND)
    srv = scp.start_server(("127.0.0.1", port), block=False, evt_handlers=handlers)
    try:
        scu = AE()
        scu.acse_timeout = 3
        scu.dimse_timeout = 5
        scu.add_requested_context(FIND)
        assoc = scu.associate("127.0.0.1", port)
        if not assoc.is_established:
            return None
        t0 = time.time()
        if arrival == "during-handler":
            q = Dataset()
            q.QueryRetrieveLevel = "PATIENT"
            q.PatientID = "*"
            responses = assoc.send_c_find(q, FIND)
            next(responses)                      # the first Pending response: the handler is now between yields
            assoc.release()                      # A-RELEASE-RQ arrives while the handler still produces results
        else:
            assoc.release()
        dt = time.time() - t0
        time.sleep(0.5)
        ok = assoc.is_released and not assoc.is_aborted and log["rp_sent"] == 1 and log["scp_released"] == 1 and log["scp_aborted"] == 0
        if not ok:
            return dict(input={"release request arrives": arrival}, observed={"requestor released": assoc.is_released,
                        "requestor aborted": assoc.is_aborted, "seconds": round(dt, 1), "acceptor": log},
                        expected="A-RELEASE-RP sent once, both sides released, nobody aborted")
        return None
    finally:
        srv.shutdown()


def negotiate_release_check():
    """native: the REAL ACSE.negotiate_release with a scripted provider (what receive_pdu returns, in order) and a stub association;
    what is sent, which flags are set, which terminal event is notified, whether the association is killed"""
    import types
    from pynetdicom.acse import ACSE
    from pynetdicom.pdu_primitives import A_RELEASE, A_ABORT, A_P_ABORT

    def rel(result):
        r = A_RELEASE()
        if result:
            r.result = "affirmative"
        return r
    cases = [
        ("response", True, [rel(True)], ["rq"], "released"), ("response", False, [rel(True)], ["rq"], "released"),
        ("collision then response, requestor", True, [rel(False), rel(True)], ["rq", "rp"], "released"),
        ("collision then response, acceptor", False, [rel(False), rel(True)], ["rq", "rp"], "released"),
        ("peer aborts", True, [A_ABORT()], ["rq"], "aborted"), ("provider aborts", False, [A_P_ABORT()], ["rq"], "aborted"),
        ("nothing within the ACSE timeout", True, [None], ["rq", "abort:2"], "aborted"),
        ("collision then nothing, acceptor", False, [rel(False), None], ["rq", "abort:2"], "aborted"),
    ]
    for desc, is_requestor, script, want_sent, want_end in cases:
        sent, waits, evs, killed = [], [], [], []
        script = list(script)

        def receive_pdu(wait=False, timeout=None):
            waits.append((wait, timeout))
            return script.pop(0) if script else None

        def send_pdu(p):
            n = type(p).__name__
            sent.append("rq" if n == "A_RELEASE" and p.result is None else "rp" if n == "A_RELEASE" else f"abort:{p.abort_source}")
        assoc = types.SimpleNamespace(is_requestor=is_requestor, is_acceptor=not is_requestor, is_released=False, is_aborted=False,
                                      is_established=True, _sent_release=False, acse_timeout=7,
                                      dul=types.SimpleNamespace(receive_pdu=receive_pdu, send_pdu=send_pdu),
                                      kill=lambda: killed.append(1), get_handlers=lambda ev: [])
        acse = ACSE(assoc)
        import pynetdicom.acse as acse_mod
        orig = acse_mod.evt.trigger
        acse_mod.evt.trigger = lambda a, ev, attrs=None: evs.append(ev.name)
        try:
            err = None
            try:
                acse.negotiate_release()
            except Exception as e:
                err = repr(e)
        finally:
            acse_mod.evt.trigger = orig
        end = "released" if assoc.is_released and not assoc.is_aborted else "aborted" if assoc.is_aborted and not assoc.is_released else "neither/both"
        terminal = [e for e in evs if e in ("EVT_RELEASED", "EVT_ABORTED")]
        got = dict(sent=sent, end=end, established=assoc.is_established, terminal_events=terminal, killed=len(killed),
                   waits=waits, exception=err)
        want = dict(sent=want_sent, end=want_end, established=False, terminal_events=["EVT_RELEASED" if want_end == "released" else "EVT_ABORTED"],
                    killed=1, waits=None, exception=None)
        want["waits"] = [(True, 7)] * len(got["waits"]) if all(w == (True, 7) for w in got["waits"]) else "every wait is receive_pdu(wait=True, timeout=acse_timeout)"
        if got != want:
            return dict(input={"scenario": desc, "local side is requestor": is_requestor}, observed=got, expected=want)
    return None


if "negotiate_release" in rec.get("id", "") or rec.get("id", "").endswith("cross-check"):
    _bad = negotiate_release_check()
    if _bad:
        done(True, **_bad)
    if "negotiate_release" in rec.get("id", ""):
        done(False, note="the real negotiate_release behaved as the contract says on the scripted providers")
bad = None
for arrival in ("idle", "during-handler"):
    bad = scenario(arrival)
    if bad:
        break
if bad:
    done(True, **bad)
done(False, note="the release request was answered at both arrival points")

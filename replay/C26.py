"""Replay for C26: the REAL events.trigger with stub associations and handlers that are functions, callable objects and
functools.partial objects, raising or not."""
import functools
import sys
import types

from common import load, done

from pynetdicom import evt
from pynetdicom.events import trigger


class CallableObj:
    def __init__(self, raises, log):
        self.raises, self.log = raises, log

    def __call__(self, event, *args):
        self.log.append("obj")
        if self.raises:
            raise ValueError("handler failed")


def mk(kind, raises, log):
    def fn(event, *args):
        log.append("fn")
        if raises:
            raise ValueError("handler failed")
    if kind == "function":
        return fn
    if kind == "partial":
        return functools.partial(fn)
    return CallableObj(raises, log)


bad = None
for kinds in [(k,) for k in ("function", "object", "partial")] + [("function", "object"), ("object", "function"), ("partial", "partial")]:
    for raising in ([False] * len(kinds), [True] + [False] * (len(kinds) - 1), [False] * (len(kinds) - 1) + [True]):
        log = []
        hs = [(mk(k, r, log), None) for k, r in zip(kinds, raising)]
        state = {}
        assoc = types.SimpleNamespace(get_handlers=lambda e: hs, _abort_nonblocking="nonblocking", _abort_blocking="blocking", abort="blocking")
        try:
            r = trigger(assoc, evt.EVT_PDU_RECV, {"pdu": None})
            err = None
        except Exception as e:
            r, err = None, e
        if err is not None or r is not None or assoc.abort != "blocking":
            bad = dict(input={"handlers": list(zip(kinds, raising)), "event": "EVT_PDU_RECV (notification)"},
                       observed={"exception": repr(err), "returned": r, "assoc.abort": assoc.abort},
                       expected="returns None, raises nothing, assoc.abort restored to the blocking variant")
            break
    if bad:
        break
if bad:
    done(True, **bad)
done(False, note="notification handlers of every kind and behaviour are contained by trigger()")

"""Replay for C03: the REAL AssociationSocket.recv and DULServiceProvider._read_pdu_data against a
scripted socket that splits the peer's byte stream adversarially / closes at a chosen offset."""
import itertools
import queue
import random
import struct
import sys
import types

from common import load, done

from pynetdicom.transport import AssociationSocket
from pynetdicom.dul import DULServiceProvider
from pynetdicom import evt


class FakeSock:
    """socket.socket stand-in: recv(k) returns the next min(k, chunk) bytes; b'' at EOF."""

    def __init__(self, stream, chunks, fail_at=None, delay=0.0):
        self.delay = delay
        self.stream, self.pos = bytes(stream), 0
        self.chunks = itertools.cycle(chunks) if chunks else itertools.repeat(1 << 30)
        self.calls = []
        self.fail_at = fail_at

    def recv(self, k):
        self.calls.append(k)
        if k < 0:
            raise ValueError("negative buffersize in recv")
        if self.fail_at is not None and self.pos >= self.fail_at:
            raise OSError("connection reset")
        if k == 0:
            return b""
        if self.delay and self.pos < len(self.stream):
            import time
            time.sleep(self.delay)        # a gap between segments, shorter than the network timeout
        j = max(1, min(k, next(self.chunks)))
        out = self.stream[self.pos:self.pos + j]
        self.pos += len(out)
        return out


NETWORK_TIMEOUT = 0.2


def real_recv(sock, n):
    assoc = types.SimpleNamespace(network_timeout=NETWORK_TIMEOUT, acse_timeout=30, dimse_timeout=30)
    holder = types.SimpleNamespace(socket=sock, assoc=assoc, _assoc=assoc)
    return AssociationSocket.recv(holder, n)


def check_recv(stream, pos0, n, chunks, delay=0.0):
    sock = FakeSock(stream, chunks, delay=delay)
    sock.pos = pos0
    try:
        got = bytes(real_recv(sock, n))
    except Exception as e:
        return {"input": {"stream": list(stream), "pos0": pos0, "nr_bytes": n, "chunks": list(chunks)[:8]},
                "observed": f"exception {e!r}", "expected": "no exception (socket.recv did not raise)"}
    want = stream[pos0:pos0 + n]
    if got != want or sock.pos != pos0 + len(want):
        return {"input": {"stream": list(stream), "pos0": pos0, "nr_bytes": n, "chunks": list(chunks)[:8]},
                "observed": {"returned": list(got), "cursor": sock.pos},
                "expected": {"returned": list(want), "cursor": pos0 + len(want)}}
    return None


KNOWN = {1: "Evt6", 2: "Evt3", 3: "Evt4", 4: "Evt10", 5: "Evt12", 6: "Evt13", 7: "Evt16"}


def expected_events(stream):
    """independent framing of the stream: list of (event, pdu_bytes|None) until EOF"""
    out, pos = [], 0
    while True:
        hdr = stream[pos:pos + 6]
        if len(hdr) < 6:
            out.append(("Evt17", None))
            return out
        t, _, ln = struct.unpack(">BBL", hdr)
        if t not in KNOWN:
            out.append(("Evt19", None))
            pos += 6
            continue
        body = stream[pos + 6:pos + 6 + ln]
        if len(body) < ln:
            out.append(("Evt17", None))
            return out
        out.append((KNOWN[t], stream[pos:pos + 6 + ln]))
        pos += 6 + ln


def run_dul(stream, chunks, max_reads=12):
    dul = DULServiceProvider.__new__(DULServiceProvider)
    sock = FakeSock(stream, chunks)
    dul.socket = types.SimpleNamespace(socket=sock)
    dul.socket.recv = lambda n: AssociationSocket.recv(dul.socket, n)
    dul.event_queue = queue.Queue()
    dul._recv_pdu = queue.Queue()
    dul._assoc = types.SimpleNamespace(get_handlers=lambda e: [])
    decoded = []
    real_decode = DULServiceProvider._decode_pdu

    def spy(self_, b):
        decoded.append(bytes(b))
        return real_decode(self_, b)
    dul._decode_pdu = lambda b: spy(dul, b)
    got = []
    for _ in range(max_reads):
        n0 = len(decoded)
        try:
            DULServiceProvider._read_pdu_data(dul)
        except Exception as e:
            got.append((f"exception {e!r}", None))
            break
        ev = dul.event_queue.get(False)
        got.append((ev, decoded[-1] if len(decoded) > n0 else None))
        if ev == "Evt17":
            break
    return got


A_RELEASE_RQ = bytes.fromhex("050000000004" + "00000000")
A_RELEASE_RP = bytes.fromhex("060000000004" + "00000000")
A_ABORT = bytes.fromhex("070000000004" + "00000200")
P_DATA = bytes.fromhex("04000000000c" + "00000008" + "0103" + "010203040506")
A_RJ = bytes.fromhex("030000000004" + "00010101")


def check_dul(stream, chunks):
    want = expected_events(stream)
    got = run_dul(stream, chunks, max_reads=len(want) + 2)
    # a PDU event whose bytes fail to decode is legitimately Evt19; otherwise events and decoded bytes must agree
    ok = len(got) == len(want)
    if ok:
        for (ge, gb), (we, wb) in zip(got, want):
            if ge == we and gb == wb:
                continue
            if we in KNOWN.values() and ge == "Evt19" and gb == wb:
                continue     # decode failure of exactly the framed bytes
            ok = False
    if not ok:
        return {"input": {"stream": stream.hex(), "chunks": list(chunks)[:8]},
                "observed": [(e, b.hex() if b else None) for e, b in got],
                "expected": [(e, b.hex() if b else None) for e, b in want]}
    return None


def main():
    rec = load()
    oid = rec["id"]
    model = rec.get("model") or {}
    rnd = random.Random(1234)
    chunkings = [[1], [2], [3], [5], [4096], [1, 7, 2], [6, 1], [3, 3, 1000]] + \
        [[rnd.randint(1, 9) for _ in range(6)] for _ in range(20)]
    bad = None
    if ":AssociationSocket.recv" in oid:
        streams = []
        if isinstance(model.get("stream"), dict):
            streams.append((bytes(model["stream"]["bytes"]), int(model.get("pos0", 0)), int(model.get("nr_bytes", 4))))
        for ln in range(0, 12):
            for n in range(0, 10):
                streams.append((bytes(range(1, ln + 1)), 0, n))
                if ln > 2:
                    streams.append((bytes(range(1, ln + 1)), 2, n))
        big = bytes(i % 251 for i in range(10000))
        streams += [(big, 0, 9000), (big, 5, 4096), (big, 0, 4097), (big, 100, 20000)]
        for st, p0, n in streams:
            for ch in chunkings:
                bad = check_recv(st, min(p0, len(st)), n, ch)
                if bad:
                    break
            if bad:
                break
        if not bad:
            # segments separated by gaps below the network timeout whose SUM exceeds it
            bad = check_recv(bytes(range(1, 9)), 0, 8, [1], delay=NETWORK_TIMEOUT * 0.4)
            if bad:
                bad["input"]["inter_chunk_delay_s"] = NETWORK_TIMEOUT * 0.4
                bad["input"]["network_timeout_s"] = NETWORK_TIMEOUT
    else:
        seqs = [[A_RELEASE_RQ], [A_RELEASE_RQ, A_ABORT], [P_DATA, A_RELEASE_RQ, A_RELEASE_RP], [A_RJ, P_DATA, P_DATA],
                [b"\x09\x00\x00\x00\x00\x02", A_RELEASE_RQ], [b"\x00" * 6 + A_ABORT]]
        streams = []
        if isinstance(model.get("stream"), dict):
            b = bytes(model["stream"]["bytes"])
            streams.append(b[int(model.get("pos0", 0)):])
        for sq in seqs:
            full = b"".join(sq)
            streams.append(full)
            for cut in range(0, len(full)):
                streams.append(full[:cut])
        for st in streams:
            for ch in chunkings[:12]:
                bad = check_dul(st, ch)
                if bad:
                    break
            if bad:
                break
    if bad:
        done(True, **bad)
    done(False, note="real code frames every replay stream correctly under every chunking tried")


main()

"""Replay / bounded stand-in for C17: REAL primitives -> REAL primitive_to_message -> REAL encode_msg (pydicom command-set encoding)
-> REAL decode_msg -> REAL message_to_primitive, for all 23 message types x every subset of the optional parameters x boundary
values.  This is also the bounded check of the ASSUMED pydicom command-set codec (labelled bounded, never counted as proved)."""
import itertools
from io import BytesIO

from common import load, done

from pynetdicom import dimse_messages as DM
from pynetdicom.dimse_primitives import (C_ECHO, C_STORE, C_FIND, C_GET, C_MOVE, C_CANCEL, N_EVENT_REPORT, N_GET, N_SET, N_ACTION,
                                        N_CREATE, N_DELETE)

rec = load()
UID1, UID2 = "1.2.840.10008.5.1.4.1.1.2", "1.2.3.4.5.6.7"
VALUES = {
    "AffectedSOPClassUID": [UID1], "RequestedSOPClassUID": [UID1], "AffectedSOPInstanceUID": [UID2], "RequestedSOPInstanceUID": [UID2],
    "MessageID": [0, 1, 65535], "MessageIDBeingRespondedTo": [0, 7, 65535], "Priority": [0, 1, 2], "Status": [0x0000, 0xFF00, 0xC000, 0xFFFF],
    "MoveOriginatorApplicationEntityTitle": ["ORIGIN", "A" * 16], "MoveOriginatorMessageID": [0, 65535], "MoveDestination": ["DEST"],
    "NumberOfRemainingSuboperations": [0, 65535], "NumberOfCompletedSuboperations": [0, 3], "NumberOfFailedSuboperations": [0, 2],
    "NumberOfWarningSuboperations": [0, 1], "ErrorComment": ["some comment"], "ErrorID": [0, 65535],
    "OffendingElement": [[0x00100010], [0x00100010, 0x00100020], [0x00000000]],
    "AttributeIdentifierList": [[0x00100010], [0x00100010, 0x00100020], [0x00000000], [0x00000000, 0x7FE00010]],
    "EventTypeID": [0, 65535], "ActionTypeID": [0, 65535],
}
PRIM = {"C_ECHO": C_ECHO, "C_STORE": C_STORE, "C_FIND": C_FIND, "C_GET": C_GET, "C_MOVE": C_MOVE, "C_CANCEL": C_CANCEL,
        "N_EVENT_REPORT": N_EVENT_REPORT, "N_GET": N_GET, "N_SET": N_SET, "N_ACTION": N_ACTION, "N_CREATE": N_CREATE, "N_DELETE": N_DELETE}
MESSAGE_LEVEL = ("CommandGroupLength", "CommandField", "CommandDataSetType")


def norm(v):
    """multi-valued attributes: a single tag and a one-element list denote the same value"""
    if isinstance(v, (list, tuple)) or type(v).__name__ == "MultiValue":
        v = [int(x) for x in v]
        return v[0] if len(v) == 1 else v
    if hasattr(v, "real") and not isinstance(v, bool) and type(v).__name__ == "BaseTag":
        return int(v)
    return v


def round_trip(msg_name, params, data, at_end=False):
    cls_name = msg_name.replace("-", "_")
    prim_name = cls_name[:cls_name.rfind("_R")]
    p = PRIM[prim_name]()
    for k, v in params.items():
        setattr(p, k, v)
    ds_kw = DM._DATASET_KEYWORDS.get(cls_name)
    if ds_kw and data is not None:
        bio = BytesIO(data)
        if at_end:
            bio.seek(0, 2)            # e.g. a stream the application filled with write(), or has already read
        setattr(p, ds_kw, bio)
    msg = getattr(DM, cls_name)()
    msg.primitive_to_message(p)
    # (0000,0000): the number of bytes of the command set that follow the group length element (PS3.7 6.3.1) - as the peer's
    # own parser will see them: every element after the first 12 bytes (tag 4 + length 4 + UL value 4) of the encoded command set
    from pynetdicom.dsutils import encode as _enc
    wire = _enc(msg.command_set, True, True)
    announced = msg.command_set.get("CommandGroupLength")
    if wire is None or wire[:4] != b"\x00\x00\x00\x00" or announced != len(wire) - 12:
        return f"Command Group Length announces {announced!r} bytes, {None if wire is None else len(wire) - 12} follow it"
    rx = DM.DIMSEMessage()
    done_ = False
    for pdata in msg.encode_msg(1, 64):
        done_ = rx.decode_msg(pdata)
    if not done_:
        return f"the receiver did not complete the message"
    q = rx.message_to_primitive()
    if type(q) is not type(p):
        return f"type changed: {type(p).__name__} -> {type(q).__name__}"
    if rx.command_set.CommandField != msg.command_set.CommandField:
        return "command field changed"
    for k in DM._COMMAND_SET_KEYWORDS[msg_name]:
        if k in MESSAGE_LEVEL:
            continue
        a, b = norm(getattr(p, k)), norm(getattr(q, k))
        if a != b:
            return f"parameter {k}: sent {a!r}, received {b!r}"
    if ds_kw:
        a = getattr(p, ds_kw)
        b = getattr(q, ds_kw)
        av = a.getvalue() if a is not None else b""
        bv = b.getvalue() if b is not None else b""
        if av != bv:
            return f"data set bytes changed: {len(av)} -> {len(bv)}"
    return None


bad = None
n = 0
for msg_name in sorted(DM._COMMAND_SET_KEYWORDS):
    kws = [k for k in DM._COMMAND_SET_KEYWORDS[msg_name] if k not in MESSAGE_LEVEL]
    mandatory = [k for k in kws if k in ("MessageID", "MessageIDBeingRespondedTo")]
    optional = [k for k in kws if k not in mandatory]
    for r in range(len(optional) + 1):
        for subset in itertools.combinations(optional, r):
            present = mandatory + list(subset)
            # boundary values: the i-th candidate of every present parameter, for i up to the longest candidate list
            width = max([len(VALUES[k]) for k in present] + [1])
            for i in range(width):
                params = {k: VALUES[k][min(i, len(VALUES[k]) - 1)] for k in present}
                _ds = b"\x08\x00\x18\x00\x04\x00\x00\x001.2\x00"
                for data, at_end in ((None, False), (_ds, False), (_ds, True)):
                    n += 1
                    try:
                        why = round_trip(msg_name, params, data, at_end)
                    except Exception as e:
                        why = f"exception {type(e).__name__}: {e}"
                    if why:
                        bad = dict(input={"message": msg_name, "parameters": {k: repr(v) for k, v in params.items()}, "data set": None if data is None else f"{len(data)} bytes, stream position at the {'end' if at_end else 'start'}"},
                                   observed=why, expected="the same type, direction, parameters and data-set bytes after the round trip")
                        break
                if bad:
                    break
            if bad:
                break
        if bad:
            break
    if bad:
        break
if bad:
    done(True, **bad)
done(False, note=f"{n} primitive -> message -> bytes -> message -> primitive round trips agree (bounded: 23 message types x parameter subsets x boundary values)")

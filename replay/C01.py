"""Replay / CPython cross-check for C01: REAL encode/decode of every PDU and item class on concrete
well-formed values (boundary lengths, empty optional fields) against the PS3.8 reference encoder."""
import itertools
import sys

from common import load, done
from spec import ps38_layout as L

from pynetdicom import pdu, pdu_items as it


def uid(n):
    s = "1.2." + "3" * max(0, n - 4)
    return s[:n] if n >= 1 else ""


def items():
    out = []
    for n in (1, 10, 64):
        for cls, attr in ((it.ApplicationContextItem, "application_context_name"), (it.AbstractSyntaxSubItem, "abstract_syntax_name"),
                          (it.TransferSyntaxSubItem, "transfer_syntax_name"), (it.ImplementationClassUIDSubItem, "implementation_class_uid")):
            o = cls()
            setattr(o, attr, uid(n))
            out.append(o)
    for n in (1, 16):
        o = it.ImplementationVersionNameSubItem()
        o.implementation_version_name = "V" * n
        out.append(o)
    for v in (0, 1, 16382, 2 ** 32 - 1):
        o = it.MaximumLengthSubItem()
        o.maximum_length_received = v
        out.append(o)
    for a, b in ((0, 0), (1, 65535), (65535, 1)):
        o = it.AsynchronousOperationsWindowSubItem()
        o.maximum_number_operations_invoked, o.maximum_number_operations_performed = a, b
        out.append(o)
    for n, su, sp in ((1, 0, 0), (20, 1, 0), (64, 0, 1), (30, 1, 1)):
        o = it.SCP_SCU_RoleSelectionSubItem()
        o.sop_class_uid, o.scu_role, o.scp_role = uid(n), su, sp
        out.append(o)
    for n, info in ((1, b""), (20, b"\x01"), (64, b"\x00" * 300)):
        o = it.SOPClassExtendedNegotiationSubItem()
        o.sop_class_uid, o.service_class_application_information = uid(n), info
        out.append(o)
    for rel in ([], [uid(1)], [uid(10), uid(64)]):
        o = it.SOPClassCommonExtendedNegotiationSubItem()
        o.sop_class_uid, o.service_class_uid = uid(12), uid(9)
        o.related_general_sop_class_identification = rel
        out.append(o)
    for t, r, p, s in ((1, 0, b"user", b""), (2, 1, b"user", b"pw"), (2, 0, b"", b"pw"), (3, 1, b"\x00" * 1000, b""), (4, 0, b"", b""),
                       (2, 1, b"u", b"\x00\x02pw")):
        o = it.UserIdentitySubItemRQ()
        o.user_identity_type, o.positive_response_requested, o.primary_field, o.secondary_field = t, r, p, s
        out.append(o)
    for rsp in (b"", b"x", b"\x00" * 500):
        o = it.UserIdentitySubItemAC()
        o.server_response = rsp
        out.append(o)
    for cid, data in ((1, b"\x03"), (255, b"\x02" + b"\xff" * 2000)):
        o = it.PresentationDataValueItem()
        o.presentation_context_id, o.presentation_data_value = cid, data
        out.append(o)
    return out


def pc_rq(cid, nts):
    o = it.PresentationContextItemRQ()
    o.presentation_context_id = cid
    a = it.AbstractSyntaxSubItem()
    a.abstract_syntax_name = uid(20)
    subs = [a]
    for i in range(nts):
        t = it.TransferSyntaxSubItem()
        t.transfer_syntax_name = uid(10 + i)
        subs.append(t)
    o.abstract_transfer_syntax_sub_items = subs
    return o


def pc_ac(cid, res, nts):
    o = it.PresentationContextItemAC()
    o.presentation_context_id, o.result_reason = cid, res
    subs = []
    for i in range(nts):
        t = it.TransferSyntaxSubItem()
        t.transfer_syntax_name = uid(17)
        subs.append(t)
    o.transfer_syntax_sub_item = subs
    return o


def user_info(extra):
    ui = it.UserInformationItem()
    m = it.MaximumLengthSubItem()
    m.maximum_length_received = 16382
    c = it.ImplementationClassUIDSubItem()
    c.implementation_class_uid = uid(25)
    ui.user_data = [m, c] + extra
    return ui


def containers(leafs):
    out = [pc_rq(1, 0), pc_rq(3, 1), pc_rq(255, 3), pc_ac(1, 0, 1), pc_ac(5, 3, 0), pc_ac(7, 4, 1)]
    out.append(user_info([]))
    for lf in leafs:
        if type(lf).__name__ in ("ImplementationVersionNameSubItem", "AsynchronousOperationsWindowSubItem", "SCP_SCU_RoleSelectionSubItem",
                                 "SOPClassExtendedNegotiationSubItem", "SOPClassCommonExtendedNegotiationSubItem", "UserIdentitySubItemRQ",
                                 "UserIdentitySubItemAC"):
            out.append(user_info([lf]))
    e = it.UserInformationItem()
    e.user_data = []
    out.append(e)
    return out


def pdus(leafs):
    out = []
    for npc in (0, 1, 3):
        rq = pdu.A_ASSOCIATE_RQ()
        rq.called_ae_title, rq.calling_ae_title = "A", "CALLING_AE_16CHR"
        rq.variable_items = [it.ApplicationContextItem()] + [pc_rq(2 * i + 1, 2) for i in range(npc)] + [user_info([])]
        out.append(rq)
        ac = pdu.A_ASSOCIATE_AC()
        ac._reserved_aet, ac._reserved_aec = "CALLED", "X Y"
        ac.variable_items = [it.ApplicationContextItem()] + [pc_ac(2 * i + 1, 0, 1) for i in range(npc)] + [user_info([])]
        out.append(ac)
    for r, s, d in ((1, 1, 1), (2, 3, 2), (1, 2, 2), (1, 1, 7)):
        o = pdu.A_ASSOCIATE_RJ()
        o.result, o.source, o.reason_diagnostic = r, s, d
        out.append(o)
    for s, d in ((0, 0), (2, 0), (2, 6)):
        o = pdu.A_ABORT_RQ()
        o.source, o.reason_diagnostic = s, d
        out.append(o)
    out += [pdu.A_RELEASE_RQ(), pdu.A_RELEASE_RP()]
    for n in (0, 1, 3):
        o = pdu.P_DATA_TF()
        pd = []
        for i in range(n):
            x = it.PresentationDataValueItem()
            x.presentation_context_id, x.presentation_data_value = 2 * i + 1, bytes([i % 4]) + b"\xab" * (i * 100)
            pd.append(x)
        o.presentation_data_value_items = pd
        out.append(o)
    return out


def check(obj):
    name = type(obj).__name__
    try:
        enc = obj.encode()
    except Exception as e:
        return dict(input=f"{name}: {vars(obj)!r}"[:400], observed=f"encode raised {e!r}", expected="bytes")
    want = L.ref_encode(obj)
    if enc != want:
        return dict(input=f"{name}: {vars(obj)!r}"[:400], observed=enc.hex()[:200], expected=want.hex()[:200])
    hdr = 6 if name in L.PDU else 4
    lf = obj.pdu_length if name in L.PDU else obj.item_length
    if len(obj) != len(enc) or lf + hdr != len(enc):
        return dict(input=f"{name}: {vars(obj)!r}"[:400], observed=f"len()={len(obj)} length field={lf} encoded={len(enc)}",
                    expected="len() == header + length field == encoded size")
    new = type(obj)()
    try:
        new.decode(enc)
    except Exception as e:
        return dict(input=f"{name}: {vars(obj)!r}"[:400], observed=f"decode raised {e!r}", expected="decode accepts its own encoding")
    if new != obj:
        diff = {k: (getattr(obj, k), getattr(new, k)) for k in L.named_fields(L.layout_of(obj)) if getattr(obj, k) != getattr(new, k)}
        return dict(input=f"{name}: {vars(obj)!r}"[:400], observed=f"decode(encode(v)) differs: {diff!r}"[:400], expected="equal value")
    return None


def prim_checks():
    """primitive -> PDU -> bytes -> PDU -> primitive on concrete well-formed primitives; returns first mismatch"""
    from pynetdicom import pdu_primitives as pp
    from pynetdicom.presentation import PresentationContext
    # P-DATA
    for n in (0, 1, 2, 3):
        p = pp.P_DATA()
        p.presentation_data_value_list = [[2 * i + 1, bytes([i % 4]) + bytes([65 + i]) * (3 + i)] for i in range(n)]
        want = [(a, b) for a, b in p.presentation_data_value_list]
        x = pdu.P_DATA_TF(p)
        ref = b"\x04\x00" + sum(4 + 1 + len(b) for _a, b in want).to_bytes(4, "big") + \
            b"".join((1 + len(b)).to_bytes(4, "big") + bytes([a]) + b for a, b in want)
        enc = x.encode()
        if enc != ref:
            return dict(input=f"P_DATA with {n} PDVs {want!r}", observed=enc.hex(), expected=ref.hex())
        y = pdu.P_DATA_TF()
        y.decode(enc)
        got = [(a, b) for a, b in y.to_primitive().presentation_data_value_list]
        if got != want:
            return dict(input=f"P_DATA with {n} PDVs", observed=repr(got), expected=repr(want))
    # aborts / reject / release
    for src in (0, 2):
        a = pp.A_ABORT()
        a.abort_source = src
        y = pdu.A_ABORT_RQ()
        y.decode(pdu.A_ABORT_RQ(a).encode())
        o = y.to_primitive()
        ok = (isinstance(o, pp.A_ABORT) and o.abort_source == src) if src == 0 else isinstance(o, pp.A_P_ABORT)
        if not ok:
            return dict(input=f"A_ABORT source {src}", observed=repr(vars(o)), expected="same source")
    for r in (0, 1, 2, 4, 5, 6):
        a = pp.A_P_ABORT()
        a.provider_reason = r
        y = pdu.A_ABORT_RQ()
        y.decode(pdu.A_ABORT_RQ(a).encode())
        o = y.to_primitive()
        if not (isinstance(o, pp.A_P_ABORT) and o.provider_reason == r):
            return dict(input=f"A_P_ABORT reason {r}", observed=repr(vars(o)), expected="same reason")
    for tr in ((1, 1, 1), (2, 1, 7), (1, 2, 2), (2, 3, 1)):
        a = pp.A_ASSOCIATE()
        a.result, a.result_source, a.diagnostic = tr
        y = pdu.A_ASSOCIATE_RJ()
        y.decode(pdu.A_ASSOCIATE_RJ(a).encode())
        o = y.to_primitive()
        if (o.result, o.result_source, o.diagnostic) != tr:
            return dict(input=f"A_ASSOCIATE reject {tr}", observed=(o.result, o.result_source, o.diagnostic), expected=tr)
    # associate request / accept
    def ui():
        m = pp.MaximumLengthNotification()
        m.maximum_length_received = 16382
        c = pp.ImplementationClassUIDNotification()
        c.implementation_class_uid = "1.2.3.4"
        v = pp.ImplementationVersionNameNotification()
        v.implementation_version_name = "VER_1"
        r1 = pp.SCP_SCU_RoleSelectionNegotiation()
        r1.sop_class_uid, r1.scu_role, r1.scp_role = "1.2.840.10008.5.1.4.1.1.2", True, False
        r2 = pp.SCP_SCU_RoleSelectionNegotiation()
        r2.sop_class_uid, r2.scu_role, r2.scp_role = "1.2.840.10008.5.1.4.1.1.4", False, True
        e = pp.SOPClassExtendedNegotiation()
        e.sop_class_uid, e.service_class_application_information = "1.2.3.9", b"\x01\x00\x02"
        ce = pp.SOPClassCommonExtendedNegotiation()
        ce.sop_class_uid, ce.service_class_uid = "1.2.3.10", "1.2.3.11"
        ce.related_general_sop_class_identification = ["1.2.3.12", "1.2.3.13"]
        u = pp.UserIdentityNegotiation()
        u.user_identity_type, u.primary_field, u.secondary_field, u.positive_response_requested = 2, b"user", b"pw", True
        aw = pp.AsynchronousOperationsWindowNegotiation()
        aw.maximum_number_operations_invoked, aw.maximum_number_operations_performed = 5, 0
        return [m, c, v, aw, r1, r2, e, ce, u]

    def sig(x):
        out = [type(x).__name__]
        for k in sorted(vars(x)):
            out.append((k, getattr(x, k)))
        return out
    # the application context name is a parameter like any other: the DICOM default and a private one (PS3.7 Annex A)
    for npc, app in ((0, "1.2.840.10008.3.1.1.1"), (1, "1.2.826.0.1.3680043.9.3811.7.1"), (3, "1.2.3.4")):
        a = pp.A_ASSOCIATE()
        a.calling_ae_title, a.called_ae_title = "CALLING", "CALLED AE"
        a.application_context_name = app
        cxs = []
        for i in range(npc):
            c = PresentationContext()
            c.context_id, c.abstract_syntax = 2 * i + 1, f"1.2.840.10008.5.1.4.1.1.{i + 1}"
            c.transfer_syntax = ["1.2.840.10008.1.2", "1.2.840.10008.1.2.1"][: 1 + i % 2]
            cxs.append(c)
        a.presentation_context_definition_list = cxs
        a.user_information = ui()
        y = pdu.A_ASSOCIATE_RQ()
        y.decode(pdu.A_ASSOCIATE_RQ(a).encode())
        o = y.to_primitive()
        got = (o.calling_ae_title, o.called_ae_title, str(o.application_context_name),
               [(c.context_id, str(c.abstract_syntax), [str(t) for t in c.transfer_syntax]) for c in o.presentation_context_definition_list],
               [sig(x) for x in o.user_information])
        want = (a.calling_ae_title, a.called_ae_title, str(a.application_context_name),
                [(c.context_id, str(c.abstract_syntax), [str(t) for t in c.transfer_syntax]) for c in cxs], [sig(x) for x in a.user_information])
        if got != want:
            return dict(input=f"A_ASSOCIATE request with {npc} contexts", observed=repr(got)[:600], expected=repr(want)[:600])
        b = pp.A_ASSOCIATE()
        b.calling_ae_title, b.called_ae_title = "CALLING", "CALLED AE"
        b.application_context_name = app
        res = []
        for i in range(npc):
            c = PresentationContext()
            c.context_id, c.result = 2 * i + 1, (0, 3, 4)[i % 3]
            c.transfer_syntax = ["1.2.840.10008.1.2"]
            res.append(c)
        b.presentation_context_definition_results_list = res
        uu = pp.UserIdentityNegotiation()
        uu.server_response = b"ticket"
        b.user_information = ui()[:3] + [uu]
        b.result = 0
        y = pdu.A_ASSOCIATE_AC()
        y.decode(pdu.A_ASSOCIATE_AC(b).encode())
        o = y.to_primitive()
        got = (str(o.application_context_name), [(c.context_id, c.result, [str(t) for t in c.transfer_syntax]) for c in o.presentation_context_definition_results_list],
               [sig(x) for x in o.user_information], o.result)
        want = (str(b.application_context_name), [(c.context_id, c.result, [str(t) for t in c.transfer_syntax]) for c in res],
                [sig(x) for x in b.user_information], 0)
        if got != want:
            return dict(input=f"A_ASSOCIATE accept with {npc} contexts", observed=repr(got)[:600], expected=repr(want)[:600])
    return None


def main():
    rec = load() if len(sys.argv) > 1 and sys.argv[1] != "--all" else {"id": "all"}
    oid = rec["id"]
    if "primitive:" in oid or oid == "all":
        b = prim_checks()
        if b:
            done(True, **b)
        if oid != "all":
            done(False, note="primitive -> PDU -> bytes -> primitive preserved every parameter on the replay primitives")
    leafs = items()
    objs = leafs + containers(leafs) + pdus(leafs)
    want_cls = None
    if oid != "all":
        want_cls = oid.split(":")[1].split("/")[0] if ":" in oid else None
    bad = None
    for o in objs:
        if want_cls and type(o).__name__ != want_cls:
            continue
        bad = check(o)
        if bad:
            break
    if bad is None and want_cls:
        for o in objs:          # the failing field may sit in a nested item
            bad = check(o)
            if bad:
                break
    if bad:
        done(True, **bad)
    done(False, note=f"real codec agrees with PS3.8 reference on {len(objs)} concrete values")


main()

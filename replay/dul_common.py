"""A real DULServiceProvider (real state machine, real DIMSE provider) over a scripted in-memory socket - shared by the
C02 / C05 / C27 replays."""
import queue
import types

from pynetdicom.transport import AssociationSocket
from pynetdicom.dul import DULServiceProvider
from pynetdicom.fsm import StateMachine
from pynetdicom.dimse import DIMSEServiceProvider


class FakeSock:
    def __init__(self, stream):
        self.stream, self.pos, self.sent, self.closed = bytes(stream), 0, [], False

    def recv(self, k):
        out = self.stream[self.pos:self.pos + k]
        self.pos += len(out)
        return out


def provider(stream, state, requestor=False):
    """a real DUL provider in FSM state `state`, its socket delivering `stream`"""
    dul = DULServiceProvider.__new__(DULServiceProvider)
    raw = FakeSock(stream)
    sock = types.SimpleNamespace(socket=raw, sent=[])
    sock.recv = lambda n: AssociationSocket.recv(sock, n)
    sock.send = lambda b: sock.sent.append(bytes(b))
    sock.close = lambda: setattr(raw, "closed", True)
    sock._shutdown_socket = lambda: setattr(raw, "closed", True)
    dul.socket = sock
    dul.event_queue = queue.Queue()
    dul._recv_pdu = queue.Queue()
    dul.to_provider_queue = queue.Queue()
    dul.to_user_queue = queue.Queue()
    dul._kill_thread = False
    dul._is_killed = False
    addr = types.SimpleNamespace(as_tuple=("127.0.0.1", 11112))
    assoc = types.SimpleNamespace(get_handlers=lambda e: [], is_requestor=requestor, is_acceptor=not requestor, dul=dul,
                                  acse_timeout=5, dimse_timeout=5, network_timeout=5, _kill=False, is_established=True,
                                  is_aborted=False, acceptor=types.SimpleNamespace(address_info=addr, maximum_length=16382),
                                  requestor=types.SimpleNamespace(address_info=addr, maximum_length=16382), _accepted_cx={},
                                  _serve_request=lambda *a: None)
    dul._assoc = assoc
    assoc.dimse = DIMSEServiceProvider(assoc)
    dul.artim_timer = types.SimpleNamespace(start=lambda: None, stop=lambda: None, restart=lambda: None, expired=False)
    dul._idle_timer = types.SimpleNamespace(restart=lambda: None)
    dul.state_machine = StateMachine(dul)
    dul.state_machine.current_state = state
    return dul




def reactor_check():
    """native: the REAL DULServiceProvider.run_reactor loop with scripted sources (what waits per iteration: a primitive, data
    from the peer, nothing; whether ARTIM has run out; what is in the event queue) - checks what the loop does per iteration:
    ARTIM -> Evt18, primitive before socket, idle timer restarted exactly on data, one action per iteration from the queue,
    and that an empty event queue does not block it.  Returns a dict describing the first disagreement, or None."""
    import threading

    for script in ([("prim", False), ("data", False), ("none", False), ("data", True), ("none", False), ("prim", True)],
                   [("none", False)] * 3 + [("data", False)] * 2,
                   [("none", True), ("data", False)]):
        log = []
        dul = DULServiceProvider.__new__(DULServiceProvider)
        step = {"i": -1, "asked": False}

        class Artim:
            @property
            def expired(self_):
                # asked at the top of each iteration: this starts scripted iteration i
                step["i"] += 1
                if step["i"] >= len(script):
                    dul._kill_thread = True           # the loop finishes this (unscripted) iteration and leaves
                    log.append(("end-of-script",))
                    return False
                log.append(("iteration", step["i"]))
                return script[step["i"]][1]
        dul.artim_timer = Artim()
        dul._idle_timer = types.SimpleNamespace(start=lambda: log.append(("idle.start",)), restart=lambda: log.append(("idle.restart",)),
                                                stop=lambda: log.append(("idle.stop",)))
        ready = threading.Event()
        dul._assoc = types.SimpleNamespace(_dul_ready=ready, is_aborted=False, is_established=True, _kill=False)
        dul.socket = types.SimpleNamespace(send=lambda b: log.append(("socket.send",)))
        dul.event_queue = queue.Queue()
        dul._kill_thread = False
        dul._run_loop_delay = 0.0

        def cur():
            return script[step["i"]][0] if 0 <= step["i"] < len(script) else "none"

        def prp():
            log.append(("process_primitive",))
            if cur() == "prim":
                dul.event_queue.put(f"EvtP{step['i']}")
                return True
            return False

        def ite():
            log.append(("transport_event",))
            if cur() == "data":
                dul.event_queue.put(f"EvtD{step['i']}")
                return True
            return False
        dul._process_recv_primitive = prp
        dul._is_transport_event = ite
        dul.state_machine = types.SimpleNamespace(do_action=lambda ev: log.append(("do_action", ev)))
        orig_put = dul.event_queue.put

        def put(ev, *a, **k):
            if ev == "Evt18" or not str(ev).startswith("Evt"):
                log.append(("loop.put", ev))
            return orig_put(ev, *a, **k)
        dul.event_queue.put = put
        t = threading.Thread(target=DULServiceProvider.run_reactor, args=(dul,), daemon=True)
        t.start()
        t.join(10)
        desc = {"per iteration (waiting source, ARTIM run out)": script}
        if t.is_alive():
            dul._kill_thread = True
            return dict(input=desc, observed={"the reactor is still inside iteration": step["i"], "log": log[-8:]},
                        expected="the loop never blocks (an empty event queue is skipped)")
        # split the log per iteration
        its, pre = [], []
        for e in log:
            if e[0] == "end-of-script":
                break
            if e[0] == "iteration":
                its.append([])
            elif its:
                its[-1].append(e)
            else:
                pre.append(e)
        if [e for e in pre if e[0].startswith("idle")] != [("idle.start",)]:
            return dict(input=desc, observed={"before the first iteration": pre}, expected="the idle timer is started once")
        pending = []
        for i, (evs, (src, artim)) in enumerate(zip(its, script)):
            names = [e[0] for e in evs]
            puts = [e[1] for e in evs if e[0] == "loop.put"]
            want_puts = ["Evt18"] if artim else []
            restarts = names.count("idle.restart") + names.count("idle.start")
            acts = [e[1] for e in evs if e[0] == "do_action"]
            pending += want_puts + ([f"EvtP{i}"] if src == "prim" else []) + ([f"EvtD{i}"] if src == "data" else [])
            want_act = pending[:1]
            pending = pending[1:]
            ok_order = names.count("process_primitive") == 1 and names.count("transport_event") == (0 if src == "prim" else 1)
            if puts != want_puts or restarts != (1 if src == "data" else 0) or acts != want_act or not ok_order or "idle.stop" in names:
                return dict(input=dict(desc, iteration=i), observed={"events the loop queued itself": puts, "idle timer restarts": restarts,
                                                                     "events handed to the state machine": acts, "calls": names},
                            expected={"events the loop queued itself": want_puts, "idle timer restarts": 1 if src == "data" else 0,
                                      "events handed to the state machine": want_act,
                                      "sources": "the primitive queue once, the socket only when no primitive was waiting"})
    return None

"""A real DULServiceProvider (real state machine, real DIMSE provider) over a scripted in-memory socket - shared by the
C02 / C05 / C27 replays."""
import queue
import types

from pynetdicom.transport import AssociationSocket
from pynetdicom.dul import DULServiceProvider
from pynetdicom.fsm import StateMachine
from pynetdicom.dimse import DIMSEServiceProvider


class FakeSock:
    def __init__(self, stream):
        self.stream, self.pos, self.sent, self.closed = bytes(stream), 0, [], False

    def recv(self, k):
        out = self.stream[self.pos:self.pos + k]
        self.pos += len(out)
        return out


def provider(stream, state, requestor=False):
    """a real DUL provider in FSM state `state`, its socket delivering `stream`"""
    dul = DULServiceProvider.__new__(DULServiceProvider)
    raw = FakeSock(stream)
    sock = types.SimpleNamespace(socket=raw, sent=[])
    sock.recv = lambda n: AssociationSocket.recv(sock, n)
    sock.send = lambda b: sock.sent.append(bytes(b))
    sock.close = lambda: setattr(raw, "closed", True)
    sock._shutdown_socket = lambda: setattr(raw, "closed", True)
    dul.socket = sock
    dul.event_queue = queue.Queue()
    dul._recv_pdu = queue.Queue()
    dul.to_provider_queue = queue.Queue()
    dul.to_user_queue = queue.Queue()
    dul._kill_thread = False
    dul._is_killed = False
    addr = types.SimpleNamespace(as_tuple=("127.0.0.1", 11112))
    assoc = types.SimpleNamespace(get_handlers=lambda e: [], is_requestor=requestor, is_acceptor=not requestor, dul=dul,
                                  acse_timeout=5, dimse_timeout=5, network_timeout=5, _kill=False, is_established=True,
                                  is_aborted=False, acceptor=types.SimpleNamespace(address_info=addr, maximum_length=16382),
                                  requestor=types.SimpleNamespace(address_info=addr, maximum_length=16382), _accepted_cx={},
                                  _serve_request=lambda *a: None)
    dul._assoc = assoc
    assoc.dimse = DIMSEServiceProvider(assoc)
    dul.artim_timer = types.SimpleNamespace(start=lambda: None, stop=lambda: None, restart=lambda: None, expired=False)
    dul._idle_timer = types.SimpleNamespace(restart=lambda: None)
    dul.state_machine = StateMachine(dul)
    dul.state_machine.current_state = state
    return dul



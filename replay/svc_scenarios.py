"""Handler-behaviour grid for the service-class replays (C20, C21, C22)."""
from io import BytesIO

from pydicom.dataset import Dataset
from pynetdicom import evt
from pynetdicom.dsutils import encode
from pynetdicom.dimse_primitives import C_FIND, C_GET, C_MOVE, C_ECHO, C_STORE
from pynetdicom import service_class as SCm

from svc_common import run_scp, context, c20_verdict

QR_FIND = "1.2.840.10008.5.1.4.1.2.1.1"
REPO_Q = "1.2.840.10008.5.1.4.1.1.201.6"
MWL = "1.2.840.10008.5.1.4.31"


def ident():
    ds = Dataset()
    ds.PatientID = "X"
    ds.QueryRetrieveLevel = "PATIENT"
    return ds


def status_ds(status, **kw):
    ds = Dataset()
    ds.Status = status
    for k, v in kw.items():
        setattr(ds, k, v)
    return ds


def find_req(sop=QR_FIND, msg_id=7):
    r = C_FIND()
    r.MessageID, r.AffectedSOPClassUID, r.Priority = msg_id, sop, 2
    r.Identifier = BytesIO(encode(ident(), True, True))
    return r


def gen(items):
    """handler yielding the scripted items; an Exception instance in the script is raised at that point"""
    def h(event):
        for it in items:
            if isinstance(it, Exception):
                raise it
            yield it
    return h


def find_scripts():
    P = (0xFF00, ident())
    yield "Pending, Warning 0x0107, Pending", [P, (0x0107, None), P], "only-Pending"
    yield "Pending, Warning 0xB001 (not Repository Query), Pending", [P, (0xB001, None), P], "only-Pending"
    yield "Pending, then a bare None instead of a (status, dataset) pair", [P, None], "no-exception-escapes"
    yield "a bare int instead of a pair", [0xFF00, P], "no-exception-escapes"
    yield "a 3-tuple", [(0xFF00, ident(), 1)], "no-exception-escapes"
    yield "status 70000", [P, (70000, None)], "encodable"
    yield "status -1", [(-1, None)], "encodable"
    yield "status dataset with Status 0x10000", [(status_ds(0x10000), None)], "encodable"
    yield "status dataset carrying MessageIDBeingRespondedTo=99", [P, (status_ds(0xFF00, MessageIDBeingRespondedTo=99), ident())], "status-dataset-carrying"
    yield "status dataset carrying MessageIDBeingRespondedTo=70000", [(status_ds(0xFF00, MessageIDBeingRespondedTo=70000), ident())], "status-dataset-carrying"
    yield "exception before the first yield", [RuntimeError("x")], ""
    yield "exception between yields", [P, RuntimeError("x"), P], ""
    yield "Pending x3 then exhaustion", [P, P, P], ""
    yield "Success then more results", [P, (0x0000, None), P], ""
    yield "Cancel then more", [(0xFE00, None), P], ""
    yield "Failure then more", [(0xA700, None), P], ""
    yield "unknown status 0xFFF0 then more", [(0xFFF0, None), P], ""
    yield "wrong status type then more", [("x", None), P], ""
    yield "status dataset without Status", [(Dataset(), None), P], ""
    yield "Pending with unencodable identifier", [(0xFF00, "not a dataset"), P], ""
    yield "Pending with None identifier", [(0xFF00, None), P], ""


def all_scenarios():
    for desc, items, tag in find_scripts():
        for sop, cls in ((QR_FIND, SCm.QueryRetrieveServiceClass), (REPO_Q, SCm.QueryRetrieveServiceClass),
                         (MWL, SCm.BasicWorklistManagementServiceClass)):
            yield dict(desc=f"C-FIND on {sop} ({cls.__name__}); handler: {desc}", tag=tag, kind="find",
                       cls=cls, req=lambda sop=sop: find_req(sop), cx=context(sop), handlers={evt.EVT_C_FIND: (gen(items), None)},
                       repo=(sop == REPO_Q), applies=lambda ob, tag=tag: ("_c_find_scp" in ob or "_wrap_handler" in ob) and
                       (tag in ob if tag else True))
    # handler that is not a generator / returns None
    for desc, h in (("handler returns None", lambda e: None), ("handler returns an int", lambda e: 0),
                    ("handler raises", lambda e: 1 / 0)):
        yield dict(desc=f"C-FIND; {desc}", tag="", kind="find", cls=SCm.QueryRetrieveServiceClass, req=lambda: find_req(QR_FIND),
                   cx=context(QR_FIND), handlers={evt.EVT_C_FIND: (h, None)}, repo=False, applies=lambda ob: "_c_find_scp" in ob)


def run_scenario(sc):
    req = sc["req"]()
    sent, err, a = run_scp(sc["cls"], req, sc["cx"], sc["handlers"])
    what = c20_verdict(sent, err, a, req.MessageID, sc["cx"].context_id, repo_query=sc["repo"])
    if what:
        return dict(what=what, observed=[repr(s) for s in sent] + ([f"escaped: {err!r}"] if err else []),
                    expected="zero or more Pending responses then exactly one final response, all with the request's message id and context")
    return None


# ---------------------------------------------------------------------------------------------
# C-GET / C-MOVE (C20, C22)
# ---------------------------------------------------------------------------------------------
QR_GET = "1.2.840.10008.5.1.4.1.2.1.3"
QR_MOVE = "1.2.840.10008.5.1.4.1.2.1.2"
CT = "1.2.840.10008.5.1.4.1.1.2"


def inst(uid="1.2.3.4"):
    ds = Dataset()
    ds.SOPClassUID, ds.SOPInstanceUID, ds.PatientName = CT, uid, "X"
    return ds


def getmove_req(which, msg_id=7):
    r = C_GET() if which == "get" else C_MOVE()
    r.MessageID, r.Priority = msg_id, 2
    r.AffectedSOPClassUID = QR_GET if which == "get" else QR_MOVE
    if which == "move":
        r.MoveDestination = "DEST"
    r.Identifier = BytesIO(encode(ident(), True, True))
    return r


def getmove_scripts():
    """(description, announced N, results, scripted C-STORE sub-operation outcomes, tag)"""
    P = lambda uid="1.2.3.4": (0xFF00, inst(uid))
    yield "N=2; Pending(ds), Pending('not a dataset'), Pending(ds); stores succeed", 2, [P(), (0xFF00, "acdef"), P()], [0, 0], "not-a-Dataset"
    yield "N=1; Pending('not a dataset'); then exhausted", 1, [(0xFF00, "x")], [], "not-a-Dataset"
    yield "N=2; two stores, the first answered 0xFE00 (Cancel)", 2, [P("1.1"), P("1.2")], [0xFE00, 0], "==N"
    yield "N=3; stores answered Success, Warning 0xB000, Failure 0xA700", 3, [P("1"), P("2"), P("3")], [0, 0xB000, 0xA700], ""
    yield "N=2; store raises then succeeds", 2, [P("1"), P("2")], [RuntimeError("x"), 0], ""
    yield "N=2; all fail", 2, [P("1"), P("2")], [0xA700, 0xC000], ""
    yield ("N=3; two stores fail, one of the failed instances has a UID with a leading-zero component (sent as it is in the default "
           "configuration)"), 3, [P("1.2.3.1"), P("1.2.3.02"), P("1.2.3.3")], [0, 0xA700, 0xC000], "listed-as-failed"
    yield "N=3; fewer results than announced", 3, [P("1")], [0], ""
    yield "N=1; more results than announced", 1, [P("1"), P("2"), P("3")], [0, 0, 0], ""
    yield "N=2; handler yields Success early after a failure", 2, [P("1"), (0x0000, None)], [0xA700], ""
    yield "N=2; handler yields Failure 0xA701 mid-way", 2, [P("1"), (0xA701, None)], [0], ""
    yield "N=2; handler yields Cancel mid-way", 2, [P("1"), (0xFE00, None)], [0], ""
    yield "N=2; handler yields 0xFF01 (Pending category, unknown to C-GET/C-MOVE)", 2, [P("1"), (0xFF01, inst())], [0], "0xFF01"
    yield "N=2; handler yields unknown status 0xFFF0", 2, [P("1"), (0xFFF0, None)], [0], ""
    yield "N=2; handler raises mid-way", 2, [P("1"), RuntimeError("x")], [0], ""
    yield "N=2; Pending with None and empty datasets interleaved", 2, [(0xFF00, None), P("1"), (0xFF00, Dataset()), P("2")], [0, 0], ""
    yield "N=2; a bare None result", 2, [P("1"), None], [0], "no-exception"
    yield "N=2; status 70000", 2, [P("1"), (70000, None)], [0], "encodable"
    yield "N=0", 0, [], [], ""
    yield "N=70000", 70000, [], [], ""
    yield "N='x'", "x", [], [], ""


def getmove_handler(which, n, results):
    def h(event):
        if which == "move":
            yield ("127.0.0.1", 11112)
        yield n
        for it in results:
            if isinstance(it, Exception):
                raise it
            yield it
    return h


def store_stub(outcomes):
    it = iter(outcomes)

    def send_c_store(ds, msg_id=1, **kw):
        o = next(it, 0)
        if isinstance(o, Exception):
            raise o
        r = Dataset()
        r.Status = o
        return r
    return send_c_store


def failed_list_verdict(sent, results, outcomes):
    """the final response lists exactly the instances whose sub-operation failed (when every result is a (Pending, data set
    with a SOP Instance UID) pair and there is one scripted outcome per result)"""
    if not sent or len(results) != len(outcomes) or not all(isinstance(r, tuple) and r[0] == 0xFF00 and hasattr(r[1], "SOPInstanceUID") for r in results):
        return None
    want = [str(r[1].SOPInstanceUID) for r, o in zip(results, outcomes) if isinstance(o, Exception) or (o not in (0x0000,) and not (0xB000 <= o <= 0xBFFF))]
    last = sent[-1]
    got = []
    if last.data:
        from pynetdicom.dsutils import decode
        ds = decode(BytesIO(last.data), True, True)
        v = ds.get("FailedSOPInstanceUIDList", [])
        got = [str(v)] if isinstance(v, str) else [str(x) for x in v]
    if sorted(got) != sorted(want):
        return f"final response lists {got} as failed, the sub-operations that failed were for {want}"
    return None


def c22_verdict(sent, n):
    if not isinstance(n, int) or not 1 <= n <= 65535:
        return None
    prev = None
    for s in sent[:-1]:
        r, c, f, w = s.counters        # Sent.counters = (Remaining, Completed, Failed, Warning)
        if None in (r, c, f, w):
            return f"Pending response {s} lacks a counter"
        if r + c + f + w != n:
            return f"Pending response {s}: remaining+completed+failed+warning = {r + c + f + w}, announced N = {n}"
        if prev and (r > prev[0] or c < prev[1] or f < prev[2] or w < prev[3]):
            return f"counters moved the wrong way between {prev} and {s.counters}"
        prev = (r, c, f, w)
    if sent:
        _r, c, f, w = sent[-1].counters
        if None not in (c, f, w) and c + f + w > n:
            return f"final response {sent[-1]}: completed+failed+warning = {c + f + w} > announced N = {n}"
    return None


def getmove_scenarios():
    import types
    for which in ("get", "move"):
        for desc, n, results, outcomes, tag in getmove_scripts():
            ev = evt.EVT_C_GET if which == "get" else evt.EVT_C_MOVE
            sop = QR_GET if which == "get" else QR_MOVE

            def setup(svc, outcomes=outcomes, which=which):
                a = svc.assoc
                if which == "get":
                    a.send_c_store = store_stub(outcomes)
                else:
                    sa = types.SimpleNamespace(is_established=True, send_c_store=store_stub(outcomes), release=lambda: None)
                    a.ae.associate = lambda *x, **k: sa
            yield dict(desc=f"C-{which.upper()}; handler: {desc}", tag=tag, kind=which, n=n, cls=SCm.QueryRetrieveServiceClass,
                       results=results, outcomes=outcomes,
                       req=lambda which=which: getmove_req(which), cx=context(sop), handlers={ev: (getmove_handler(which, n, results), None)},
                       repo=False, setup=setup,
                       applies=lambda ob, tag=tag, which=which: (f"_{which}_scp" in ob) and (tag in ob if tag else True))


_find_scenarios = all_scenarios


def all_scenarios():                                   # noqa: F811
    yield from _find_scenarios()
    yield from getmove_scenarios()


def run_scenario(sc, prop="C20"):                      # noqa: F811
    req = sc["req"]()
    sent, err, a = run_scp(sc["cls"], req, sc["cx"], sc["handlers"], setup=sc.get("setup"), method=sc.get("method", "SCP"))
    if prop == "C22":
        what = c22_verdict(sent, sc.get("n")) if err is None else None
        if what is None and err is None and "results" in sc:
            what = failed_list_verdict(sent, sc["results"], sc["outcomes"])
        exp = "Pending: remaining+completed+failed+warning == N, monotone; final: completed+failed+warning <= N"
    else:
        what = c20_verdict(sent, err, a, req.MessageID, sc["cx"].context_id, repo_query=sc["repo"])
        exp = "zero or more Pending responses then exactly one final response, all with the request's message id and context"
    if what:
        return dict(what=what, observed=[repr(s) for s in sent] + ([f"escaped: {err!r}"] if err else []), expected=exp)
    return None


# ---------------------------------------------------------------------------------------------
# single-response SCPs: DIMSE-N, C-STORE, C-ECHO  (C20, C21)
# ---------------------------------------------------------------------------------------------
from pynetdicom.dimse_primitives import N_ACTION, N_CREATE, N_DELETE, N_EVENT_REPORT, N_GET, N_SET  # noqa: E402

PRINT_JOB = "1.2.840.10008.5.1.1.14"
VERIF = "1.2.840.10008.1.1"


def n_req(cls, msg_id=7, with_instance=True):
    r = cls()
    r.MessageID = msg_id
    if cls in (N_CREATE, N_EVENT_REPORT, C_STORE):
        r.AffectedSOPClassUID = PRINT_JOB if cls is not C_STORE else CT
        if with_instance:
            r.AffectedSOPInstanceUID = "1.2.3.4"
    elif cls is C_ECHO:
        r.AffectedSOPClassUID = VERIF
    else:
        r.RequestedSOPClassUID = PRINT_JOB
        r.RequestedSOPInstanceUID = "1.2.3.4"
    if cls is N_ACTION:
        r.ActionTypeID = 1
    if cls is N_EVENT_REPORT:
        r.EventTypeID = 1
    if cls is C_STORE:
        r.Priority = 2
        r.DataSet = BytesIO(encode(inst(), True, True))
    return r


class _GenericN(SCm.ServiceClass):
    """ServiceClass.SCP raises NotImplementedError; the DIMSE-N implementations are reached through the dispatching
    subclasses - this replay calls the implementation methods directly, as those subclasses do"""
    statuses = SCm.GENERAL_STATUS


SINGLE_SCPS = {
    "_n_action_scp": (N_ACTION, evt.EVT_N_ACTION, True),
    "_n_create_scp": (N_CREATE, evt.EVT_N_CREATE, True),
    "_n_delete_scp": (N_DELETE, evt.EVT_N_DELETE, False),
    "_n_event_report_scp": (N_EVENT_REPORT, evt.EVT_N_EVENT_REPORT, True),
    "_n_get_scp": (N_GET, evt.EVT_N_GET, True),
    "_n_set_scp": (N_SET, evt.EVT_N_SET, True),
    "StorageServiceClass.SCP": (C_STORE, evt.EVT_C_STORE, False),
    "VerificationServiceClass.SCP": (C_ECHO, evt.EVT_C_ECHO, False),
}


def single_returns(pair):
    """(description, handler return value | Exception, obligation tag)"""
    reply = Dataset()
    reply.PatientName = "X"
    if pair:
        yield "returns None instead of a (status, dataset) pair", None, "returns-None"
        yield "returns a bare status 0x0000 instead of a pair", 0x0000, "returns-bare-status"
        yield "returns a 3-tuple", (0x0000, None, None), "returns-3-tuple"
        yield "returns (0x0000, dataset)", (0x0000, reply), ""
        yield "returns (0x0000, None)", (0x0000, None), ""
        yield "returns (0x0000, 'not a dataset')", (0x0000, "not a dataset"), ""
        yield "returns (status dataset 0x0000, dataset)", (status_ds(0x0000), reply), ""
        yield "returns (dataset without Status, None)", (Dataset(), None), ""
        yield "returns ('x', None)", ("x", None), ""
        yield "returns (70000, None)", (70000, None), "encodable"
        yield "returns (-1, None)", (-1, None), "encodable"
        yield "returns (0xFFF0, None) (unknown status)", (0xFFF0, None), ""
        yield "returns (status dataset carrying MessageIDBeingRespondedTo=99, None)", (status_ds(0x0000, MessageIDBeingRespondedTo=99), None), "message-id"
    else:
        yield "returns 0x0000", 0x0000, ""
        yield "returns a status dataset", status_ds(0x0000), ""
        yield "returns a dataset without Status", Dataset(), ""
        yield "returns 'x'", "x", ""
        yield "returns None", None, ""
        yield "returns 70000", 70000, "encodable"
        yield "returns -1", -1, "encodable"
        yield "returns a (status, dataset) pair", (0x0000, None), ""
        yield "returns status dataset carrying MessageIDBeingRespondedTo=99", status_ds(0x0000, MessageIDBeingRespondedTo=99), "message-id"
    yield "raises", RuntimeError("x"), ""


def single_scenarios():
    for name, (cls, ev, pair) in SINGLE_SCPS.items():
        for desc, ret, tag in single_returns(pair):
            def h(event, ret=ret):
                if isinstance(ret, Exception):
                    raise ret
                return ret
            if name.endswith(".SCP"):
                svc_cls = getattr(SCm, name.split(".")[0])
                method = "SCP"
            else:
                svc_cls, method = _GenericN, name
            sop = {C_STORE: CT, C_ECHO: VERIF}.get(cls, PRINT_JOB)
            yield dict(desc=f"{name}; handler {desc}", tag=tag, kind="single", cls=svc_cls, method=method,
                       req=lambda cls=cls: n_req(cls), cx=context(sop), handlers={ev: (h, None)}, repo=False,
                       applies=lambda ob, name=name, tag=tag: (name in ob) and (tag in ob if tag else True))


_all2 = all_scenarios


def all_scenarios():                                   # noqa: F811
    yield from _all2()
    yield from single_scenarios()


# ---------------------------------------------------------------------------------------------
# Relevant Patient Information Query (its own C-FIND SCP)
# ---------------------------------------------------------------------------------------------
RPI_GENERAL = "1.2.840.10008.5.1.4.37.1"


def rpi_scenarios():
    P = (0xFF00, ident())
    scripts = [
        ("yields one match", [P], ""),
        ("yields (Warning 0x0107, None) - a general status listed for the service", [(0x0107, None)], "missing"),
        ("yields (Warning 0x0116, None)", [(0x0116, None)], "missing"),
        ("yields (0xFF01, identifier) - Pending category, not defined for the service", [(0xFF01, ident())], "last-response-is-final"),
        ("yields nothing", [], ""),
        ("yields (Failure 0xC100, None)", [(0xC100, None)], ""),
        ("yields (Cancel 0xFE00, None)", [(0xFE00, None)], ""),
        ("yields (0x0000, None)", [(0x0000, None)], ""),
        ("yields unknown status 0xFFF0", [(0xFFF0, None)], ""),
        ("yields a bare None", [None], ""),
        ("yields a 3-tuple", [(0xFF00, ident(), 1)], ""),
        ("raises", [RuntimeError("x")], ""),
        ("yields Pending with an unencodable identifier", [(0xFF00, "x")], ""),
        ("yields status 70000", [(70000, None)], "encodable"),
    ]
    for desc, items, tag in scripts:
        yield dict(desc=f"Relevant Patient Information Query C-FIND; handler {desc}", tag=tag, kind="rpi",
                   cls=SCm.RelevantPatientInformationQueryServiceClass, req=lambda: find_req(RPI_GENERAL), cx=context(RPI_GENERAL),
                   handlers={evt.EVT_C_FIND: (gen(items), None)}, repo=False,
                   applies=lambda ob, tag=tag: ("RelevantPatientInformationQueryServiceClass" in ob) and (tag in ob if tag else True))


_all3 = all_scenarios


def all_scenarios():                                   # noqa: F811
    yield from _all3()
    yield from rpi_scenarios()

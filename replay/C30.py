"""Replay for C30: REAL handle_store of storescp / qrscp with stub events carrying hostile SOP Instance
UIDs; a scratch tree is compared before/after — any file created outside the storage directory reproduces."""
import argparse
import datetime
import logging
import os
import shutil
import sys
import tempfile
import types

from common import load, done

from pydicom.dataset import Dataset, FileMetaDataset
from pydicom.uid import ImplicitVRLittleEndian, generate_uid

rec = load()
oid = rec["id"]
HOSTILE = ["../escaped", "../../escaped2", "/tmp/c30_abs_escape", "sub/dir", "..", ".", "a/../../b", "1.2.3", "x\x00y", ""]


def mk_event(uid, root, cls_uid="1.2.840.10008.5.1.4.1.1.2"):
    ds = Dataset()
    ds.SOPClassUID = cls_uid
    ds.SOPInstanceUID = uid
    ds.PatientID = "P1"
    ds.PatientName = "N"
    ds.StudyInstanceUID = "1.2.3.1"
    ds.SeriesInstanceUID = "1.2.3.2"
    meta = FileMetaDataset()
    meta.MediaStorageSOPClassUID = ds.SOPClassUID
    meta.MediaStorageSOPInstanceUID = "1.2.3.4"
    meta.TransferSyntaxUID = ImplicitVRLittleEndian
    meta.ImplementationClassUID = "1.2.3.5"
    req = types.SimpleNamespace(address="127.0.0.1", port=1)
    ev = types.SimpleNamespace(dataset=ds, file_meta=meta, timestamp=datetime.datetime.now(),
                               assoc=types.SimpleNamespace(requestor=req),
                               context=types.SimpleNamespace(transfer_syntax=ImplicitVRLittleEndian),
                               encoded_dataset=lambda include_meta=True: b"")
    return ev


def snapshot(root):
    out = set()
    for d, _dn, fn in os.walk(root):
        for f in fn:
            out.add(os.path.relpath(os.path.join(d, f), root))
    return out


bad = None
root = tempfile.mkdtemp(prefix="c30_")
try:
    CASES = [(u, "1.2.840.10008.5.1.4.1.1.2") for u in HOSTILE] + \
        [("1.2.3.4", c) for c in ("1.2.3.999", "../../outside/evil", os.path.join(root, "abs_escape", "evil"), "sub/dir", "..", "a b/../c")]
    for uid, cls_uid in CASES:
        storage = os.path.join(root, "work", "storage")
        os.makedirs(storage, exist_ok=True)
        os.makedirs(os.path.join(root, "abs_escape"), exist_ok=True)
        os.makedirs(os.path.join(root, "outside"), exist_ok=True)
        before = snapshot(root)
        abs_before = os.path.exists("/tmp/c30_abs_escape")
        log = logging.getLogger("c30")
        log.addHandler(logging.NullHandler())
        log.propagate = False
        try:
            if "qrscp" in oid:
                from pynetdicom.apps.qrscp.handlers import handle_store
                handle_store(mk_event(uid, root, cls_uid), storage, "sqlite:///" + os.path.join(root, "work", "db.sqlite"), {}, log)
            else:
                from pynetdicom.apps.common import handle_store
                args = argparse.Namespace(ignore=False, output_directory=storage)
                handle_store(mk_event(uid, root, cls_uid), args, log)
        except Exception as e:
            pass
        after = snapshot(root)
        new = sorted(after - before)
        outside = [p for p in new if not p.startswith(os.path.join("work", "storage") + os.sep) and p != os.path.join("work", "db.sqlite")]
        if os.path.exists("/tmp/c30_abs_escape") and not abs_before:
            outside.append("/tmp/c30_abs_escape")
            os.unlink("/tmp/c30_abs_escape")
        if outside:
            bad = dict(input={"SOPInstanceUID": uid, "SOPClassUID": cls_uid, "storage_dir": "<root>/work/storage"}, observed={"files_created_outside": outside},
                       expected="only files inside the storage directory (and the database file)")
            break
finally:
    shutil.rmtree(root, ignore_errors=True)
if bad:
    done(True, **bad)
done(False, note="no file created outside the storage directory for any hostile UID tried")

"""Replay for C23: the REAL DIMSEServiceProvider.receive_primitive / ServiceClass.is_cancelled with stub associations."""
import queue
import types

from common import load, done

from pynetdicom.dimse import DIMSEServiceProvider
from pynetdicom.dimse_primitives import C_CANCEL
from pynetdicom.dimse_messages import C_CANCEL_RQ
from pynetdicom.service_class import ServiceClass

rec = load()


def cancel_pdata(msg_id, ctx=1):
    p = C_CANCEL()
    p.MessageIDBeingRespondedTo = msg_id
    m = C_CANCEL_RQ()
    m.primitive_to_message(p)
    return list(m.encode_msg(ctx, 16382))


def provider():
    assoc = types.SimpleNamespace(get_handlers=lambda e: [], _serve_request=lambda *a: None)
    d = DIMSEServiceProvider.__new__(DIMSEServiceProvider)
    d._assoc = assoc
    d.cancel_req = {}
    d.message = None
    d.msg_queue = queue.Queue()
    return d


if "__init__" in rec.get("id", "") or rec.get("id", "").endswith("cross-check"):
    # native: two providers built by the REAL constructor; a C-CANCEL received by one must not be visible to the other
    a1 = types.SimpleNamespace(get_handlers=lambda e: [], _serve_request=lambda *a: None)
    a2 = types.SimpleNamespace(get_handlers=lambda e: [], _serve_request=lambda *a: None)
    d1, d2 = DIMSEServiceProvider(a1), DIMSEServiceProvider(a2)
    for pd in cancel_pdata(5):
        d1.receive_primitive(pd)
    seen_by_other = 5 in d2.cancel_req
    own = d1.cancel_req is d2.cancel_req or d1.msg_queue is d2.msg_queue
    if seen_by_other or own:
        done(True, input="two associations (two DIMSEServiceProvider instances); a C-CANCEL for message id 5 arrives on the first",
             observed={"the second association's pending cancels": sorted(d2.cancel_req), "both share one map / queue": own},
             expected="the second association sees no pending cancel")
    if "__init__" in rec.get("id", ""):
        done(False, note="every provider has its own pending-cancel map and queue")
bad = None
for n_other in (0, 1, 9, 10, 11, 15):
    d = provider()
    for i in range(n_other):
        for pd in cancel_pdata(100 + i):
            d.receive_primitive(pd)
    for pd in cancel_pdata(7):
        d.receive_primitive(pd)
    sc = ServiceClass.__new__(ServiceClass)
    sc.assoc = types.SimpleNamespace(dimse=d)
    hit = ServiceClass.is_cancelled(sc, 7)
    wrong = ServiceClass.is_cancelled(sc, 8)
    again = ServiceClass.is_cancelled(sc, 7)
    if not hit or wrong or again:
        bad = dict(input={"pending cancels for other message ids": n_other, "then C-CANCEL for message id": 7},
                   observed={"is_cancelled(7)": hit, "is_cancelled(8)": wrong, "is_cancelled(7) again": again,
                             "queued as ordinary messages": d.msg_queue.qsize()},
                   expected={"is_cancelled(7)": True, "is_cancelled(8)": False, "is_cancelled(7) again": False})
        break
if bad:
    done(True, **bad)
done(False, note="every C-CANCEL was reported exactly to the operation it names")

"""Replay for C16: REAL primitive_to_message + encode_msg + decode_msg for every message class that can
carry a data set, with absent / empty / non-empty data-set parameters."""
from io import BytesIO

from common import load, done

from pynetdicom import dimse_messages as dm
from pynetdicom.dimse_messages import DIMSEMessage
from pynetdicom.pdu_primitives import P_DATA

rec = load()
bad = None
for cls_name, kw in sorted(dm._DATASET_KEYWORDS.items()):
    prim_cls = dm._MSG_TO_PRIMITIVE[cls_name[:cls_name.rfind("_R")]]
    _at_end = BytesIO()
    _at_end.write(b"\x08\x00\x05\x00\x04\x00\x00\x00ISO ")          # filled with write(): the stream position is at the end
    for label, value in (("absent", None), ("empty", BytesIO(b"")), ("non-empty", BytesIO(b"\x08\x00\x05\x00\x04\x00\x00\x00ISO ")),
                         ("non-empty, stream position at the end", _at_end)):
        p = prim_cls()
        for attr, v in (("MessageID", 1), ("MessageIDBeingRespondedTo", 1)):
            if cls_name.endswith("_RSP") == (attr == "MessageIDBeingRespondedTo") and hasattr(p, attr):
                try:
                    setattr(p, attr, v)
                except Exception:
                    pass
        try:
            setattr(p, kw, value)
        except Exception:
            continue
        msg = getattr(dm, cls_name)()
        try:
            msg.primitive_to_message(p)
        except Exception as e:
            bad = dict(input={"message": cls_name, kw: label}, observed=f"primitive_to_message raised {e!r}", expected="no exception")
            break
        announces = msg.command_set.CommandDataSetType != 0x0101
        for mx in (16382, 0, 16):           # peer maximum PDU length: ordinary, unlimited, tiny
            pds = list(msg.encode_msg(1, mx))
            data_frags = sum(1 for pd in pds for (_c, v) in pd.presentation_data_value_list if not (v[0] & 1))
            rx = DIMSEMessage()
            complete = False
            for pd in pds:
                q = P_DATA()
                q.presentation_data_value_list = [list(x) for x in pd.presentation_data_value_list]
                try:
                    complete = rx.decode_msg(q)
                except Exception as e:
                    complete = f"raised {e!r}"
                    break
            if announces != (data_frags > 0) or complete is not True:
                break
        if announces != (data_frags > 0) or complete is not True:
            bad = dict(input={"message": cls_name, kw: label, "peer maximum PDU length": mx},
                       observed={"CommandDataSetType": hex(msg.command_set.CommandDataSetType), "data_fragments_sent": data_frags,
                                 "receiver_completed_message": complete},
                       expected="data set announced iff data fragments are sent; receiver completes the message")
            break
    if bad:
        break
if not bad:
    # file-backed C-STORE request (chunked send): data set parameter None, _dataset_path = (path, offset)
    import os, tempfile
    from pathlib import Path
    from pynetdicom.dimse_primitives import C_STORE
    fd, tmp = tempfile.mkstemp(suffix=".bin")
    os.write(fd, b"\xAA" * 7 + b"0123456789" * 5)
    os.close(fd)
    try:
        for mx in (0, 16, 16382):
            p = C_STORE()
            p.MessageID, p.AffectedSOPClassUID, p.AffectedSOPInstanceUID, p.Priority = 1, "1.2.840.10008.5.1.4.1.1.2", "1.2.3", 2
            p.DataSet = None
            p._dataset_path = (Path(tmp), 7)
            msg = dm.C_STORE_RQ()
            msg.primitive_to_message(p)
            announces = msg.command_set.CommandDataSetType != 0x0101
            pds = list(msg.encode_msg(1, mx))
            data = b"".join(v[1:] for pd in pds for (_c, v) in pd.presentation_data_value_list if not (v[0] & 1))
            nfr = sum(1 for pd in pds for (_c, v) in pd.presentation_data_value_list if not (v[0] & 1))
            rx = DIMSEMessage()
            complete = False
            for pd in pds:
                q = P_DATA()
                q.presentation_data_value_list = [list(x) for x in pd.presentation_data_value_list]
                complete = rx.decode_msg(q)
            if not announces or nfr == 0 or data != b"0123456789" * 5 or complete is not True:
                bad = dict(input={"message": "C_STORE_RQ", "DataSet": None, "_dataset_path": "(file, offset 7)", "max_pdu": mx},
                           observed={"CommandDataSetType": hex(msg.command_set.CommandDataSetType), "data_fragments_sent": nfr,
                                     "bytes_sent": len(data), "receiver_completed_message": complete},
                           expected="announced, 50 bytes of data fragments, receiver completes")
                break
    finally:
        os.unlink(tmp)
if bad:
    done(True, **bad)
done(False, note="every message class announces a data set exactly when it sends one and is completed by the receiver")

"""Replay for C24: the REAL Association._wrap_find_responses / _wrap_get_move_responses driven with a stub DIMSE provider
that returns scripted response sequences; checks one item per response, stop at first non-Pending, clean failure, and that
the association lock is not held while the iterator is suspended."""
import threading
import types
from io import BytesIO

from common import load, done

from pydicom.dataset import Dataset
from pydicom.uid import ImplicitVRLittleEndian, DeflatedExplicitVRLittleEndian
from pynetdicom.association import Association
from pynetdicom.dimse_primitives import C_FIND, C_GET, C_MOVE, C_ECHO, C_STORE
from pynetdicom.dsutils import encode

rec = load()
QM = "1.2.840.10008.5.1.4.1.2.1.1"


def rsp_find(status, ident=None):
    r = C_FIND()
    r.MessageIDBeingRespondedTo, r.AffectedSOPClassUID, r.Status = 1, QM, status
    if ident is not None:
        r.Identifier = BytesIO(ident)
    return r


def rsp_get(status, ident=None, cls=C_GET):
    r = cls()
    r.MessageIDBeingRespondedTo, r.AffectedSOPClassUID, r.Status = 1, QM, status
    if ident is not None:
        r.Identifier = BytesIO(ident)
    return r


class Lock:
    def __init__(self):
        self.depth = 0

    def __enter__(self):
        self.depth += 1

    def __exit__(self, *a):
        self.depth -= 1


class StubAssoc(Association):
    """the real Association methods with the AE-owned lock replaced by a depth-counting one"""
    lock = property(lambda self: self._lk)


def mk_assoc(script):
    log = []
    a = StubAssoc.__new__(StubAssoc)
    it = iter(script)
    a.dimse = types.SimpleNamespace(get_msg=lambda block=True: next(it, (None, None)))
    a._lk = Lock()
    a._reactor_checkpoint = types.SimpleNamespace(set=lambda: log.append("checkpoint"))
    a.abort = lambda: log.append("abort")
    a._handle_no_response = lambda: log.append("no_response")
    a._c_store_scp = lambda req: log.append("c_store_scp")
    return a, log


ds = Dataset()
ds.PatientID = "X"
good = encode(ds, True, True)
garbage = bytes(range(1, 40))
bad = None
cases = []
# (description, generator factory, script, expected number of items, expected to abort)
cases.append(("C-FIND: Pending(ok) Pending(undecodable, deflated) Success", "find", DeflatedExplicitVRLittleEndian,
              [(1, rsp_find(0xFF00, garbage)), (1, rsp_find(0x0000))], 2))
cases.append(("C-FIND: Pending Pending Success", "find", ImplicitVRLittleEndian,
              [(1, rsp_find(0xFF00, good)), (1, rsp_find(0xFF01, good)), (1, rsp_find(0x0000)), (1, rsp_find(0xFF00, good))], 3))
cases.append(("C-FIND: Failure first", "find", ImplicitVRLittleEndian, [(1, rsp_find(0xA700)), (1, rsp_find(0xFF00, good))], 1))
cases.append(("C-FIND: timeout", "find", ImplicitVRLittleEndian, [(None, None)], 1))
cases.append(("C-FIND: wrong type", "find", ImplicitVRLittleEndian, [(1, C_ECHO())], 1))
cases.append(("C-GET: Pending, C-STORE request, Pending, Warning with identifier", "get", ImplicitVRLittleEndian,
              [(1, rsp_get(0xFF00)), (1, C_STORE()), (1, rsp_get(0xFF00)), (1, rsp_get(0xB000, good))], 3))
cases.append(("C-MOVE: Failure with undecodable identifier (deflated)", "get", DeflatedExplicitVRLittleEndian,
              [(1, rsp_get(0xA701, garbage, C_MOVE))], 1))
# an identifier pydicom only finds undecodable when its values are read (lazy conversion): (0008,1161) has VR UL in the
# dictionary used for Implicit VR, the peer sends a 2-byte value; pynetdicom reads it when logging the identifier
_lazy = Dataset()
_lazy.PatientID = "X"
from pydicom.dataelem import DataElement  # noqa: E402
_lazy[0x00081161] = DataElement(0x00081161, "OB", b"\x01\x00")
lazy_bad = encode(_lazy, True, True)


def usable(x):
    """a surfaced identifier must be None or a dataset the caller can actually read"""
    if x is None:
        return True
    try:
        str(x)
        return True
    except Exception:
        return False


cases.append(("C-FIND: Pending with an identifier whose element value cannot be converted (found while logging)", "find", ImplicitVRLittleEndian,
              [(1, rsp_find(0xFF00, lazy_bad)), (1, rsp_find(0x0000))], 2))
cases.append(("C-GET: Failure with an identifier whose element value cannot be converted (found while logging)", "get", ImplicitVRLittleEndian,
              [(1, rsp_get(0xA701, lazy_bad))], 1))


def invalid(r):
    """a response with a Status but without Message ID Being Responded To: not a valid DIMSE response"""
    r.MessageIDBeingRespondedTo = None
    return r


# expected: the documented (empty Dataset, None) result once, abort, nothing after it
cases.append(("C-FIND: invalid response (Status, no Message ID Being Responded To) then Pending, Success", "find", ImplicitVRLittleEndian,
              [(1, invalid(rsp_find(0xFF00, good))), (1, rsp_find(0xFF00, good)), (1, rsp_find(0x0000))], 1))
cases.append(("C-GET: Pending, then an invalid response, then Success", "get", ImplicitVRLittleEndian,
              [(1, rsp_get(0xFF00)), (1, invalid(rsp_get(0xFF00))), (1, rsp_get(0x0000))], 2))
# 0xB001 is a Warning - a final status - for every query model but Repository Query (PS3.4 C.6.4.4), where it ends the Pending run
cases.append(("C-FIND (Patient Root): Pending, then Warning 0xB001 (final outside Repository Query), then a stray Success", "find", ImplicitVRLittleEndian,
              [(1, rsp_find(0xFF00, good)), (1, rsp_find(0xB001)), (1, rsp_find(0x0000))], 2))
cases.append(("C-FIND (Repository Query): Pending, 0xB001 (not final there), Success", "find-repo", ImplicitVRLittleEndian,
              [(1, rsp_find(0xFF00, good)), (1, rsp_find(0xB001)), (1, rsp_find(0x0000))], 3))
# a message of the wrong kind after a Pending response: the documented (empty Dataset, None), not the previous response again
_echo = C_ECHO()
_echo.MessageIDBeingRespondedTo, _echo.Status = 1, 0x0000
cases.append(("C-FIND: Pending, then a C-ECHO response (an invalid response for this operation)", "find", ImplicitVRLittleEndian,
              [(1, rsp_find(0xFF00, good)), (1, _echo), (1, rsp_find(0x0000))], 2))
cases.append(("C-GET: Pending, then a C-ECHO response (an invalid response for this operation)", "get", ImplicitVRLittleEndian,
              [(1, rsp_get(0xFF00)), (1, _echo), (1, rsp_get(0x0000))], 2))
import inspect  # noqa: E402
import logging  # noqa: E402
from pynetdicom.sop_class import RepositoryQuery  # noqa: E402


def find_iterator(a, ts, model):
    """the wrapper is private: supply what it asks for by name (a wrapper that does not ask for the query model gets none)"""
    names = [p for p in inspect.signature(a._wrap_find_responses).parameters]
    have = {"transfer_syntax": ts, "query_model": model}
    return a._wrap_find_responses(*[have[n] for n in names])



logging.getLogger("pynetdicom").setLevel(logging.DEBUG)
logging.getLogger("pynetdicom").addHandler(logging.NullHandler())
logging.getLogger("pynetdicom").propagate = False
for desc, which, ts, script, want in cases:
    a, log = mk_assoc(script)
    gen = find_iterator(a, ts, RepositoryQuery if which == "find-repo" else QM) if which.startswith("find") else a._wrap_get_move_responses(ts)
    items, depths = [], []
    try:
        for x in gen:
            items.append(x)
            depths.append(a._lk.depth)
            if len(items) > 10:
                break
        err = None
    except Exception as e:
        err = e
    broken = [i for i, x in enumerate(items) if not usable(x[1])]
    if "invalid response" in desc and not err and len(items) == want and ("abort" not in log or items[-1][1] is not None
                                                                       or len(items[-1][0]) != 0):      # the documented EMPTY status
        bad = dict(input=desc, observed={"items": [(getattr(st, "Status", None), idn is not None) for st, idn in items], "log": log},
                   expected="the last item is (empty Dataset, None) and the association is aborted")
        break
    if err is not None or len(items) != want or any(depths) or a._lk.depth != 0 or broken:
        bad = dict(input=desc, observed={"items": len(items), "lock depth at each yield": depths, "exception": repr(err), "log": log,
                                         "items whose identifier raises when read": broken},
                   expected={"items": want, "lock depth at each yield": [0] * want})
        break
def abort_check():
    """native: the REAL Association.abort / _handle_no_response on a stub `self`: how many A-ABORTs are handed to the ACSE, with
    which source, what is notified, whether the association is killed"""
    import types
    import pynetdicom.association as am
    for already in (False, True):
        for released in (False, True):
            for block in (True, False):
                log = []
                me = types.SimpleNamespace(_sent_abort=already, is_released=released,
                                           _reactor_checkpoint=types.SimpleNamespace(set=lambda: log.append("checkpoint.set")),
                                           acse=types.SimpleNamespace(send_abort=lambda src: log.append(f"send_abort:{src}")),
                                           kill=lambda: log.append("kill"),
                                           dul=types.SimpleNamespace(socket=types.SimpleNamespace(_shutdown_socket=lambda: log.append("shutdown"))))
                orig, osleep = am.evt.trigger, am.time.sleep
                am.evt.trigger = lambda a, ev, attrs=None: log.append(ev.name)
                am.time.sleep = lambda t: None
                try:
                    try:
                        am.Association._abort_blocking(me, block)
                    except Exception as e:
                        log.append(repr(e))
                finally:
                    am.evt.trigger, am.time.sleep = orig, osleep
                if already or released:
                    want = []
                else:
                    want = ["checkpoint.set", "send_abort:0", "EVT_ABORTED"] + (["kill", "shutdown"] if block else [])
                if log != want or (not (already or released) and me._sent_abort is not True):
                    return dict(input={"abort already sent": already, "released": released, "block": block}, observed=log, expected=want)
    for peer in (False, True):
        for prov in (False, True):
            for est in (False, True):
                log = []
                me = types.SimpleNamespace(is_established=est, abort=lambda: log.append("abort"),
                                           acse=types.SimpleNamespace(is_aborted=lambda kind=None: {"a-abort": peer, "a-p-abort": prov}[kind]))
                am.Association._handle_no_response(me)
                want = ["abort"] if (est and not peer and not prov) else []
                if log != want:
                    return dict(input={"peer aborted": peer, "provider aborted": prov, "established": est}, observed=log, expected=want)
    return None


if "Association.abort" in rec.get("id", "") or "_handle_no_response" in rec.get("id", "") or rec.get("id", "").endswith("cross-check"):
    _b = abort_check()
    if _b:
        done(True, **_b)
    if "Association.abort" in rec.get("id", "") or "_handle_no_response" in rec.get("id", ""):
        done(False, note="the real abort / _handle_no_response behaved as the contract says on every flag combination")
if bad:
    done(True, **bad)
done(False, note="every scripted response sequence was surfaced once per response without holding the lock")

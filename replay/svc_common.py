"""Native harness shared by the C20/C21/C22/C07 replays: the REAL service-class SCP methods driven with a stub association
(records every dimse.send_msg with a snapshot of the response primitive) and scripted handlers."""
import types

from pynetdicom import evt
from pynetdicom.presentation import PresentationContext


class Sent:
    def __init__(self, rsp, cx_id):
        self.cls = type(rsp).__name__
        self.status = getattr(rsp, "Status", None)
        self.msg_id = getattr(rsp, "MessageIDBeingRespondedTo", None)
        self.cx_id = cx_id
        ds = getattr(rsp, "Identifier", None) if hasattr(rsp, "Identifier") else None
        for name in ("DataSet", "AttributeList", "EventReply", "ActionReply"):
            if ds is None and hasattr(rsp, name):
                ds = getattr(rsp, name)
        self.data = ds.getvalue() if ds is not None and hasattr(ds, "getvalue") else ds
        self.counters = tuple(getattr(rsp, f"NumberOf{k}Suboperations", None) for k in ("Remaining", "Completed", "Failed", "Warning"))
        self.extra = {k: getattr(rsp, k, None) for k in ("ErrorComment", "OffendingElement", "ErrorID", "AffectedSOPInstanceUID")}

    def __repr__(self):
        return f"<{self.cls} status={self.status if self.status is None else hex(self.status)} id={self.msg_id} cx={self.cx_id} counters={self.counters}>"


class StubAssoc:
    def __init__(self, handlers, established=lambda n: True, release_after=None):
        self._handlers = handlers
        self.sent = []
        self._established = established
        self.reads = 0
        self.aborted = False
        self.release_polls = 0
        a = self

        # the REAL DIMSE provider encodes every response; the stub DUL decodes what was put on the wire again
        from pynetdicom.dimse import DIMSEServiceProvider
        from pynetdicom.dimse_messages import DIMSEMessage

        class Dul:
            def __init__(self_):
                self_.msg = DIMSEMessage()

            def send_pdu(self_, pdata):
                if self_.msg.decode_msg(pdata):
                    prim = self_.msg.message_to_primitive()
                    cx_id = pdata.presentation_data_value_list[0][0]
                    a.sent.append(Sent(prim, cx_id))
                    self_.msg = DIMSEMessage()
        self.dul = Dul()
        self.dimse = DIMSEServiceProvider(self)
        self.is_requestor = False
        self.is_acceptor = True
        self.dimse_timeout = 5
        self.acse = types.SimpleNamespace(is_aborted=lambda *x: False, is_release_requested=self._release)
        self.release_after = release_after
        self.release_pending = False
        self.ae = types.SimpleNamespace(ae_title="STUB")
        self.requestor = types.SimpleNamespace(ae_title="PEER", address="127.0.0.1", port=11112, maximum_length=16382)
        self.acceptor = types.SimpleNamespace(ae_title="STUB", address="127.0.0.1", port=11113)

    def _release(self, consume=True):
        self.release_polls += 1
        return False

    @property
    def is_established(self):
        self.reads += 1
        return self._established(self.reads) and not self.aborted

    def get_handlers(self, event):
        return self._handlers.get(event, (None, None) if event.is_intervention else [])

    def abort(self):
        self.aborted = True
    _abort_nonblocking = _abort_blocking = abort


def context(abstract_syntax, transfer_syntax="1.2.840.10008.1.2", cx_id=5):
    cx = PresentationContext()
    cx.context_id = cx_id
    cx.abstract_syntax = abstract_syntax
    cx.transfer_syntax = [transfer_syntax]
    cx.result = 0
    return cx


def run_scp(service_cls, req, cx, handlers, established=lambda n: True, setup=None, method="SCP"):
    """returns (sent responses, exception that escaped SCP or None, assoc)"""
    a = StubAssoc(handlers, established)
    svc = service_cls(a)
    if setup:
        setup(svc)
    try:
        getattr(svc, method)(req, cx)
        err = None
    except Exception as e:
        err = e
    return a.sent, err, a


PENDING = (0xFF00, 0xFF01)


def c20_verdict(sent, err, assoc, msg_id, cx_id, repo_query=False):
    """the C20 clauses on one recorded response sequence; returns None or a description of what is wrong"""
    if err is not None:
        return f"exception escaped the SCP ({err!r}): _serve_request aborts, no final response"
    for s in sent:
        if s.msg_id != msg_id or s.cx_id != cx_id:
            return f"response {s} does not carry the request's message id {msg_id} / context {cx_id}"
    if not sent:
        return None if (assoc.aborted or not assoc._established(10 ** 6)) else "no response at all on a live association"
    for s in sent[:-1]:
        if s.status not in PENDING and not (repo_query and s.status == 0xB001):
            return f"non-Pending response {s} is followed by {len(sent) - 1 - sent.index(s)} more response(s)"
    if sent[-1].status in PENDING and not (assoc.aborted or not assoc._established(10 ** 6)):
        return f"the last response {sent[-1]} is not final"
    return None

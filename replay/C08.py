"""Replay for C08: REAL sockets on 127.0.0.1.  A scripted raw peer sends the first 3 bytes of a PDU and then stays silent with
the connection open; with all timeouts at 1 s the local side must give up (abort/close, threads ended, call returned) within
timeout + margin - for the acceptor role (peer = requestor) and for the requestor role (peer = acceptor)."""
import socket
import threading
import time

from common import load, done

from pynetdicom import AE
from pynetdicom.sop_class import Verification

rec = load()
ob = rec.get("id", "")
if "run_reactor" in rec.get("id", "") and "DULServiceProvider" in rec.get("id", ""):
    from dul_common import reactor_check
    _bad = reactor_check()
    if _bad:
        done(True, **_bad)
    done(False, note="the real DUL reactor loop behaved as the contract says on the scripted iterations")
LIMIT = 5.0          # timeouts are 1 s; margin for scheduling


def set_timeouts(ae):
    ae.acse_timeout = 1
    ae.dimse_timeout = 1
    ae.network_timeout = 1
    ae.connection_timeout = 1


def acceptor_role():
    """pynetdicom is the acceptor; the peer connects, sends 3 bytes of an A-ASSOCIATE-RQ and idles"""
    ae = AE()
    set_timeouts(ae)
    ae.add_supported_context(Verification)
    srv = ae.start_server(("127.0.0.1", 0), block=False)
    port = srv.socket.getsockname()[1]
    peer = socket.create_connection(("127.0.0.1", port))
    peer.sendall(b"\x01\x00\x00")
    t0 = time.time()
    alive = None
    while time.time() - t0 < LIMIT:
        time.sleep(0.25)
        alive = [t.name for t in threading.enumerate() if t.name.startswith("AcceptorThread") or "DUL" in t.name or t.name.startswith("Thread-")]
        if not ae.active_associations and time.time() - t0 > 1.0:
            break
    stuck = list(ae.active_associations)
    res = None
    if stuck:
        res = dict(input={"role": "acceptor", "peer": "connects, sends 3 bytes of a PDU, stays silent", "all timeouts": "1 s"},
                   observed={"association threads still alive after": f"{LIMIT} s", "count": len(stuck)},
                   expected="the association is ended and its threads finish within the network timeout plus a margin")
    peer.close()
    srv.shutdown()
    return res


def requestor_role():
    """pynetdicom is the requestor; the peer accepts the TCP connection, sends 3 bytes of an A-ASSOCIATE-AC and idles"""
    lst = socket.socket()
    lst.bind(("127.0.0.1", 0))
    lst.listen(1)
    port = lst.getsockname()[1]
    conns = []

    def peer():
        c, _ = lst.accept()
        conns.append(c)
        c.recv(4096)
        c.sendall(b"\x02\x00\x00")
    threading.Thread(target=peer, daemon=True).start()
    ae = AE()
    set_timeouts(ae)
    ae.add_requested_context(Verification)
    out = {}

    def call():
        a = ae.associate("127.0.0.1", port)
        out["assoc"] = a
    t = threading.Thread(target=call, daemon=True)
    t0 = time.time()
    t.start()
    t.join(LIMIT)
    res = None
    if t.is_alive():
        res = dict(input={"role": "requestor", "peer": "accepts, sends 3 bytes of a PDU, stays silent", "all timeouts": "1 s"},
                   observed=f"AE.associate() still blocked after {LIMIT} s", expected="associate() returns (not established) within the timeouts plus a margin")
    for c in conns:
        c.close()
    lst.close()
    return res


bad = None
if "connect" in ob or "requestor" in ob:
    bad = requestor_role()
elif "RequestHandler" in ob or "accepted" in ob:
    bad = acceptor_role()
else:
    bad = acceptor_role() or requestor_role()
if bad:
    done(True, **bad)
done(False, note="the local side gave up within the configured timeouts in both roles")

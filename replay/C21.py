"""Replay for C21 (also the native cross-check): the REAL service-class SCPs on a stub association with scripted handler return
values; the status of each response is compared with what the property prescribes for that handler value."""
from common import load, done
from pydicom.dataset import Dataset
from svc_scenarios import (find_req, gen, status_ds, ident, context, QR_FIND, n_req, SINGLE_SCPS, _GenericN, PRINT_JOB, CT, VERIF)
from svc_common import run_scp
from pynetdicom import evt, service_class as SCm
from pynetdicom.dimse_primitives import C_STORE, C_ECHO

rec = load()
ob = rec.get("id", "")
bad = None


def expect(desc, sent, want_status, where):
    global bad
    got = [s.status for s in sent]
    if bad is None and (not got or got[-1] != want_status):
        bad = dict(input=f"{where}; handler {desc}", observed=[hex(x) if isinstance(x, int) else x for x in got], expected=hex(want_status))


# C-FIND: the status of the response produced for one yielded value
for desc, item, want in (("yields (0xA700, None)", (0xA700, None), 0xA700), ("yields (status dataset 0xA900, None)", (status_ds(0xA900), None), 0xA900),
                         ("yields (dataset without Status, None)", (Dataset(), None), 0xC001), ("yields ('x', None)", ("x", None), 0xC002),
                         ("yields (70000, None)", (70000, None), 0xC002), ("yields Pending with an unencodable identifier", (0xFF00, "x"), 0xC312)):
    sent, err, a = run_scp(SCm.QueryRetrieveServiceClass, find_req(QR_FIND), context(QR_FIND), {evt.EVT_C_FIND: (gen([item]), None)})
    expect(desc, sent, want, "C-FIND (_c_find_scp)")
sent, err, a = run_scp(SCm.QueryRetrieveServiceClass, find_req(QR_FIND), context(QR_FIND), {evt.EVT_C_FIND: (gen([RuntimeError("x")]), None)})
expect("raises", sent, 0xC311, "C-FIND (_c_find_scp)")
# single-response services
for name, (cls, ev, pair) in SINGLE_SCPS.items():
    sop = {C_STORE: CT, C_ECHO: VERIF}.get(cls, PRINT_JOB)
    svc_cls, method = (getattr(SCm, name.split(".")[0]), "SCP") if name.endswith(".SCP") else (_GenericN, name)
    exc_code = {"StorageServiceClass.SCP": 0xC211, "VerificationServiceClass.SCP": 0x0000}.get(name, 0x0110)
    cases = [("returns 0x0000", 0x0000, 0x0000), ("returns a status dataset 0x0000", status_ds(0x0000), 0x0000), ("raises", RuntimeError("x"), exc_code)]
    if cls is not C_ECHO:
        cases += [("returns a dataset without Status", Dataset(), 0xC001), ("returns 'x'", "x", 0xC002), ("returns 70000", 70000, 0xC002)]
    for desc, ret, want in cases:
        val = (ret, None) if (pair and not isinstance(ret, Exception)) else ret

        def h(event, val=val):
            if isinstance(val, Exception):
                raise val
            return val
        sent, err, a = run_scp(svc_cls, n_req(cls), context(sop), {ev: (h, None)}, method=method)
        expect(desc, sent, want, name)
# dsutils.encode on data sets pydicom refuses for different reasons: "cannot be encoded" is None, whatever the writer raised
from pynetdicom.dsutils import encode as _encode
import warnings
warnings.simplefilter("ignore")


def _unencodable():
    a = Dataset()
    a.Rows = 70000                      # US out of range (pydicom: OSError wrapping struct.error)
    b = Dataset()
    b.PatientName = None
    b["PatientName"].VR = "XX"          # unknown VR (NotImplementedError)
    c = Dataset()
    c.BitsAllocated = "sixteen"         # str where a number is packed
    d = Dataset()
    d.Rows = 1.5
    return (("Rows = 70000", a), ("element with VR 'XX'", b), ("BitsAllocated = 'sixteen'", c), ("Rows = 1.5", d))


for desc, ds in _unencodable():
    try:
        r = _encode(ds, True, True)
    except BaseException as e:          # noqa
        r = e
    if bad is None and r is not None and not isinstance(r, bytes):
        bad = dict(input=f"dsutils.encode(data set with {desc}, implicit VR little endian)", observed=f"raised {r!r}",
                   expected="None (the data set cannot be encoded) - the callers map None to their 'cannot encode' status")
if bad:
    done(True, **bad)
done(False, note="every scripted handler value gave the documented response status")

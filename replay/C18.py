"""Replay for C18: the REAL Association.send_c_* / send_n_* methods and _get_valid_context on a stub association with a
recording DIMSE provider: which context id does the request go out on, and with which transfer syntax is the data set encoded?"""
import types

from common import load, done

from pydicom.dataset import Dataset
from pynetdicom.association import Association
from pynetdicom.presentation import PresentationContext
from pynetdicom.sop_class import Verification, PatientRootQueryRetrieveInformationModelFind as FIND

rec = load()
ob = rec.get("id", "")


def cx(cid, ab, ts="1.2.840.10008.1.2", scu=True, scp=False):
    c = PresentationContext()
    c.context_id, c.abstract_syntax, c.transfer_syntax = cid, ab, [ts]
    c.result, c._as_scu, c._as_scp = 0, scu, scp
    return c


def stub(accepted):
    log = []
    a = Association.__new__(Association)
    a._accepted_cx = {c.context_id: c for c in accepted}
    a._rejected_cx = []
    a.is_established = True
    a._is_paused = True
    a._reactor_checkpoint = types.SimpleNamespace(set=lambda: None, clear=lambda: None)
    a.dimse = types.SimpleNamespace(send_msg=lambda p, cid: log.append((type(p).__name__, cid)), get_msg=lambda block=True: (None, None))
    a._handle_no_response = lambda: None
    return a, log


bad = None
if "send_c_cancel" in ob or not ob or ob.endswith("cross-check"):
    a, log = stub([cx(1, FIND)])
    try:
        a.send_c_cancel(7, context_id=99)
    except Exception as e:
        log.append(("raised", repr(e)))
    if ("C_CANCEL", 99) in log and "cross-check" not in ob:
        bad = dict(input={"accepted context ids": [1], "call": "send_c_cancel(7, context_id=99)"}, observed=log,
                   expected="no DIMSE message on a context id that was not accepted")
if not bad:
    a, log = stub([cx(1, FIND), cx(3, Verification)])
    a.send_c_echo()
    if log != [("C_ECHO", 3)]:
        bad = dict(input={"accepted": {1: "FIND", 3: "Verification"}, "call": "send_c_echo()"}, observed=log, expected=[("C_ECHO", 3)])
if bad:
    done(True, **bad)
done(False, note="requests went out on the accepted context of their SOP class")

"""Replay for C05: the REAL provider pieces (DULServiceProvider._read_pdu_data, the real state machine and actions, the real
Timer as ARTIM) stepped in the order of one reactor iteration, with a patched monotonic clock: the ARTIM timer expires between
the reactor's expiry check and the arrival of the A-ASSOCIATE-RQ that stops it."""
import queue

from common import load, done
from dul_common import provider

import pynetdicom.timer as timer_mod
from pynetdicom.timer import Timer
from pynetdicom.dul import DULServiceProvider
from pynetdicom.pdu import A_ASSOCIATE_RQ
from pynetdicom.pdu_primitives import A_ASSOCIATE, MaximumLengthNotification, ImplementationClassUIDNotification
from pynetdicom.presentation import PresentationContext

rec = load()


def rq_bytes():
    p = A_ASSOCIATE()
    p.application_context_name = "1.2.840.10008.3.1.1.1"
    p.calling_ae_title, p.called_ae_title = "A", "B"
    cx = PresentationContext()
    cx.context_id, cx.abstract_syntax, cx.transfer_syntax = 1, "1.2.840.10008.1.1", ["1.2.840.10008.1.2"]
    p.presentation_context_definition_list = [cx]
    m = MaximumLengthNotification()
    m.maximum_length_received = 16382
    i = ImplementationClassUIDNotification()
    i.implementation_class_uid = "1.2.3"
    p.user_information = [m, i]
    pdu = A_ASSOCIATE_RQ()
    pdu.from_primitive(p)
    return pdu.encode()


ob = rec.get("id", "")
if "run_reactor" in ob:
    from dul_common import reactor_check
    _bad = reactor_check()
    if _bad:
        done(True, **_bad)
    done(False, note="the real DUL reactor loop behaved as the contract says on the scripted iterations")
if "AssociationSocket.send" in ob:
    # a send after the provider closed its own transport: the REAL AssociationSocket.send on a wrapper whose socket is None
    import types
    from pynetdicom.transport import AssociationSocket
    q = queue.Queue()
    assoc = types.SimpleNamespace(get_handlers=lambda e: [], dul=types.SimpleNamespace(event_queue=q))
    sock = AssociationSocket.__new__(AssociationSocket)
    sock._assoc = assoc
    sock.socket = None
    try:
        AssociationSocket.send(sock, b"\x07\x00\x00\x00\x00\x04\x00\x00\x02\x00")
        evs = []
        while not q.empty():
            evs.append(q.get(False))
        if evs != ["Evt17"]:
            done(True, input="AssociationSocket.send() after close() (wrapped socket is None)", observed={"events queued": evs}, expected=["Evt17"])
    except Exception as e:
        done(True, input="AssociationSocket.send() after close() (wrapped socket is None), e.g. AA-7 processed in Sta13 after AA-8 closed the transport",
             observed=f"{type(e).__name__}: {e} escapes send() -> _send -> the action -> do_action -> the reactor thread",
             expected="the failed send is reported as Evt17 (connection closed) and nothing is raised")
    done(False, note="a send on a closed transport is reported as Evt17")
clock = {"t": 0.0}
real = timer_mod.time.monotonic
timer_mod.time = type("T", (), {"monotonic": staticmethod(lambda: clock["t"])})
bad = None
try:
    dul = provider(rq_bytes(), "Sta2")           # acceptor: connection open, waiting for the A-ASSOCIATE-RQ, ARTIM running
    dul.artim_timer = Timer(1.0)
    dul.artim_timer.start()                      # AE-5 at t = 0
    trace = []
    # --- reactor iteration 1
    clock["t"] = 0.9
    if dul.artim_timer.expired:                  # the reactor's check at the top of the loop: not yet expired
        dul.event_queue.put("Evt18")
    clock["t"] = 1.1                             # the A-ASSOCIATE-RQ arrives 0.2 s later, after the timeout
    DULServiceProvider._read_pdu_data(dul)
    ev = dul.event_queue.get(False)
    dul.state_machine.do_action(ev)              # AE-6: stops ARTIM (at t = 1.1 > timeout), indicates, -> Sta3
    trace.append((ev, dul.state_machine.current_state))
    # --- reactor iteration 2
    clock["t"] = 1.2
    if dul.artim_timer.expired:
        dul.event_queue.put("Evt18")
    try:
        ev2 = dul.event_queue.get(False)
        st = dul.state_machine.current_state
        try:
            dul.state_machine.do_action(ev2)
        except Exception as e:
            bad = dict(input={"ARTIM timeout": "1.0 s", "reactor checks expiry at": "0.9 s", "A-ASSOCIATE-RQ arrives at": "1.1 s"},
                       observed=f"{type(e).__name__}: {e} - raised by do_action({ev2!r}) in {st}; the reactor thread ends with it",
                       expected="only events defined for the current state are processed")
    except queue.Empty:
        pass
finally:
    timer_mod.time = __import__("time")
if bad:
    done(True, **bad)
done(False, note="no undefined event was produced")

"""Replay for C28: run the real code_to_category / tables on the counterexample."""
from common import load, done
from spec import ps37_status as spec

rec = load()
oid = rec["id"]
from pynetdicom import status

if "/tables/" in oid:
    name = oid.split("/tables/")[1].split("/")[0]
    table = getattr(status, name)
    bad = []
    for code, entry in table.items():
        try:
            cat = status.code_to_category(code)
        except Exception as e:
            cat = f"raise {e!r}"
        if entry[0] != spec.category(code) or entry[0] != cat:
            bad.append({"code": hex(code), "table": entry[0], "code_to_category": cat, "spec": spec.category(code)})
    done(bool(bad), input={"table": name}, observed=bad[:10], expected="table category == code_to_category == spec")
code = rec.get("model", {}).get("code")
if code is None:
    # search the 16-bit domain on the real function
    for c in range(0x10000):
        try:
            if status.code_to_category(c) != spec.category(c):
                code = c
                break
        except Exception:
            code = c
            break
if code is None:
    done(False, note="no disagreeing input on the real function")
try:
    got = status.code_to_category(code)
except Exception as e:
    got = f"raise {type(e).__name__}"
want = spec.category(code) if code >= 0 else "raise ValueError"
done(got != want, input={"code": code, "hex": hex(code)}, observed=got, expected=want)

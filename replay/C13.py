"""Replay / CPython cross-check for C13 and C14: the REAL ACSE._negotiate_as_acceptor and _check_user_identity
driven with stub association objects over every combination of policy settings, titles, identity-handler
behaviours and live-association counts; compared with the policy of the property statement."""
import itertools
import sys
import types

from common import load, done

from pynetdicom import evt
from pynetdicom.acse import ACSE
from pynetdicom.pdu_primitives import A_ASSOCIATE, UserIdentityNegotiation
from pynetdicom.presentation import PresentationContext


def cx(cid, ab, ts):
    c = PresentationContext()
    c.context_id = cid
    c.abstract_syntax = ab
    c.transfer_syntax = ts
    return c


def run(calling, called, own, required, require_called, identity, n_acceptors, n_requestors, maximum):
    log = []
    rq = A_ASSOCIATE()
    rq.application_context_name = "1.2.840.10008.3.1.1.1"
    rq.calling_ae_title, rq.called_ae_title = calling, called
    rq.presentation_context_definition_list = [cx(1, "1.2.840.10008.1.1", ["1.2.840.10008.1.2"])]
    uid = None
    if identity is not None:
        uid = UserIdentityNegotiation()
        uid.user_identity_type, uid.primary_field = 1, b"user"
        if isinstance(identity, tuple):
            uid.user_identity_type, uid.positive_response_requested = identity[2], identity[3]
    handlers = {}

    def on_id(event):
        if identity == "raise":
            raise RuntimeError("boom")
        if isinstance(identity, str) and identity.startswith("raise-"):
            raise getattr(__import__("builtins"), identity[6:])("boom")
        if identity == "neg":
            return False, None
        if isinstance(identity, tuple):
            return identity[0], identity[1]
        return True, None
    if identity in ("raise", "neg", "pos") or isinstance(identity, tuple) or (isinstance(identity, str) and identity.startswith("raise-")):
        handlers[evt.EVT_USER_ID] = (on_id, None)
    ae = types.SimpleNamespace(require_calling_aet=list(required), require_called_aet=require_called, maximum_associations=maximum)
    others = [types.SimpleNamespace(is_acceptor=True, is_requestor=False) for _ in range(n_acceptors)] + \
        [types.SimpleNamespace(is_acceptor=False, is_requestor=True) for _ in range(n_requestors)]
    ae.active_associations = others

    def get_handlers(event):
        if event.is_intervention:
            h = handlers.get(event)
            if h is None:
                return (evt.get_default_handler(event), None)
            return h
        return []
    requestor = types.SimpleNamespace(primitive=rq, ae_title=None, user_identity=uid, asynchronous_operations=(1, 1), role_selection={},
                                      sop_class_extended={}, sop_class_common_extended={})
    acceptor = types.SimpleNamespace(ae_title=own, supported_contexts=[cx(None, "1.2.840.10008.1.1", ["1.2.840.10008.1.2"])],
                                     add_negotiation_item=lambda it: log.append(("item", type(it).__name__)), _common_ext=None)
    assoc = types.SimpleNamespace(ae=ae, requestor=requestor, acceptor=acceptor, get_handlers=get_handlers, is_established=False,
                                  kill=lambda: log.append(("kill",)), _abort_nonblocking=lambda: None, _abort_blocking=lambda: None,
                                  abort=lambda: None, _accepted_cx={}, _rejected_cx=[], dul=types.SimpleNamespace())
    acse = ACSE(assoc)
    acse.send_reject = lambda *a: log.append(("reject", a))
    acse.send_accept = lambda: log.append(("accept",))
    try:
        acse._negotiate_as_acceptor()
    except Exception as e:
        return ("exception", repr(e)), log, assoc
    return None, log, assoc


def check_wire_titles():
    """native: the REAL A_ASSOCIATE_RQ title setters on 16-byte wire fields - only surrounding spaces may be ignored"""
    from pynetdicom.pdu import A_ASSOCIATE_RQ
    for attr in ("calling_ae_title", "called_ae_title"):
        for field, want in ((b"TRUSTED         ", "TRUSTED"), (b"  TRUSTED       ", "TRUSTED"), (b"TRUSTED" + b"\x00" * 9, None),
                            (b"\x00TRUSTED        ", None), (b"TRUSTED\t        ", None), (b"TRUSTED\x7f        ", None), (b" " * 16, None),
                            (b"TRU STED        ", "TRU STED")):
            pdu = A_ASSOCIATE_RQ()
            try:
                setattr(pdu, attr, field)
                got = getattr(pdu, attr)
            except ValueError:
                got = None
            except Exception as e:
                return dict(input={"field": attr, "bytes": repr(field)}, observed=repr(e), expected="a title or ValueError")
            if got != want:
                return dict(input={"field": attr, "16 bytes on the wire": repr(field)}, observed={"title the policy will compare": got},
                            expected={"title the policy will compare": want, "note": "None = the PDU is refused (ValueError)"})
    return None


def check_unbind():
    """native: the REAL bind/unbind bookkeeping (events._add_handler / _remove_handler) - unbinding changes nothing but the named
    binding: the identity handler stays in force unless IT is the one unbound"""
    from pynetdicom import evt
    from pynetdicom.events import _add_handler, _remove_handler, get_default_handler

    def mine(event):
        return False, None

    def other(event):
        return True, None

    def note(event):
        pass

    def note2(event):
        pass
    for ev in (evt.EVT_USER_ID, evt.EVT_C_ECHO, evt.EVT_SOP_EXTENDED):
        attr = {}
        _add_handler(ev, attr, (mine, None))
        _add_handler(evt.EVT_CONN_OPEN, attr, (note, None))
        before = dict(attr)
        for what, h in (("a callable that is not bound", other), ("the default handler", get_default_handler(ev))):
            _remove_handler(ev, attr, h)
            if attr != before:
                return dict(input={"event": ev.name, "bound": "mine", "unbind called with": what}, observed={"binding now": repr(attr.get(ev))},
                            expected={"binding now": repr(before[ev])})
        _remove_handler(evt.EVT_CONN_OPEN, attr, note2)
        _remove_handler(evt.EVT_CONN_CLOSE, attr, note)
        if attr != before:
            return dict(input={"event": "EVT_CONN_OPEN/EVT_CONN_CLOSE", "unbind called with": "a callable that is not bound"},
                        observed=repr(attr), expected=repr(before))
        _remove_handler(ev, attr, mine)
        if attr.get(ev) != (get_default_handler(ev), None) or attr.get(evt.EVT_CONN_OPEN) != [(note, None)]:
            return dict(input={"event": ev.name, "unbind called with": "the bound handler"}, observed=repr(attr),
                        expected="the default handler for that event, other bindings untouched")
        _remove_handler(evt.EVT_CONN_OPEN, attr, note)
        if evt.EVT_CONN_OPEN in attr:
            return dict(input={"event": "EVT_CONN_OPEN", "unbind called with": "its only handler"}, observed=repr(attr), expected="entry removed")
    return None


def check_send_reject():
    """native: the REAL ACSE.send_reject on a stub association, for every (result, source, reason) in 0..8 x 0..4 x 0..8"""
    import types
    from pynetdicom.acse import ACSE
    table = {1: (1, 2, 3, 7), 2: (1, 2), 3: (1, 2)}
    for result in range(0, 4):
        for source in range(0, 5):
            for reason in range(0, 9):
                sent = []
                acceptor = types.SimpleNamespace(primitive=None)
                assoc = types.SimpleNamespace(acceptor=acceptor, dul=types.SimpleNamespace(send_pdu=sent.append), is_rejected=False, is_established=None)
                acse = ACSE(assoc)
                legal = result in (1, 2) and reason in table.get(source, ())
                try:
                    acse.send_reject(result, source, reason)
                    got = [(p.result, p.result_source, p.diagnostic) for p in sent] + [assoc.is_rejected, assoc.is_established]
                except ValueError:
                    got = ["ValueError"] + [len(sent), assoc.is_rejected, assoc.is_established]
                except Exception as e:
                    got = [repr(e)]
                want = [(result, source, reason), True, False] if legal else ["ValueError", 0, False, None]
                if got != want:
                    return dict(input={"send_reject(result, source, diagnostic)": [result, source, reason]}, observed=got, expected=want)
    return None


def check_user_identity_getter():
    """native: the REAL ServiceUser.user_identity of the peer's side, read from a received A-ASSOCIATE primitive"""
    import types
    from pynetdicom.association import ServiceUser
    from pynetdicom.pdu_primitives import MaximumLengthNotification, ImplementationClassUIDNotification
    for typ, primary in ((1, b"alice"), (1, b""), (2, b""), (3, b""), (4, b"x")):
        for pos in (0, 1, 2, None):
            ident = UserIdentityNegotiation()
            ident.user_identity_type, ident.primary_field = typ, primary
            if typ == 2:
                ident.secondary_field = b"secret"
            ml = MaximumLengthNotification()
            ml.maximum_length_received = 16382
            ic = ImplementationClassUIDNotification()
            ic.implementation_class_uid = "1.2.3"
            items = [ml, ic]
            if pos is not None:
                items.insert(pos, ident)
            rq = A_ASSOCIATE()
            rq.user_information = items
            su = ServiceUser(types.SimpleNamespace(ae=types.SimpleNamespace(implementation_class_uid="1.2.3", implementation_version_name="V")), "requestor")
            su.primitive = rq
            got = su.user_identity
            want = ident if pos is not None else None
            if got is not want:
                return dict(input={"identity item": None if pos is None else {"type": typ, "primary field": repr(primary), "position": pos}},
                            observed=repr(got), expected="that identity item" if pos is not None else "None")
    return None


def main():
    rec = load() if len(sys.argv) > 1 and sys.argv[1] != "--all" else {"id": "all"}
    if "ServiceUser.user_identity" in rec.get("id", "") or rec.get("id", "").endswith("cross-check") or rec.get("id") == "all":
        bad = check_user_identity_getter()
        if bad:
            done(True, **bad)
        if "ServiceUser.user_identity" in rec.get("id", ""):
            done(False, note="the real getter returned the received identity item whatever its fields hold")
    if "ACSE.send_reject" in rec.get("id", "") or rec.get("id", "").endswith("cross-check") or rec.get("id") == "all":
        bad = check_send_reject()
        if bad:
            done(True, **bad)
        if "ACSE.send_reject" in rec.get("id", ""):
            done(False, note="the real send_reject sends exactly the PS3.8 triples it is given and refuses the others")
    if "_remove_handler" in rec.get("id", "") or rec.get("id", "").endswith("cross-check") or rec.get("id") == "all":
        bad = check_unbind()
        if bad:
            done(True, **bad)
        if "_remove_handler" in rec.get("id", ""):
            done(False, note="the real unbind bookkeeping changes only the named binding")
    if "ae_title.fset" in rec.get("id", "") or rec.get("id", "").endswith("cross-check") or rec.get("id") == "all":
        bad = check_wire_titles()
        if bad:
            done(True, **bad)
        if "ae_title.fset" in rec.get("id", ""):
            done(False, note="the real title setters ignore surrounding spaces only")
    bad = None
    n = 0
    for calling, required in (("CALLER", []), ("CALLER", ["CALLER"]), ("CALLER", ["  CALLER  ", "X"]), ("CALLER", ["OTHER"]),
                              ("CALLER", ["caller"]), ("A B", ["A B "])):
        for called, own, require_called in (("ME", "ME", True), ("ME", "ME   ", True), ("NOTME", "ME", True), ("NOTME", "ME", False)):
            # tuples: (handler verdict, server response, user identity type, positive response requested)
            for identity in (None, "none-bound", "pos", "neg", "raise", "raise-TypeError", "raise-ValueError", "raise-KeyError", "raise-AttributeError",
                             "raise-OSError", (False, "denied", 3, True), (False, 401, 4, True),
                             (False, b"no", 5, True), (True, b"ok", 3, True), (True, "not-bytes", 3, True), (False, "denied", 1, True),
                             (False, "denied", 3, False)):
                for n_acc, n_req, mx in ((1, 0, 1), (2, 0, 1), (2, 3, 2), (3, 0, 2), (1, 5, 1)):
                    n += 1
                    err, log, assoc = run(calling, called, own, required, require_called, identity, n_acc, n_req, mx)
                    desc = dict(calling=calling, required_calling=required, called=called, own=own, require_called=require_called,
                                identity_handler=identity, live_acceptor_associations=n_acc, live_requestor_associations=n_req,
                                maximum_associations=mx)
                    if err:
                        bad = dict(input=desc, observed=err, expected="no exception")
                        break
                    calling_ok = (not required) or calling in [s.strip() for s in required]
                    called_ok = (not require_called) or called == own.strip()
                    ident_ok = identity in (None, "none-bound", "pos") or (isinstance(identity, tuple) and identity[0] is True)
                    limit_ok = n_acc <= mx
                    allowed = calling_ok and called_ok and ident_ok and limit_ok
                    accepts = [x for x in log if x[0] == "accept"]
                    rejects = [x for x in log if x[0] == "reject"]
                    if allowed:
                        if not (len(accepts) == 1 and not rejects and assoc.is_established):
                            bad = dict(input=desc, observed=log, expected="accepted and established")
                    else:
                        docs = []
                        if not calling_ok:
                            docs.append((1, 1, 3))
                        if not called_ok:
                            docs.append((1, 1, 7))
                        if not ident_ok:
                            docs.append((2, 2, 1))
                        if not limit_ok:
                            docs.append((2, 3, 2))
                        if not (len(rejects) == 1 and not accepts and not assoc.is_established and ("kill",) in log and rejects[0][1] in docs):
                            bad = dict(input=desc, observed=log, expected=f"one reject with one of {docs}, not established, killed")
                        elif not limit_ok and rejects[0][1] != (2, 3, 2):
                            bad = dict(input=desc, observed=log, expected="(2, 3, 2) local limit exceeded")
                    if bad:
                        break
                if bad:
                    break
            if bad:
                break
        if bad:
            break
    if bad:
        done(True, **bad)
    done(False, note=f"real acceptance policy agrees with the property on {n} configurations")


main()

"""Replay for C15 (also used by C16): REAL fragmentation / reassembly on concrete inputs taken from the
counterexample model plus a sweep around fragment-size multiples."""
import os
import random
import sys
import tempfile
from io import BytesIO
from pathlib import Path

from common import load, done

from pynetdicom.dimse_messages import DIMSEMessage, C_STORE_RQ, C_FIND_RQ, C_ECHO_RQ
from pynetdicom.dimse_primitives import C_STORE, C_FIND, C_ECHO
from pynetdicom.pdu_primitives import P_DATA


def frag_check(data, fl):
    try:
        fr = list(DIMSEMessage._generate_pdv_fragments(data, fl))
    except ValueError:
        return None if 0 < fl < 7 else {"input": {"len": len(data), "fragment_length": fl}, "observed": "ValueError", "expected": "fragments"}
    except Exception as e:
        return {"input": {"len": len(data), "fragment_length": fl}, "observed": repr(e), "expected": "fragments or ValueError for 1..6"}
    if 0 < fl < 7:
        return {"input": {"len": len(data), "fragment_length": fl}, "observed": "no exception", "expected": "ValueError"}
    k = fl - 6 if fl else max(len(data), 1)
    want = [data[i:i + k] for i in range(0, len(data), k)] if fl else [data]
    if fr != want:
        return {"input": {"len": len(data), "fragment_length": fl}, "observed": [len(x) for x in fr], "expected": [len(x) for x in want]}
    return None


def mk_store(ds_bytes, path=None, offset=0):
    p = C_STORE()
    p.MessageID = 7
    p.AffectedSOPClassUID = "1.2.840.10008.5.1.4.1.1.2"
    p.AffectedSOPInstanceUID = "1.2.3.4"
    p.Priority = 2
    if path is None:
        p.DataSet = BytesIO(ds_bytes)
    else:
        p.DataSet = None
        p._dataset_path = (Path(path), offset)
    m = C_STORE_RQ()
    m.primitive_to_message(p)
    return m


def enc_check(ds_bytes, mx, ctx=3, file_backed=False, offset=0, seed=0):
    tmp = None
    desc = {"dataset_len": len(ds_bytes), "max_pdu_length": mx, "file_backed": file_backed, "offset": offset}
    try:
        if file_backed:
            fd, tmp = tempfile.mkstemp(suffix=".bin")
            os.write(fd, b"\xAA" * offset + ds_bytes)
            os.close(fd)
            m = mk_store(None, tmp, offset)
        else:
            m = mk_store(ds_bytes)
        from pynetdicom.dsutils import encode
        cmd = encode(m.command_set, True, True)
        try:
            pds = list(m.encode_msg(ctx, mx))
        except Exception as e:
            return dict(input=desc, observed=f"exception {e!r}", expected="fragments")
        pdvs = []
        for pd in pds:
            if len(pd.presentation_data_value_list) != 1:
                return dict(input=desc, observed="more than one PDV in a P-DATA", expected="one")
            pdvs.append(pd.presentation_data_value_list[0])
        got_cmd, got_ds, phase = b"", b"", "cmd"
        for n, (cid, val) in enumerate(pdvs):
            h, payload = val[0], val[1:]
            if cid != ctx:
                return dict(input=desc, observed=f"context id {cid}", expected=ctx)
            if mx and 6 + len(payload) > mx:
                return dict(input=desc, observed=f"PDV list length {6 + len(payload)}", expected=f"<= {mx}")
            is_cmd, is_last = bool(h & 1), bool(h & 2)
            if h not in (0, 1, 2, 3):
                return dict(input=desc, observed=f"header {h}", expected="0..3")
            if is_cmd:
                if phase != "cmd":
                    return dict(input=desc, observed="command fragment after data", expected="command first")
                got_cmd += payload
                if is_last:
                    phase = "ds"
            else:
                if phase != "ds":
                    return dict(input=desc, observed="data fragment before last command fragment", expected="command first")
                got_ds += payload
                if is_last:
                    phase = "done"
                    if n != len(pdvs) - 1:
                        return dict(input=desc, observed="fragments after the last data fragment", expected="none")
        want_ds = ds_bytes
        expect_data = bool(ds_bytes) or file_backed
        if got_cmd != cmd or got_ds != want_ds or phase != ("done" if expect_data else "ds"):
            return dict(input=desc, observed={"cmd_ok": got_cmd == cmd, "ds_len": len(got_ds), "end_phase": phase},
                        expected={"ds_len": len(want_ds), "end_phase": "done" if expect_data else "ds"})
        # reassembly under random regrouping of PDVs into primitives
        rnd = random.Random(seed)
        for trial in range(4):
            rx = DIMSEMessage()
            i, complete_at = 0, None
            while i < len(pdvs):
                g = rnd.randint(1, 3)
                p = P_DATA()
                p.presentation_data_value_list = [list(x) for x in pdvs[i:i + g]]
                r = rx.decode_msg(p)
                i += g
                if r:
                    complete_at = i
                    break
            if complete_at is None or complete_at < len(pdvs):
                return dict(input=desc, observed=f"decode_msg signalled completion at PDV {complete_at} of {len(pdvs)}", expected="at the last PDV")
            if rx.encoded_command_set.getvalue() != cmd or rx.data_set.getvalue() != want_ds:
                return dict(input=desc, observed="reassembled buffers differ", expected="equal to the originals")
        return None
    finally:
        if tmp:
            os.unlink(tmp)


def send_msg_check():
    """native: the REAL DIMSEServiceProvider.send_msg with a stub association (roles, announced maximum lengths) and a provider
    that records the P-DATA primitives: message type of the command set, context id, PDV sizes against the PEER's maximum"""
    import types
    from pydicom.dataset import Dataset
    from pynetdicom.dimse import DIMSEServiceProvider
    from pynetdicom.dimse_primitives import C_FIND, C_GET, C_CANCEL
    from pynetdicom.dsutils import encode, decode
    ident = Dataset()
    ident.PatientName = "X" * 300
    ident_b = encode(ident, True, True)

    def prims(mid):
        for cls, field_rq, field_rsp in ((C_ECHO, 0x0030, 0x8030), (C_FIND, 0x0020, 0x8020), (C_GET, 0x0010, 0x8010)):
            for rsp in (False, True):
                p = cls()
                p.AffectedSOPClassUID = "1.2.840.10008.1.1" if cls is C_ECHO else "1.2.840.10008.5.1.4.1.2.1.1"
                if rsp:
                    p.MessageIDBeingRespondedTo, p.Status = mid, 0xFF00 if cls is not C_ECHO else 0
                else:
                    p.MessageID = mid
                    if cls is not C_ECHO:
                        p.Priority = 2
                if cls is not C_ECHO and (not rsp or cls is C_FIND):
                    p.Identifier = BytesIO(ident_b)
                yield cls.__name__, rsp, p, (field_rsp if rsp else field_rq)
        c = C_CANCEL()
        c.MessageIDBeingRespondedTo = mid
        yield "C_CANCEL", True, c, 0x0FFF
    for is_requestor in (True, False):
        for rq_max, ac_max in ((16382, 64), (64, 16382), (0, 32), (32, 0)):
            for name, rsp, prim, field in [x for mid in (5, 0, 65535) for x in prims(mid)]:
                sent = []
                assoc = types.SimpleNamespace(is_requestor=is_requestor, is_acceptor=not is_requestor,
                                              requestor=types.SimpleNamespace(maximum_length=rq_max),
                                              acceptor=types.SimpleNamespace(maximum_length=ac_max), get_handlers=lambda ev: [],
                                              dul=types.SimpleNamespace(send_pdu=sent.append))
                d = DIMSEServiceProvider(assoc)
                mid = prim.MessageIDBeingRespondedTo if rsp else prim.MessageID
                try:
                    d.send_msg(prim, 3)
                except Exception as e:
                    return dict(input={"primitive": name, "response": rsp, "message id": mid}, observed=f"send_msg raised {e!r}",
                                expected=f"a message with CommandField {hex(field)} sent on context 3")
                peer = ac_max if is_requestor else rq_max
                pdvs = [x for pd in sent for x in pd.presentation_data_value_list]
                cmd = b"".join(v[1:] for (_c, v) in pdvs if v[0] & 1)
                got_field = decode(BytesIO(cmd), True, True).CommandField
                too_long = [len(v) + 5 for (_c, v) in pdvs if peer and len(v) + 5 > peer]
                if got_field != field or any(c != 3 for (c, _v) in pdvs) or too_long:
                    return dict(input={"primitive": name, "response": rsp, "message id": mid, "local side is requestor": is_requestor,
                                       "requestor maximum length": rq_max, "acceptor maximum length": ac_max},
                                observed={"CommandField": hex(got_field), "context ids": sorted({c for (c, _v) in pdvs}),
                                          "PDV list lengths over the peer's maximum": too_long},
                                expected={"CommandField": hex(field), "context ids": [3], "every PDV list length <=": peer or "unlimited"})
    return None


def main():
    rec = load()
    model = rec.get("model") or {}
    oid = rec["id"]
    bad = None
    if "send_msg" in oid or oid.endswith("cross-check"):
        bad = send_msg_check()
        if bad:
            done(True, **bad)
        if "send_msg" in oid:
            done(False, note="real send_msg used the right message type, context id and the peer's maximum length on every tried combination")

    def mb(name, default=b""):
        v = model.get(name)
        return bytes(v["bytes"]) if isinstance(v, dict) and "bytes" in v else default
    sizes = [0, 1, 2, 3, 7, 8, 9, 15, 16, 17, 31, 32, 33, 64, 100]
    if "_generate_pdv_fragments" in oid:
        cases = [(mb("bytestream"), int(model.get("fragment_length", 0) or 0))]
        cases += [(bytes(range(n % 256)) * 1 if n < 256 else bytes(n), fl) for n in sizes for fl in (0, 1, 6, 7, 8, 9, 14, 22, 70)]
        for d, fl in cases:
            bad = frag_check(d, fl)
            if bad:
                break
    else:
        cases = []
        if "max_pdu_length" in model:
            cases.append((mb("data_set", mb("file_content")), int(model["max_pdu_length"]), "file_content" in model, int(model.get("file_offset", 0) or 0)))
        for n in sizes:
            for mx in (0, 7, 8, 9, 16, 22, 128):
                cases.append((bytes((i * 7) % 256 for i in range(n)), mx, False, 0))
                cases.append((bytes((i * 5) % 256 for i in range(n)), mx, True, 3))
        for d, mx, fb, off in cases:
            bad = enc_check(d, mx, file_backed=fb, offset=off)
            if bad:
                break
    if bad:
        done(True, **bad)
    done(False, note="real fragmentation/reassembly agrees with the contract on every replay input")


main()

"""Shared helpers for replay harnesses (run under /venv/bin/python; pynetdicom imported from the tree
under test via PYTHONPATH)."""
import json
import os
import sys

sys.path.insert(0, os.path.dirname(os.path.dirname(os.path.abspath(__file__))))


def load():
    return json.load(open(sys.argv[1]))


def done(reproduced, **kw):
    kw["reproduced"] = reproduced
    print(json.dumps(kw, default=str))
    sys.exit(0)

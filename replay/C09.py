"""Replay for C09: drive the real Timer with a fake clock module (monotone clocks advance with real
time; the wall clock additionally jumps) and compare with the property statement."""
import itertools
import types
from common import load, done

rec = load()
if "run_reactor" in rec.get("id", "") and "DULServiceProvider" in rec.get("id", ""):
    from dul_common import reactor_check
    _bad = reactor_check()
    if _bad:
        done(True, **_bad)
    done(False, note="the real DUL reactor loop behaved as the contract says on the scripted iterations")
import pynetdicom.timer as tmod


class Clock:
    def __init__(self):
        self.t = 1000.0      # real time
        self.off = 5.0e8     # wall clock offset, may jump
    def time(self):
        return self.t + self.off
    def monotonic(self):
        return self.t + 77.0
    def perf_counter(self):
        return self.t + 12345.0
    def sleep(self, s):
        self.t += s


def run(history, timeout):
    """history: list of ('start'|'stop'|'restart'|('adv', dt)|('jump', dj)|'check') ; returns first disagreement"""
    clk = Clock()
    fake = types.SimpleNamespace(time=clk.time, monotonic=clk.monotonic, perf_counter=clk.perf_counter,
                                 sleep=clk.sleep, monotonic_ns=lambda: int(clk.monotonic() * 1e9),
                                 time_ns=lambda: int(clk.time() * 1e9), perf_counter_ns=lambda: int(clk.perf_counter() * 1e9))
    old = tmod.time
    tmod.time = fake
    try:
        tm = tmod.Timer(timeout)
        g_start = g_stop = None
        for i, step in enumerate(history):
            if step == "start" or step == "restart":
                getattr(tm, step)()
                g_start, g_stop = clk.t, None
            elif step == "stop":
                if g_stop is not None or g_start is None:
                    # stop() on a timer that is already stopped or was never started: the property statement does not fix what
                    # that means (the contract leaves it unconstrained, DESIGN 3/C09) - this history is not judged further
                    return None
                tm.stop()
                g_stop = clk.t
            elif isinstance(step, tuple) and step[0] == "adv":
                clk.t += step[1]
            elif isinstance(step, tuple) and step[0] == "jump":
                clk.off += step[1]
            elif isinstance(step, tuple) and step[0] == "set":
                # a timeout change (AE/Association setters reach running timers): applies to the time already elapsed
                tm.timeout = timeout = step[1]
            if g_start is None or timeout is None:
                want_exp, want_rem = False, (1 if timeout is None else timeout)
            else:
                el = (g_stop if g_stop is not None else clk.t) - g_start
                want_exp, want_rem = el > timeout, timeout - el
            got_exp, got_rem = tm.expired, tm.remaining
            if got_exp != want_exp or abs(got_rem - want_rem) > 1e-3:
                return {"history": [str(h) for h in history[:i + 1]], "timeout": timeout,
                        "observed": {"expired": got_exp, "remaining": got_rem},
                        "expected": {"expired": want_exp, "remaining": want_rem}}
    finally:
        tmod.time = old
    return None


steps = ["start", "stop", "restart", ("adv", 0.4), ("adv", 3.0), ("jump", 3600.0), ("jump", -3600.0), ("set", 1.0), ("set", 5.0)]
for timeout in (2.0, None, 0.0):
    for n in (1, 2, 3, 4):
        for hist in itertools.product(steps, repeat=n):
            bad = run(list(hist), timeout)
            if bad:
                done(True, input=bad["history"], timeout=bad["timeout"], observed=bad["observed"], expected=bad["expected"])
done(False, note="no disagreement in all histories of length <= 4 over start/stop/restart/advance/wall-jump/timeout-change")

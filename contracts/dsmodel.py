"""Abstract pydicom Dataset used as handler return value (status datasets): a finite list of (keyword, value)
elements; supports `keyword in ds`, iteration (elements with .keyword/.value/.tag/.VM), attribute access."""
from pyvc.values import SV, Env, PyRaise, ExcVal, Unsupported


class ElemV:
    def __init__(self, keyword, value, parent=None):
        self.keyword, self.value, self.parent = keyword, value, parent

    def sym_setattr(self, I, name, val):
        if name == "value" and self.parent is not None:
            self.value = val
            self.parent.elems = [(k, (val if k == self.keyword else v)) for k, v in self.parent.elems]
            return None
        from pyvc.values import Unsupported
        raise Unsupported(f"assignment to DataElement.{name}")

    def truth(self, I):
        return True           # pydicom DataElement defines neither __bool__ nor __len__

    def sym_getattr(self, I, name):
        if name == "keyword":
            return self.keyword
        if name == "value":
            return self.value
        if name == "VM":
            return len(self.value) if isinstance(self.value, (list, tuple)) else 1
        if name == "tag":
            return ("tag", self.keyword)
        return NotImplemented


class DatasetV:
    ext_class = "pydicom.dataset.Dataset"
    ext_bases = ("Dataset",)

    def __init__(self, elems):
        self.elems = list(elems)        # [(keyword, value)]

    def truth(self, I):
        return len(self.elems) > 0

    def sym_contains(self, I, item):
        if isinstance(item, tuple) and item and item[0] == "tag":
            item = item[1]
        return any(k == item for k, _ in self.elems)

    def sym_iter(self, I):
        return [ElemV(k, v, self) for k, v in self.elems]

    def sym_getattr(self, I, name):
        for k, v in self.elems:
            if k == name:
                return v
        if name[:1].isupper():
            raise PyRaise(ExcVal("AttributeError", (f"Dataset has no element {name}",)))
        return NotImplemented

    def sym_method(self, I, name, args, kw):
        if name == "get":
            for k, v in self.elems:
                if k == args[0]:
                    return v
            return args[1] if len(args) > 1 else kw.get("default")
        return NotImplemented

    def sym_setattr(self, I, name, val):
        self.elems = [(k, v) for k, v in self.elems if k != name] + [(name, val)]

    def sym_delattr(self, I, name):
        if not any(k == name for k, _ in self.elems):
            raise PyRaise(ExcVal("AttributeError", (name,)))
        self.elems = [(k, v) for k, v in self.elems if k != name]

    def sym_delitem(self, I, key):
        kw = key[1] if isinstance(key, tuple) and key and key[0] == "tag" else key
        if not any(k == kw for k, _ in self.elems):
            raise PyRaise(ExcVal("KeyError", (key,)))
        self.elems = [(k, v) for k, v in self.elems if k != kw]

    def __repr__(self):
        return f"DatasetV({self.elems!r})"

"""Abstract pydicom Dataset used as handler return value (status datasets): a finite list of (keyword, value)
elements; supports `keyword in ds`, iteration (elements with .keyword/.value/.tag/.VM), attribute access."""
from pyvc.values import SV, Env, PyRaise, ExcVal, Unsupported


class ElemV:
    def __init__(self, keyword, value):
        self.keyword, self.value = keyword, value

    def sym_getattr(self, I, name):
        if name == "keyword":
            return self.keyword
        if name == "value":
            return self.value
        if name == "VM":
            return 1
        if name == "tag":
            return ("tag", self.keyword)
        return NotImplemented


class DatasetV:
    ext_class = "pydicom.dataset.Dataset"
    ext_bases = ("Dataset",)

    def __init__(self, elems):
        self.elems = list(elems)        # [(keyword, value)]

    def truth(self, I):
        return len(self.elems) > 0

    def sym_contains(self, I, item):
        return any(k == item for k, _ in self.elems)

    def sym_iter(self, I):
        return [ElemV(k, v) for k, v in self.elems]

    def sym_getattr(self, I, name):
        for k, v in self.elems:
            if k == name:
                return v
        if name[:1].isupper():
            raise PyRaise(ExcVal("AttributeError", (f"Dataset has no element {name}",)))
        return NotImplemented

    def __repr__(self):
        return f"DatasetV({self.elems!r})"

"""C23 — a C-CANCEL reaches exactly the operation it names."""
from contracts import assoc_serve as S

PROPERTY = "C23"
LEVEL = "proof"
ASSUMPTIONS = [
    "sequential reduction: the reactor thread writes cancel_req (receive_primitive) and the association thread reads/clears it; "
    "single dict operations are atomic under the GIL (A-ATOMIC); races between the two threads are not decided",
    "pending cancels are an abstract dict with symbolic size",
]
NOT_DECIDED = ["all arrival times of the C-CANCEL relative to the clearing assignments in _serve_request (thread schedule)"]


def tasks(tier):
    return [S.IsCancelledTask(), S.ReceiveCancelTask(), S.ServeTask(), S.DimseInitTask()]


def replay(rec):
    from pyvc.replay import run_replay
    return run_replay("C23", rec)


LEVEL_TEXT = ("abstract-map contracts: receive_primitive records a C-CANCEL under the message id it names; is_cancelled reports and "
              "consumes exactly the matching id and nothing else; _serve_request drops pending cancels before an operation starts and "
              "when it ends.")
LEVEL_NOTE = "trusted: pyvc, z3; cross-thread timing not decided (sequential reduction)."
TECHNIQUE = "deductive: abstract-map contracts on cancel_req across receive_primitive / is_cancelled / _serve_request"

"""Contracts on DIMSE fragmentation / reassembly (C15) and on 'a data set is announced iff it is
sent' (C16): dimse_messages.DIMSEMessage._generate_pdv_fragments / encode_msg / decode_msg /
primitive_to_message.

Symbolic-length loops are verified by induction: the loop contract's invariant is assumed for an
ARBITRARY iteration, one iteration of the real body is executed (including its `yield`), the invariant
is re-established; the consumer therefore sees an arbitrary i-th element of the generator and states
the per-element postcondition on it (DESIGN A.3 "stream contract").  Consecutive slices
[i*k, min((i+1)*k, n)) for i < N with N*k >= n concatenate to the input (telescoping; stated, not
re-proved by the solver)."""
import ast

import z3

from pyvc.task import Task
from pyvc.interp import Interp, Config, LoopSpec
from pyvc.values import SV, Obj, Env, Ev, ExcVal, PyRaise, ByteArr, Unsupported, BYTES, GenObj, SymSeq
from pyvc.layout import LB, Slice, Raw, Blob, _zi

DM = "pynetdicom.dimse_messages"
GEN = f"{DM}:DIMSEMessage._generate_pdv_fragments"
ENC = f"{DM}:DIMSEMessage.encode_msg"
DEC = f"{DM}:DIMSEMessage.decode_msg"
P2M = f"{DM}:DIMSEMessage.primitive_to_message"


def _zb(x):
    return z3.BoolVal(x) if isinstance(x, bool) else (x.e if isinstance(x, SV) else x)


def ghost_bytes(I, name, min_len=0):
    base = I.input("bytes", name).e
    n = z3.Length(base)
    if min_len:
        I.assume(n >= min_len)
    return base, n, LB([Slice(base, 0, n)])


def ceil_div_facts(n, k, N):
    """N = ceil(n / k) for n >= 0, k >= 1, as linear-in-N facts"""
    return z3.And(N * k >= n, (N - 1) * k < n, N >= 0)


# ---------------------------------------------------------------------------------------------
# _generate_pdv_fragments
# ---------------------------------------------------------------------------------------------
def gen_roles(fi):
    """structural roles: in the for loop, `yield <data>[<off>:<off> + <k>]`"""
    for loop in [n for n in ast.walk(fi.node) if isinstance(n, ast.For)]:
        for n in ast.walk(loop):
            if isinstance(n, ast.Yield) and isinstance(n.value, ast.Subscript) and isinstance(n.value.slice, ast.Slice):
                sl = n.value.slice
                if isinstance(n.value.value, ast.Name) and isinstance(sl.lower, ast.Name) and isinstance(sl.upper, ast.BinOp) \
                        and isinstance(sl.upper.op, ast.Add):
                    names = [x.id for x in (sl.upper.left, sl.upper.right) if isinstance(x, ast.Name)]
                    kname = [x for x in names if x != sl.lower.id]
                    if kname:
                        off_is_target = isinstance(loop.target, ast.Name) and loop.target.id == sl.lower.id
                        return n.value.value.id, sl.lower.id, kname[0], off_is_target
    raise Unsupported("_generate_pdv_fragments: no `yield data[off:off + k]` inside a for loop")


class GenLoop(LoopSpec):
    def __init__(self, data, off, k, off_is_target=False):
        self.data, self.off, self.k, self.off_is_target = data, off, k, off_is_target

    def invariant(self, I, fr):
        g = I.ghost
        if "off_carried" not in g:
            # first evaluation on a path = loop entry: is the offset a variable that lives across iterations?
            g["off_carried"] = (not self.off_is_target) and self.off in fr.locals
        if not g["off_carried"]:
            # the offset is the loop variable itself (`for off in range(0, n, k)`) or is computed afresh in every iteration
            # (`off = i * k`): nothing is carried between iterations; what the i-th fragment is, is stated on the yielded value
            return True
        i = I._num(fr.locals["__idx0"], "int")
        return I._num(fr.locals[self.off], "int") == i * I._num(fr.locals[self.k], "int")

    def havoc(self, I, fr):
        I.ghost["i"] = fr.locals["__idx0"]
        I.ghost["in_loop"] = True

    def on_exit(self, I, fr):
        I.ghost["exit_i"] = fr.locals["__idx0"]


class GenTask(Task):
    name = "_generate_pdv_fragments"
    functions = [GEN]

    def config(self, repo):
        c = Config()
        c.ob_prefix = "C15/"
        data, off, k, off_is_target = gen_roles(repo.func(GEN))
        c.loop_specs[(GEN, 0)] = GenLoop(data, off, k, off_is_target)
        return c

    def body(self, I):
        P = f"C15/{GEN}"
        base, n, lb = ghost_bytes(I, "bytestream")
        fl = I.input("int", "fragment_length")
        I.assume(fl.e >= 0)
        mode = I.choose(3, "fragment_length class")
        if mode == 0:
            I.assume(fl.e == 0)
        elif mode == 1:
            I.assume(z3.And(fl.e >= 1, fl.e <= 6))
        else:
            I.assume(fl.e >= 7)
        k = fl.e - 6
        kind, g = I.run_function(I.repo.func(GEN), [lb, fl])
        assert kind == "return" and isinstance(g, GenObj)
        try:
            ok, first = I.gen_next(g)
        except PyRaise as pr:
            I.ob(f"{P}/raises-ValueError-exactly-for-lengths-1..6", mode == 1 and pr.exc.cls_name == "ValueError",
                 detail=repr(pr.exc))
            return
        I.ob(f"{P}/no-exception-for-0-and-7-and-above", mode != 1)
        if mode == 0:
            I.ob(f"{P}/length-0:yields-the-whole-input-once", ok and LB.of(I, first).is_slice_of(I, base, 0, n))
            if ok:
                ok2, _ = I.gen_next(g)
                I.ob(f"{P}/length-0:exactly-one-fragment", not ok2)
            return
        if mode != 2:
            return
        gi = I.ghost
        if ok:
            # an arbitrary i-th fragment (the loop was entered by induction)
            i = I._num(gi["i"], "int")
            f = LB.of(I, first)
            hi = z3.If((i + 1) * k <= n, (i + 1) * k, n)
            I.ob(f"{P}/i-th-fragment-is-input[i*k:min((i+1)*k,n)]", f.is_slice_of(I, base, i * k, hi))
            ln = I._num(f.sym_len(I), "int")
            I.ob(f"{P}/fragment-length-at-most-max-minus-6-and-at-least-1", z3.And(ln <= k, ln >= 1))
            I.gen_next(g)     # runs the rest of the iteration: invariant re-established, then PathEnd
            raise AssertionError("unreachable: inductive step ends the path")
        # generator exhausted: number of fragments
        N = I._num(gi["exit_i"], "int")
        I.ob(f"{P}/fragment-count-is-ceil(n/k):covers-the-input-no-empty-fragment", ceil_div_facts(n, k, N))


# ---------------------------------------------------------------------------------------------
# encode_msg   (fragment generator replaced by its contract)
# ---------------------------------------------------------------------------------------------
class FragStream:
    """Callee contract of _generate_pdv_fragments as a stream: the j-th next() returns
    base[j*k : min((j+1)*k, n)] for j < N = ceil(n/k) (k = max-6; for max == 0: one fragment, the whole
    input) and raises StopIteration afterwards."""

    def __init__(self, I, base, n, fl, tag):
        self.base, self.n, self.tag = base, n, tag
        self.fl = fl
        self.count = z3.IntVal(0)
        self.whole = None
        # N: the number of fragments the generator yields in all (proved by GenTask: 1 for an unlimited length, else ceil(n/k))
        N = I.fresh("int", f"N_{tag}")
        I.assume(z3.If(fl == 0, N.e == 1, z3.Implies(fl >= 7, ceil_div_facts(n, fl - 6, N.e))))
        self.N = N.e

    def sym_next(self, I, default):
        fl = self.fl
        j = self.count
        if not I.valid(j < self.N):
            if I.branch(SV(j >= self.N, "bool"), "exhausted"):
                I.raise_("StopIteration")
        self.last_j = j
        self.count = j + 1
        if I.branch(SV(fl == 0, "bool"), "max0"):
            return LB([Slice(self.base, 0, self.n)])
        k = fl - 6
        hi = z3.If((j + 1) * k <= self.n, (j + 1) * k, self.n)
        return LB([Slice(self.base, j * k, hi)])


class EncLoop(LoopSpec):
    """`for ii in range(nr_fragments - 1): ... next(stream) ... yield`: as many next() calls as iterations"""

    def __init__(self, which, k):
        self.which = which
        self.k = k

    def invariant(self, I, fr):
        i = I._num(fr.locals[f"__idx{self.k}"], "int")
        g = I.ghost
        if self.which == "file":
            kk = I._num(fr.locals[fr.fi.node.args.args[2].arg], "int") - 6     # 3rd parameter: max PDU length
            return z3.And(g["fp"] == g["foff"] + i * kk, g["reads"] == i)
        st = g["streams"].get(self.which)
        if st is None:
            return False
        # as many next() calls as iterations, and never more than the generator has fragments
        return z3.And(st.count == i, st.count <= st.N, st.count >= 0)

    def havoc(self, I, fr):
        g = I.ghost
        g["in_loop"] = self.which
        g["i"] = fr.locals[f"__idx{self.k}"]
        if self.which == "file":
            g["fp"] = I.fresh("int", "fp").e
            g["reads"] = I.fresh("int", "reads").e
        else:
            g["streams"][self.which].count = I.fresh("int", "count").e

    def on_exit(self, I, fr):
        I.ghost["in_loop"] = None
        I.ghost[f"iters_{self.which}"] = fr.locals[f"__idx{self.k}"]


def encode_config(repo, prefix):
    c = Config()
    c.ob_prefix = prefix

    def gen_contract(I, args, kw):
        data, fl = args[-2], args[-1]
        g = I.ghost
        lb = LB.of(I, data)
        if len(lb.segs) == 1 and isinstance(lb.segs[0], Slice):
            s = lb.segs[0]
            which = g["base_names"].get(str(s.base))
            if which is None or not (I.valid(s.a == 0) and I.valid(s.b == z3.Length(s.base))):
                raise Unsupported("fragment generator called on a value that is not a whole ghost buffer")
        else:
            if not lb.segs:
                # the generator's contract on an empty input: no fragment, except for an unlimited length (0), where the
                # whole (empty) input is yielded once
                st = FragStream(I, z3.Empty(BYTES), z3.IntVal(0), I._num(fl, "int"), "empty")
                g["streams"]["empty-input"] = st
                return st
            raise Unsupported("fragment generator called on a composite value")
        st = FragStream(I, s.base, z3.Length(s.base), I._num(fl, "int"), which)
        g["streams"][which] = st
        return st
    c.summaries[GEN] = gen_contract

    def enc(I, args, kw):
        # dsutils.encode(command_set, True, True): the encoded command set (assumed contract: non-empty bytes)
        I.trace.append(Ev("encode", tuple(args)))
        return I.ghost["cmd_lb"]
    c.summaries["pynetdicom.dsutils:encode"] = enc
    c.ext_models["open"] = lambda I, args, kw: _open_model(I, args, kw)
    # loop ordinals in encode_msg (source order): 0 command fragments, 1 data-set fragments, 2 file fragments
    c.loop_specs[(ENC, 0)] = EncLoop("cmd", 0)
    c.loop_specs[(ENC, 1)] = EncLoop("ds", 1)
    c.loop_specs[(ENC, 2)] = EncLoop("file", 2)

    def env_call(I, env, method, args, kw):
        g = I.ghost
        if env.path == "data_set" and method == "getvalue":
            return g["ds_lb"]
        if env.path == "file":
            if method == "seek":
                off = I._num(args[0], "int")
                wh = args[1] if len(args) > 1 else 0
                if wh == 2:
                    g["fp"] = g["flen"] + off
                elif wh == 0:
                    g["fp"] = off
                else:
                    raise Unsupported("seek whence")
                return SV(g["fp"], "int")
            if method == "read":
                kk = I._num(args[0], "int")
                I.ob(prefix + ENC + "/call:file.read/size-is-non-negative", kk >= 0)
                hi = z3.If(g["fp"] + kk <= g["flen"], g["fp"] + kk, g["flen"])
                r = LB([Slice(g["fbase"], g["fp"], hi)])
                g["last_read"] = (g["fp"], hi)
                g["fp"] = hi
                g["reads"] = g["reads"] + 1
                return r
            if method in ("__enter__",):
                return env
            if method == "__exit__":
                g["closed"] = True
                return None
        return NotImplemented
    c.env_call = env_call
    return c


def _open_model(I, args, kw):
    g = I.ghost
    I.trace.append(Ev("open", tuple(args)))
    f = Env("file")
    return f


def make_message(I, mode):
    """DIMSEMessage pre-state for encode_msg. mode: 'mem' | 'mem-empty' | 'none' | 'file'"""
    g = I.ghost
    g["streams"] = {}
    cbase, cn, clb = ghost_bytes(I, "encoded_command_set", 1)
    g["cmd_base"], g["cmd_n"], g["cmd_lb"] = cbase, cn, clb
    g["base_names"] = {str(cbase): "cmd"}
    msg = Obj(I.repo.cls(f"{DM}:DIMSEMessage"), tag="msg")
    msg.fields.update(context_id=None, command_set=Env("command_set"), _data_set_path=None, _data_set_file=None,
                      encoded_command_set=Env("encoded_command_set"))
    if mode in ("mem", "mem-empty"):
        if mode == "mem":
            dbase, dn, dlb = ghost_bytes(I, "data_set", 1)
        else:
            dbase, dn, dlb = None, 0, b""
        g["ds_base"], g["ds_n"], g["ds_lb"] = dbase, dn, dlb
        if dbase is not None:
            g["base_names"][str(dbase)] = "ds"
        ds = Env("data_set", cls="BytesIO")
        ds.truth = True
        msg.fields["data_set"] = ds
    else:
        msg.fields["data_set"] = None
        if mode == "file":
            fbase = I.input("bytes", "file_content").e
            off = I.input("int", "file_offset")
            g["fbase"], g["flen"] = fbase, z3.Length(fbase)
            I.assume(z3.And(off.e >= 0, off.e <= g["flen"]))
            g["foff"] = off.e
            g["fp"] = z3.IntVal(0)
            g["reads"] = z3.IntVal(0)
            msg.fields["_data_set_path"] = (Env("path"), off)
    return msg


class EncodeTask(Task):
    functions = [ENC]

    def __init__(self, mode, prefix="C15/"):
        self.mode = mode
        self.prefix = prefix
        self.name = f"encode_msg/{mode}"

    def config(self, repo):
        return encode_config(repo, self.prefix)

    def body(self, I):
        P = f"{self.prefix}{ENC}"
        g = I.ghost
        msg = make_message(I, self.mode)
        ctx = I.input("int", "context_id")
        I.assume(z3.And(ctx.e >= 1, ctx.e <= 255))
        mx = I.input("int", "max_pdu_length")
        I.assume(z3.Or(mx.e == 0, mx.e >= 7))            # the property's quantifier: 0 or 7 and above
        kind, gen = I.run_function(I.repo.func(ENC), [msg, ctx, mx])
        assert isinstance(gen, GenObj)
        seen = []
        while True:
            try:
                ok, pd = I.gen_next(gen)
            except PyRaise as pr:
                I.ob(f"{P}/no-exception", False, detail=repr(pr.exc))
                return
            if not ok:
                break
            seen.append(pd)
            self.check_yield(I, P, pd, ctx, mx, msg)
        I.ob(f"{P}/no-exception", True)
        # ---- end of message: everything was sent
        cmd = g["streams"].get("cmd")
        I.ob(f"{P}/all-command-fragments-sent", cmd is not None and self._all_sent(I, cmd, mx))
        if self.mode == "mem":
            ds = g["streams"].get("ds")
            I.ob(f"{P}/all-data-set-fragments-sent", ds is not None and self._all_sent(I, ds, mx))
        if self.mode in ("mem-empty", "none"):
            I.ob(f"{P}/no-data-fragments-when-there-is-no-data", "ds" not in g["streams"] and
                 all(getattr(p, "_part", None) == "cmd" for p in seen), detail=repr([getattr(p, "_part", None) for p in seen]))
        if self.mode == "file":
            I.ob(f"{P}/file-read-from-its-offset-to-the-end", g["fp"] == g["flen"])
            I.ob(f"{P}/file-closed", g.get("closed") is True)
        I.ob(f"{P}/context-id-recorded", I.eq(msg.fields.get("context_id"), ctx))

    def _all_sent(self, I, st, mx):
        k = mx.e - 6
        return z3.If(mx.e == 0, st.count == 1, z3.And(st.count * k >= st.n, (st.count - 1) * k < st.n))

    def check_yield(self, I, P, pd, ctx, mx, msg):
        g = I.ghost
        ok_shape = isinstance(pd, Obj) and pd.cls.name == "P_DATA"
        pdvs = pd.fields.get("_presentation_data_value_list") if ok_shape else None
        I.ob(f"{P}/each-P-DATA-carries-exactly-one-PDV", ok_shape and isinstance(pdvs, list) and len(pdvs) == 1
             and isinstance(pdvs[0], tuple) and len(pdvs[0]) == 2, detail=repr(pdvs))
        if not (ok_shape and isinstance(pdvs, list) and len(pdvs) == 1):
            return
        cid, val = pdvs[0]
        I.ob(f"{P}/PDV-context-id-is-the-requested-one", I.eq(cid, ctx))
        v = LB.of(I, val)
        hdr = v.sym_index(I, 0)
        payload = v.sym_slice(I, 1, None, None)
        plen = I._num(payload.sym_len(I), "int")
        # PDV item = 4 (length) + 1 (context id) + 1 (header) + payload  ->  PDV list length = 6 + |payload|
        I.ob(f"{P}/PDV-list-length-at-most-peer-maximum", z3.Or(mx.e == 0, 6 + plen <= mx.e))
        # which part does the payload come from, and which fragment is it?
        part = None
        if len(payload.segs) == 1 and isinstance(payload.segs[0], Slice):
            part = g["base_names"].get(str(payload.segs[0].base)) or ("file" if self.mode == "file" and payload.segs[0].base.eq(g["fbase"]) else None)
        elif not payload.segs and self.mode == "file":
            part = "file"
        I.ob(f"{P}/payload-is-a-fragment-of-the-command-set-or-of-the-data-set", part is not None, detail=repr(payload))
        if part is None:
            return
        pd._part = part
        if part in ("cmd", "ds"):
            st = g["streams"][part]
            k = mx.e - 6
            last = z3.If(mx.e == 0, z3.BoolVal(True), (st.count) * k >= st.n)   # st.count = j+1 fragments handed out
            want_hdr = z3.If(last, 2, 0) + (1 if part == "cmd" else 0)
            I.ob(f"{P}/control-header:command-bit-and-last-bit-are-exact", I._num(hdr, "int") == want_hdr,
                 detail=f"part={part}")
            if part == "ds":
                c = g["streams"]["cmd"]
                I.ob(f"{P}/data-fragments-only-after-the-last-command-fragment",
                     z3.If(mx.e == 0, c.count == 1, c.count * k >= c.n))
        else:
            a, b = g["last_read"]
            remaining_after = g["flen"] - b
            want_hdr = z3.If(remaining_after == 0, 2, 0)
            I.ob(f"{P}/control-header:command-bit-and-last-bit-are-exact", I._num(hdr, "int") == want_hdr, detail="part=file")
            I.ob(f"{P}/file-fragment-is-the-next-unsent-bytes", payload.is_slice_of(I, g["fbase"], a, b) if payload.segs else a == b)
            c = g["streams"]["cmd"]
            kk = mx.e - 6
            I.ob(f"{P}/data-fragments-only-after-the-last-command-fragment",
                 z3.If(mx.e == 0, c.count == 1, c.count * kk >= c.n))


# ---------------------------------------------------------------------------------------------
# decode_msg: one PDV step, by induction over the PDV list of any P-DATA primitive (any regrouping)
# ---------------------------------------------------------------------------------------------
class DecLoop(LoopSpec):
    """Invariant over the PDVs of one primitive: the two ghost buffers hold what was written so far (no
    relation between iterations other than through the buffers) and no 'message complete' was signalled."""

    def invariant(self, I, fr):
        return True

    def havoc(self, I, fr):
        g = I.ghost
        g["cmd_buf"] = I.fresh("bytes", "cmd_buf").e
        g["ds_buf"] = I.fresh("bytes", "ds_buf").e
        g["cmd_buf0"], g["ds_buf0"] = g["cmd_buf"], g["ds_buf"]
        g["in_loop"] = True
        g["i"] = fr.locals["__idx0"]
        # the message object's mutable fields may have been changed by earlier PDVs of this primitive
        msg = fr.locals.get(fr.fi.node.args.args[0].arg)
        if isinstance(msg, Obj):
            msg.fields["context_id"] = I.opaque("context_id", nonnull=False)
            msg.fields["command_set"] = I.opaque("command_set")
            g["ctx_at_step_start"] = msg.fields["context_id"]
        g["msg"] = msg

    def after_body(self, I, fr):
        I.ghost["check_step"](I, "continue", None)

    def on_exit(self, I, fr):
        I.ghost["in_loop"] = False


def decode_config(repo, prefix="C15/"):
    c = Config()
    c.ob_prefix = prefix
    c.loop_specs[(DEC, 0)] = DecLoop()

    def env_call(I, env, method, args, kw):
        g = I.ghost
        if env.path in ("encoded_command_set", "data_set") and method == "write":
            key = "cmd_buf" if env.path == "encoded_command_set" else "ds_buf"
            g[key] = z3.Concat(g[key], I.z(args[0]))
            g.setdefault("writes", []).append((key, args[0]))
            return None
        if env.path == "data_set_file":
            if method == "write":
                g.setdefault("writes", []).append(("file", args[0]))
                return None
        if env.path == "data_set_file.file" and method == "flush":
            return None
        return NotImplemented
    c.env_call = env_call

    def dec(I, args, kw):
        g = I.ghost
        g["decoded_from"] = args[0]
        if I.choose(2, "dsutils.decode") == 1:
            raise PyRaise(ExcVal("Exception", ("cannot decode command set",)))
        cs = Env("decoded_command_set")
        cf = I.input("int", "CommandField")
        cds = I.input("int", "CommandDataSetType")
        cs.attrs["CommandField"] = cf
        cs.attrs["CommandDataSetType"] = cds
        g["cs"] = cs
        return cs
    c.summaries["pynetdicom.dsutils:decode"] = dec
    c.module_consts[("pynetdicom._config", "STORE_RECV_CHUNKED_DATASET")] = False
    return c


class DecodeStepTask(Task):
    name = "decode_msg/one-PDV-step"
    functions = [DEC]

    def __init__(self, prefix="C15/"):
        self.prefix = prefix

    def config(self, repo):
        return decode_config(repo, self.prefix)

    def body(self, I):
        P = f"{self.prefix}{DEC}"
        g = I.ghost
        g["cmd_buf"] = I.input("bytes", "cmd_buf_in").e
        g["ds_buf"] = I.input("bytes", "ds_buf_in").e
        msg = Obj(I.repo.cls(f"{DM}:DIMSEMessage"), tag="msg")
        msg.fields.update(context_id=None, command_set=Env("command_set"), _data_set_path=None, _data_set_file=None,
                          encoded_command_set=Env("encoded_command_set"), data_set=Env("data_set"))
        n = I.input("int", "nr_pdvs")
        I.assume(n.e >= 0)
        ctx_f = z3.Function("pdv_ctx", z3.IntSort(), z3.IntSort())
        dat_f = z3.Function("pdv_data", z3.IntSort(), BYTES)
        pdvs = SymSeq("pdvs", n.e, lambda i: (SV(ctx_f(i), "int"), LB([Blob(dat_f(i))])))
        prim = Obj(I.repo.cls("pynetdicom.pdu_primitives:P_DATA"), tag="pdata")
        prim.fields["_presentation_data_value_list"] = pdvs
        def check_step(I_, how, val):
            i = I._num(g["i"], "int")
            d = dat_f(i)
            dl = z3.Length(d)
            h = d[0]
            is_cmd = (h % 2) == 1
            is_last = ((h / 2) % 2) == 1
            writes = g.get("writes", [])
            payload = z3.SubSeq(d, 1, dl - 1)
            # exactly one buffer grows, by exactly the payload, in order
            cmd_ok = z3.If(is_cmd, g["cmd_buf"] == z3.Concat(g["cmd_buf0"], payload), g["cmd_buf"] == g["cmd_buf0"])
            ds_ok = z3.If(is_cmd, g["ds_buf"] == g["ds_buf0"], g["ds_buf"] == z3.Concat(g["ds_buf0"], payload))
            I.ob(f"{P}/payload-appended-to-exactly-the-buffer-its-header-names", z3.And(cmd_ok, ds_ok), detail=f"writes={len(writes)}")
            # the presentation context a message is received on is the one its command set arrived on (C19 decides on it
            # whether the request may reach a handler): only the last command fragment sets it, a data-set fragment never does
            now, before = g["msg"].fields.get("context_id"), g.get("ctx_at_step_start")
            set_to_this = _zb(I.eq(now, SV(ctx_f(i), "int")))
            unchanged = z3.BoolVal(now is before)
            for pfx in (P, f"C19/{DEC}"):
                I.ob(f"{pfx}/the-message's-context-id-is-set-by-the-last-command-fragment-and-by-nothing-else",
                     z3.If(z3.And(is_cmd, is_last), set_to_this, unchanged), detail=f"before {before!r} now {now!r}")
            cs = g.get("cs")
            if how == "return":
                val = I.as_bool(val)
                I.ob(f"{P}/returns-a-bool", val is True or val is False, detail=repr(val))
                if val is True:
                    cdst = cs.attrs["CommandDataSetType"].e if cs is not None else None
                    done_ok = z3.And(is_last, is_cmd, cdst == 0x0101) if cdst is not None else z3.And(is_last, z3.Not(is_cmd))
                    I.ob(f"{P}/True-only-at-a-last-fragment:last-data-or-last-command-without-data-set", done_ok)
                    if cs is not None:
                        I.ob(f"{P}/context-id-taken-from-the-last-command-fragment",
                             I.eq(g["msg"].fields.get("context_id"), SV(ctx_f(i), "int")))
                        I.ob(f"{P}/command-set-decoded-from-the-reassembled-command-buffer",
                             isinstance(g.get("decoded_from"), Env) and g["decoded_from"].path == "encoded_command_set")
                else:
                    I.ob(f"{P}/False-inside-the-loop-is-never-returned", False, detail="return False from inside the PDV loop")
            else:
                # body finished without returning: this PDV did not complete the message
                if cs is None:
                    I.ob(f"{P}/continues-only-if-not-complete", z3.Not(is_last))
                else:
                    I.ob(f"{P}/continues-only-if-not-complete",
                         z3.And(is_cmd, is_last, cs.attrs["CommandDataSetType"].e != 0x0101))
        g["check_step"] = check_step
        kind, val = I.run_function(I.repo.func(DEC), [msg, prim, Env("assoc")])
        if not g.get("in_loop"):
            # loop not entered (by induction this is the exit path: all PDVs processed, none was last)
            I.ob(f"{P}/returns-False-when-no-PDV-was-a-last-fragment", kind == "return" and I.as_bool(val) is False, detail=f"{kind}:{val!r}")
            return
        if kind == "raise":
            # which inputs make decode_msg raise is C02's business (empty PDV value, undecodable command set,
            # unknown command field); recorded there
            I.ob(f"C02/{DEC}/raise-sites", True, detail=repr(val))
            return
        check_step(I, "return", val)


# ---------------------------------------------------------------------------------------------
# primitive_to_message  (C16): CommandDataSetType announces a data set iff encode_msg sends one
# ---------------------------------------------------------------------------------------------
class CmdLoop(LoopSpec):
    """`for elem in self.command_set:` copies parameters into command-set elements.  Abstracted: the body
    may only touch the loop variable, locals and self.command_set (checked syntactically)."""
    skip = True
    frame_name = "touches-only-command-set-elements"

    def frame_ok(self, I, loop, fr):
        selfname = fr.fi.node.args.args[0].arg
        tgt = loop.target.id if isinstance(loop.target, ast.Name) else None
        local = set(I.assigned_names(loop.body)) | {tgt}
        for n in ast.walk(ast.Module(body=loop.body, type_ignores=[])):
            targets = []
            if isinstance(n, ast.Assign):
                targets = n.targets
            elif isinstance(n, (ast.AugAssign, ast.AnnAssign)):
                targets = [n.target]
            elif isinstance(n, ast.Delete):
                targets = n.targets
            for t in targets:
                root = t
                while isinstance(root, (ast.Attribute, ast.Subscript)):
                    root = root.value
                if isinstance(t, ast.Name):
                    continue
                if isinstance(root, ast.Name) and root.id in local:
                    continue
                # self.command_set[...] / self.command_set.X
                chain = ast.unparse(t)
                if chain.startswith(f"{selfname}.command_set"):
                    continue
                return False
            if isinstance(n, ast.Call) and isinstance(n.func, ast.Name) and n.func.id in ("setattr", "delattr"):
                a0 = ast.unparse(n.args[0]) if n.args else ""
                if not (a0 in local or a0.startswith(f"{selfname}.command_set")):
                    return False
        return True


def bytesio_env(I, content_lb, tag, pos=0):
    """io.BytesIO: content plus a stream position (a parameter stream handed in by the application may be positioned anywhere
    in 0..len: freshly constructed, written to, or already read)"""
    e = Env(tag, cls="io.BytesIO")
    e.kind = "BytesIO"
    e.data["content"] = content_lb
    e.data["pos"] = pos
    return e


def _bytesio_call(I, env, method, args, kw):
    """assumed contract of io.BytesIO's cursor methods (CPython): getvalue() ignores the position; read/tell/seek use it"""
    content = env.data["content"]
    n = I._num(content.sym_len(I), "int")
    pos = I._num(env.data.get("pos", 0), "int")
    if method == "tell":
        return SV(pos, "int")
    if method == "seek":
        off = I._num(args[0], "int")
        whence = args[1] if len(args) > 1 else kw.get("whence", 0)
        if whence not in (0, 1, 2):
            raise Unsupported("BytesIO.seek with a symbolic whence")
        newp = off if whence == 0 else (pos + off if whence == 1 else n + off)
        if whence == 0 and not I.valid(newp >= 0):
            if I.branch(SV(newp < 0, "bool"), "seek to a negative position"):
                I.raise_("ValueError", "negative seek value")
        env.data["pos"] = SV(z3.If(newp < 0, 0, newp), "int")
        return env.data["pos"]
    if method == "read":
        k = args[0] if args else kw.get("size", -1)
        lo = z3.If(pos > n, n, pos)
        if k is None or (isinstance(k, int) and k < 0):
            hi = n
        else:
            ke = I._num(k, "int")
            hi = z3.If(lo + ke > n, n, lo + ke)
        out = content.sym_slice(I, SV(lo, "int"), SV(hi, "int"), None)
        env.data["pos"] = SV(z3.If(pos > n, pos, hi), "int")
        return out
    return NotImplemented


def p2m_config(repo, prefix="C16/"):
    c = Config()
    c.ob_prefix = prefix
    c.loop_specs[(P2M, 0)] = CmdLoop()
    c.summaries[f"{DM}:DIMSEMessage._set_command_group_length"] = lambda I, a, k: None

    def bio(I, args, kw):
        return bytesio_env(I, LB.of(I, args[0]) if args else LB(), "new-BytesIO")
    c.ext_models["io.BytesIO"] = bio

    def truth_hook(I, v):
        if isinstance(v, Env) and v.kind == "BytesIO":
            return True                 # io.BytesIO defines neither __bool__ nor __len__ (A-LIB)
        return NotImplemented
    c.truth_hook = truth_hook

    def env_call(I, env, method, args, kw):
        if env.kind == "BytesIO":
            if method == "getvalue":
                return env.data["content"]
            if method == "getbuffer":
                b = Env(env.path + ".buffer")
                b.attrs["nbytes"] = env.data["content"].sym_len(I)
                return b
            if method in ("tell", "seek", "read"):
                return _bytesio_call(I, env, method, args, kw)
        return NotImplemented
    c.env_call = env_call
    return c


class P2MTask(Task):
    functions = [P2M]

    def __init__(self, msg_cls, prefix="C16/"):
        self.msg_cls = msg_cls
        self.prefix = prefix
        self.name = f"primitive_to_message/{msg_cls}"

    def config(self, repo):
        return p2m_config(repo, self.prefix)

    def body(self, I):
        P = f"{self.prefix}{P2M}"
        ns = I.module_ns(I.repo.module(DM))
        kwtab = ns["_DATASET_KEYWORDS"]
        kw = kwtab.get(self.msg_cls)
        msg = Obj(I.repo.cls(f"{DM}:{self.msg_cls}"), tag="msg")
        msg.fields.update(context_id=None, command_set=Env("command_set"), _data_set_path=None, _data_set_file=None,
                          encoded_command_set=Env("encoded_command_set"), data_set=bytesio_env(I, LB(), "init-BytesIO"))
        prim_name = self.msg_cls[:self.msg_cls.rfind("_R")]
        prim = Obj(ns["_MSG_TO_PRIMITIVE"][prim_name].ci, tag="primitive")
        # data-set parameter: None | empty BytesIO | non-empty BytesIO
        ds_mode = I.choose(3, "dataset") if kw else 0
        if kw:
            if ds_mode == 0:
                dsv = None
            elif ds_mode == 1:
                dsv = bytesio_env(I, LB(), "param-BytesIO-empty")
            else:
                base, n, lb = ghost_bytes(I, "dataset_bytes", 1)
                # the stream position of a data-set parameter is whatever the application left it at
                pos = I.input("int", "stream_position")
                I.assume(z3.And(pos.e >= 0, pos.e <= n))
                dsv = bytesio_env(I, lb, "param-BytesIO", pos)
            # store through the real property getter's backing field: find it by reading it back
            prim.fields["__ds__"] = dsv
        # file-backed (chunked send): only C-STORE requests, and only with the data-set parameter None (call site:
        # Association.send_c_store)
        path_mode = I.choose(3, "_dataset_path") if (self.msg_cls == "C_STORE_RQ" and ds_mode == 0) else I.choose(2, "_dataset_path")
        if path_mode == 1:
            prim.fields["_dataset_path"] = None
        elif path_mode == 2:
            off = I.input("int", "offset")
            I.assume(off.e >= 0)
            prim.fields["_dataset_path"] = (Env("path"), off)

        def obj_getattr(I_, o, name):
            if o is prim and kw and name == kw:
                return prim.fields["__ds__"]
            if o is prim and name == "_dataset_path" and "_dataset_path" not in prim.fields:
                return None          # class attribute default on DIMSEPrimitive
            return NotImplemented
        I.cfg.obj_getattr = obj_getattr
        kind, val = I.run_function(I.repo.func(P2M), [msg, prim])
        I.ob(f"{P}/no-exception", kind == "return", detail=f"{kind}:{val!r}")
        if kind != "return":
            return
        cs = msg.fields["command_set"]
        cdt = cs.attrs.get("CommandDataSetType")
        I.ob(f"{P}/CommandDataSetType-is-set", cdt is not None)
        if cdt is None:
            return
        announces = I.neg(I.eq(cdt, 0x0101))
        # what encode_msg will do with this message (its contract, C15): data fragments are sent iff
        #   data_set is not None and data_set.getvalue() is non-empty, or data_set is None and _data_set_path is not None
        ds = msg.fields.get("data_set")
        path = msg.fields.get("_data_set_path")
        if ds is not None:
            if isinstance(ds, Env) and ds.kind == "BytesIO":
                ln = ds.data["content"].sym_len(I)
                sends = (ln > 0) if isinstance(ln, int) else (ln.e > 0)
            else:
                sends = None
        else:
            sends = path is not None
        I.ob(f"{P}/data_set-is-None-or-a-BytesIO", sends is not None, detail=repr(ds))
        if sends is None:
            return
        a = announces if not isinstance(announces, bool) else z3.BoolVal(announces)
        s_ = sends if not isinstance(sends, bool) else z3.BoolVal(sends)
        I.ob(f"{P}/data-set-announced-iff-data-fragments-are-sent", a == s_,
             detail=f"{self.msg_cls}: dataset-mode={ds_mode} path-mode={path_mode} CommandDataSetType={cdt!r}")
        I.ob(f"{P}/CommandDataSetType-is-0x0001-or-0x0101", z3.Or(_b(I.eq(cdt, 0x0101)), _b(I.eq(cdt, 0x0001))))


def _b(t):
    return z3.BoolVal(t) if isinstance(t, bool) else t


# ---------------------------------------------------------------------------------------------
# DIMSEServiceProvider.send_msg / maximum_pdu_size: the glue between a primitive and the wire (C15, C16)
# ---------------------------------------------------------------------------------------------
DIMSE = "pynetdicom.dimse"
SENDMSG = f"{DIMSE}:DIMSEServiceProvider.send_msg"
MAXPDU = f"{DIMSE}:DIMSEServiceProvider.maximum_pdu_size.fget"
PRIMS = ["C_ECHO", "C_STORE", "C_FIND", "C_MOVE", "C_GET", "C_CANCEL", "N_EVENT_REPORT", "N_GET", "N_SET", "N_ACTION", "N_CREATE", "N_DELETE"]


class SendMsgTask(Task):
    """send_msg: the message object is the request / response message class of the primitive's own type (a primitive with a
    Message ID Being Responded To is a response; C-CANCEL is always the C-CANCEL-RQ), it is filled from THAT primitive, carries
    the given context id, is fragmented with the PEER's maximum length, and every P-DATA the fragmenter yields is handed to the
    provider in order, after one EVT_DIMSE_SENT notification.  maximum_pdu_size is the maximum length the peer announced
    (the acceptor's for a requestor and vice versa)."""
    name = "DIMSEServiceProvider.send_msg"
    functions = [SENDMSG, MAXPDU]
    shard = False

    def __init__(self, prefix="C15/"):
        self.prefix = prefix

    def config(self, repo):
        c = Config()
        c.ob_prefix = self.prefix

        def trigger(I, args, kw):
            ev = args[1]
            name = ev.fields.get("name") if isinstance(ev, Obj) else repr(ev)
            I.trace.append(Ev("evt", (name, args[2] if len(args) > 2 else None)))
        c.summaries["pynetdicom.events:trigger"] = trigger
        for cls in I_MSG_CLASSES(repo):
            c.summaries[f"{DM}:{cls}"] = (lambda cls: lambda I, a, k: I.ghost["new_msg"](I, cls))(cls)

        def env_call(I, env, method, args, kw):
            g = I.ghost
            if env.path.startswith("msg:") and method == "primitive_to_message":
                I.trace.append(Ev("primitive_to_message", (env, args[0])))
                return None
            if env.path.startswith("msg:") and method == "encode_msg":
                I.trace.append(Ev("encode_msg", (env,) + tuple(args)))
                n = I.fresh("int", "n_pdata").e
                I.assume(n >= 1)
                memo = {}

                def pd(i):
                    k = str(z3.simplify(i))
                    if k not in memo:
                        memo[k] = Env(f"pdata[{k}]")
                    return memo[k]
                g["pdatas"] = SymSeq("pdatas", n, pd)
                return g["pdatas"]
            if env.path == "dimse.dul" and method == "send_pdu":
                I.trace.append(Ev("send_pdu", (args[0],)))
                return None
            return NotImplemented
        c.env_call = env_call
        fi = repo.func(SENDMSG)
        loops = sorted([n for n in ast.walk(fi.node) if isinstance(n, (ast.For, ast.While))], key=lambda n: (n.lineno, n.col_offset))
        if len(loops) != 1 or not isinstance(loops[0], ast.For) or not isinstance(loops[0].target, ast.Name):
            raise Unsupported("send_msg: expected exactly one for-loop (over the P-DATA primitives)")
        task = self

        class SendLoop(LoopSpec):
            def havoc(self, I, fr):
                I.ghost["mark"] = len(I.trace)
                I.ghost["loop_over"] = self.seq

            def after_body(self, I, fr):
                sent = [e for e in I.trace[I.ghost["mark"]:] if e.name == "send_pdu"]
                x = fr.locals[loops[0].target.id]
                I.ob(f"{task.prefix}{SENDMSG}/each-P-DATA-of-the-fragmenter-is-sent-once-in-order", len(sent) == 1 and sent[0].args[0] is x,
                     detail=repr(sent))
        c.loop_specs[(SENDMSG, 0)] = SendLoop()
        return c

    def body(self, I):
        P = f"{self.prefix}{SENDMSG}"
        g = I.ghost
        made = []

        def new_msg(I_, cls):
            m = Env(f"msg:{cls}")
            made.append((cls, m))
            return m
        g["new_msg"] = new_msg
        me = Env("dimse", cls=I.repo.cls(f"{DIMSE}:DIMSEServiceProvider"))
        assoc = Env("dimse.assoc")
        me.attrs.update(assoc=assoc, dul=Env("dimse.dul"))
        is_rq = I.input("bool", "is_requestor")
        assoc.attrs.update(is_requestor=is_rq, is_acceptor=SV(z3.Not(is_rq.e), "bool"))
        rq_max, ac_max = I.input("int", "requestor_maximum_length"), I.input("int", "acceptor_maximum_length")
        rq, ac = Env("dimse.assoc.requestor"), Env("dimse.assoc.acceptor")
        rq.attrs["maximum_length"], ac.attrs["maximum_length"] = rq_max, ac_max
        assoc.attrs.update(requestor=rq, acceptor=ac)
        pname = PRIMS[I.choose(len(PRIMS), "primitive type")]
        prim = Env("primitive", cls=I.repo.cls(f"pynetdicom.dimse_primitives:{pname}"))
        is_rsp = I.choose(2, "MessageIDBeingRespondedTo present") == 0
        prim.attrs["MessageIDBeingRespondedTo"] = I.input("int", "MessageIDBeingRespondedTo") if is_rsp else None
        cid = I.input("int", "context_id")
        kind, val = I.run_function(I.repo.func(SENDMSG), [me, prim, cid])
        if pname == "C_CANCEL" and not is_rsp:
            # not a message pynetdicom builds: a C-CANCEL always names the operation it cancels
            return
        I.ob(f"{P}/no-exception", kind == "return", detail=f"{kind}:{val!r}")
        if kind != "return":
            return
        tr = I.trace
        want = "C_CANCEL_RQ" if pname == "C_CANCEL" else f"{pname}_{'RSP' if is_rsp else 'RQ'}"
        I.ob(f"{P}/the-message-class-is-the-request-or-response-message-of-the-primitive's-type", [c for c, _ in made] == [want],
             detail=f"{pname} ({'response' if is_rsp else 'request'}) -> {[c for c, _ in made]}")
        if len(made) != 1:
            return
        msg = made[0][1]
        p2m = [e for e in tr if e.name == "primitive_to_message"]
        enc = [e for e in tr if e.name == "encode_msg"]
        evs = [e for e in tr if e.name == "evt"]
        I.ob(f"{P}/the-message-is-filled-from-this-primitive-once", len(p2m) == 1 and p2m[0].args == (msg, prim))
        I.ob(f"{P}/one-EVT_DIMSE_SENT-with-the-message-before-anything-is-sent",
             len(evs) == 1 and evs[0].args[0] == "EVT_DIMSE_SENT" and isinstance(evs[0].args[1], dict) and evs[0].args[1].get("message") is msg
             and (not enc or tr.index(evs[0]) < tr.index(enc[0])))
        ok_enc = len(enc) == 1 and enc[0].args[0] is msg and len(enc[0].args) == 3 and enc[0].args[1] is cid
        I.ob(f"{P}/the-message-is-fragmented-once-for-the-given-context-id", ok_enc, detail=repr(enc))
        if ok_enc:
            peer = z3.If(is_rq.e, ac_max.e, rq_max.e)
            I.ob(f"{P}/fragmented-with-the-maximum-length-the-PEER-announced", I._num(enc[0].args[2], "int") == peer)
        I.ob(f"{P}/the-send-loop-ranges-over-everything-the-fragmenter-yields", g.get("loop_over") is g.get("pdatas"))


def I_MSG_CLASSES(repo):
    out = []
    for p in PRIMS:
        for suf in ("RQ", "RSP"):
            n = f"{p}_{suf}"
            try:
                repo.cls(f"{DM}:{n}")
                out.append(n)
            except Exception:
                pass
    return out


# ---------------------------------------------------------------------------------------------
# decode_msg, chunked receive (STORE_RECV_CHUNKED_DATASET): the data set of a C-STORE-RQ goes to a file (C25)
# ---------------------------------------------------------------------------------------------
class CxMap:
    """assoc._accepted_cx: looking a context id up gives THAT context (an object that remembers the key)"""

    def __init__(self):
        self.lookups = []

    def sym_index(self, I, key):
        self.lookups.append(key)
        cx = Env(f"accepted_cx[{len(self.lookups) - 1}]")
        cx.data["key"] = key
        ts = Env(f"{cx.path}.transfer_syntax[0]")
        ts.data["of_key"] = key
        cx.attrs["transfer_syntax"] = [ts]
        return cx


class DecodeChunkedTask(Task):
    """decode_msg with chunked receive on: the last command fragment of a C-STORE-RQ that announces a data set opens a DICOM file -
    128-byte preamble, 'DICM', File Meta with the SOP class/instance of the command set and the transfer syntax OF THE
    PRESENTATION CONTEXT THE MESSAGE ARRIVED ON (the data-set bytes that follow are in that syntax and go to the file unchanged) -
    and every data-set fragment's payload is appended to that file, not to the in-memory buffer."""
    name = "decode_msg/chunked-receive"
    functions = [DEC]
    shard = False

    def __init__(self, prefix="C25/"):
        self.prefix = prefix

    def config(self, repo):
        c = decode_config(repo, self.prefix)
        c.module_consts[("pynetdicom._config", "STORE_RECV_CHUNKED_DATASET")] = True
        base_call = c.env_call

        def env_call(I, env, method, args, kw):
            g = I.ghost
            if env.path == "data_set_file" and method == "write":
                g.setdefault("file_writes", []).append(args[0])
                I.trace.append(Ev("file.write", (args[0],)))
                return None
            return base_call(I, env, method, args, kw)
        c.env_call = env_call

        def ntf(I, a, k):
            I.trace.append(Ev("NamedTemporaryFile", (dict(k),)))
            f = Env("data_set_file")
            f.truth = True
            f.attrs["name"] = "/tmp/x.dcm"
            f.attrs["file"] = Env("data_set_file.file")
            return f
        c.ext_models["tempfile.NamedTemporaryFile"] = ntf
        c.ext_models["pathlib.Path"] = lambda I, a, k: ("Path", a[0])
        c.ext_models["pydicom.filewriter.write_file_meta_info"] = lambda I, a, k: I.trace.append(Ev("write_file_meta_info", (a[0], a[1])))

        def cfm(I, a, k):
            names = ["sop_class_uid", "sop_instance_uid", "transfer_syntax"]
            ar = dict(zip(names, a))
            ar.update(k)
            m = Env("file_meta")
            m.data["args"] = ar
            return m
        c.summaries["pynetdicom.dsutils:create_file_meta"] = cfm

        def dec(I, args, kw):
            g = I.ghost
            cs = Env("decoded_command_set")
            cds = I.input("int", "CommandDataSetType")
            I.assume(cds.e != 0x0101)
            cs.attrs.update(CommandField=0x0001, CommandDataSetType=cds, AffectedSOPClassUID=Env("cs.AffectedSOPClassUID"),
                            AffectedSOPInstanceUID=Env("cs.AffectedSOPInstanceUID"))
            g["cs"] = cs
            return cs
        c.summaries["pynetdicom.dsutils:decode"] = dec
        return c

    def body(self, I):
        P = f"{self.prefix}{DEC}"
        g = I.ghost
        g["cmd_buf"] = I.input("bytes", "cmd_buf_in").e
        g["ds_buf"] = I.input("bytes", "ds_buf_in").e
        which = I.choose(2, "fragment")        # 0: the last command fragment; 1: a data-set fragment while the file is open
        msg = Obj(I.repo.cls(f"{DM}:DIMSEMessage"), tag="msg")
        f_open = Env("data_set_file")
        f_open.truth = True
        f_open.attrs["file"] = Env("data_set_file.file")
        msg.fields.update(context_id=None, command_set=Env("command_set"), _data_set_path=None, _data_set_file=f_open if which == 1 else None,
                          encoded_command_set=Env("encoded_command_set"), data_set=Env("data_set"))
        ctx = I.input("int", "pdv_context_id")
        payload = I.input("bytes", "payload")
        last = I.choose(2, "last fragment") == 1 if which == 1 else True
        header = (3 if which == 0 else (2 if last else 0))
        data = LB([Raw(bytes([header])), Blob(payload.e)])
        prim = Obj(I.repo.cls("pynetdicom.pdu_primitives:P_DATA"), tag="pdata")
        prim.fields["_presentation_data_value_list"] = [(ctx, data)]
        g["check_step"] = lambda *a: None
        assoc = Env("assoc")
        cxmap = CxMap()
        assoc.attrs["_accepted_cx"] = cxmap
        kind, val = I.run_function(I.repo.func(DEC), [msg, prim, assoc])
        I.ob(f"{P}/chunked:no-exception", kind == "return", detail=f"{kind}:{val!r}")
        if kind != "return":
            return
        fw = g.get("file_writes", [])
        if which == 1:
            mem = [w for w in g.get("writes", []) if w[0] == "ds_buf"]
            ok = len(fw) == 1 and not mem and _zb(I.eq(fw[0], LB([Blob(payload.e)])))
            I.ob(f"{P}/chunked:a-data-set-fragment's-payload-is-appended-to-the-open-file-and-not-kept-in-memory", ok, detail=f"{fw!r} {mem!r}")
            I.ob(f"{P}/chunked:complete-exactly-at-the-last-data-set-fragment", I.as_bool(val) is last, detail=repr(val))
            return
        names = [e.name for e in I.trace if e.name in ("NamedTemporaryFile", "file.write", "write_file_meta_info")]
        # in however many writes: what precedes the File Meta is exactly the 128 zero bytes and 'DICM'
        head = b"".join(w for w in fw if isinstance(w, (bytes, bytearray))) if all(isinstance(w, (bytes, bytearray)) for w in fw) else None
        I.ob(f"{P}/chunked:the-file-starts-with-the-128-byte-preamble-and-DICM-followed-by-the-File-Meta",
             names[:1] == ["NamedTemporaryFile"] and names[-1:] == ["write_file_meta_info"] and names.count("write_file_meta_info") == 1
             and names.count("NamedTemporaryFile") == 1 and head == b"\x00" * 128 + b"DICM", detail=f"{names} {fw!r}")
        metas = [e for e in I.trace if e.name == "write_file_meta_info"]
        if len(metas) != 1 or not isinstance(metas[0].args[1], Env) or "args" not in metas[0].args[1].data:
            I.ob(f"{P}/chunked:the-File-Meta-is-built-by-create_file_meta", False, detail=repr(metas))
            return
        ar = metas[0].args[1].data["args"]
        cs = g["cs"]
        I.ob(f"{P}/chunked:the-File-Meta-names-the-SOP-class-and-instance-of-the-command-set",
             ar.get("sop_class_uid") is cs.attrs["AffectedSOPClassUID"] and ar.get("sop_instance_uid") is cs.attrs["AffectedSOPInstanceUID"], detail=repr(ar))
        ts = ar.get("transfer_syntax")
        of_key = ts.data.get("of_key") if isinstance(ts, Env) else None
        I.ob(f"{P}/chunked:the-File-Meta's-transfer-syntax-is-that-of-the-presentation-context-the-message-arrived-on",
             of_key is not None and _zb(I.eq(of_key, ctx)), detail=f"transfer syntax {ts!r} looked up with {of_key!r}; the PDV's context id is {ctx!r}")
        I.ob(f"{P}/chunked:the-message-is-not-complete-before-its-data-set-arrived", I.as_bool(val) is False, detail=repr(val))

"""C26 — a failing notification handler never changes the protocol exchange.

Non-interference contract on events.trigger: for a NOTIFICATION event and ANY behaviour of the bound handlers
(function or callable object, returning or raising at any position in the handler list) trigger returns None,
raises nothing, calls each handler up to the first raising one, and leaves assoc.abort restored to the blocking
variant — so no caller can distinguish a raising handler from a silent one.  For an INTERVENTION event the
handler's exception propagates (and abort is restored); every intervention call site in the library is
syntactically inside a converting `try ... except Exception` / `with attempt(...)` (AST frame scan)."""
import ast

import z3

from pyvc.task import Task, FiniteTask
from pyvc.interp import Interp, Config
from pyvc.values import SV, Obj, Env, Ev, ExcVal, PyRaise, Unsupported
from pyvc.repo import Repo

PROPERTY = "C26"
LEVEL = "proof"
EV = "pynetdicom.events"
TRIG = f"{EV}:trigger"
ASSUMPTIONS = [
    "handlers have no side effects on the association state other than through exceptions / return values (A-ALIAS)",
    "Event(assoc, event, attrs) construction does not raise (contract of Event.__init__, opaque)",
    "the relational claim (same PDUs/messages/outcome as with silent handlers) follows from non-interference: trigger's "
    "result, exceptions and frame are independent of the handlers' behaviour",
]
INTERVENTION = ["EVT_ASYNC_OPS", "EVT_SOP_COMMON", "EVT_SOP_EXTENDED", "EVT_USER_ID", "EVT_C_ECHO", "EVT_C_FIND", "EVT_C_GET",
                "EVT_C_MOVE", "EVT_C_STORE", "EVT_N_ACTION", "EVT_N_CREATE", "EVT_N_DELETE", "EVT_N_EVENT_REPORT", "EVT_N_GET", "EVT_N_SET"]


class HandlerV:
    """a bound handler: a plain function (has __name__) or a callable object / functools.partial (no __name__);
    behaviour: returns | raises"""

    def __init__(self, idx, has_name, raises, log):
        self.idx, self.has_name, self.raises, self.log = idx, has_name, raises, log

    def truth(self, I):
        return True

    def sym_call(self, I, args, kw):
        self.log.append(("call", self.idx, len(args)))
        if self.raises:
            raise PyRaise(ExcVal("Exception", (f"handler {self.idx} failed",)))     # the most general class a handler can raise
        return None

    def sym_getattr(self, I, name):
        if name == "__name__":
            if self.has_name:
                return f"handler{self.idx}"
            raise PyRaise(ExcVal("AttributeError", ("callable object has no attribute '__name__'",)))
        return NotImplemented


class TriggerNotification(Task):
    functions = [TRIG]

    def __init__(self, n):
        self.n = n
        self.name = f"trigger/notification/{n}-handlers"

    def config(self, repo):
        c = Config()
        c.ob_prefix = "C26/"
        c.summaries[f"{EV}:Event"] = lambda I, a, k: Env("event_instance")
        return c

    def body(self, I):
        P = f"C26/{TRIG}"
        log = []
        hs = []
        for i in range(self.n):
            kind = I.choose(4, f"handler {i}")
            with_args = I.choose(2, f"args {i}") == 0
            hs.append((HandlerV(i, kind in (0, 1), kind in (1, 3), log), [Env("arg")] if with_args else None))
        assoc = Env("assoc")
        ev = I.module_ns(I.repo.module(EV))["EVT_PDU_RECV"]

        def env_call(I_, env, method, args, kw):
            if env.path == "assoc" and method == "get_handlers":
                return [(h, a) for h, a in hs]
            return NotImplemented
        I.cfg.env_call = env_call
        kind, val = I.run_function(I.repo.func(TRIG), [assoc, ev, {"x": 1}])
        I.ob(f"{P}/notification:raises-nothing-whatever-the-handlers-do", kind == "return", detail=f"{kind}:{val!r} handlers="
             f"{[(h.has_name, h.raises) for h, _ in hs]}")
        if kind == "return":
            I.ob(f"{P}/notification:returns-None", val is None)
        first_raise = next((i for i, (h, _) in enumerate(hs) if h.raises), None)
        want_calls = list(range(self.n)) if first_raise is None else list(range(first_raise + 1))
        I.ob(f"{P}/notification:handlers-called-in-order-up-to-the-first-failure", [c[1] for c in log] == want_calls,
             detail=f"{log}")
        I.ob(f"{P}/notification:handlers-get-the-event-and-their-bound-args",
             all(c[2] == (2 if hs[c[1]][1] else 1) for c in log))
        sets = [e.args[2] for e in I.trace if e.name == "setattr" and e.args[0] == "assoc" and e.args[1] == "abort"]
        if self.n == 0:
            I.ob(f"{P}/frame:no-handler-no-effect", not sets and kind == "return")
        else:
            I.ob(f"{P}/frame:assoc.abort-nonblocking-during-handlers-and-restored-to-blocking-afterwards",
                 kind == "return" and len(sets) >= 2 and getattr(sets[0], "path", "").endswith("_abort_nonblocking")
                 and getattr(sets[-1], "path", "").endswith("_abort_blocking"), detail=repr([getattr(x, "path", x) for x in sets]))
        other = [e for e in I.trace if e.name not in ("setattr",)]
        I.ob(f"{P}/frame:nothing-else-is-touched", not other, detail=repr(other))


class TriggerIntervention(Task):
    name = "trigger/intervention"
    functions = [TRIG]

    def config(self, repo):
        c = Config()
        c.ob_prefix = "C26/"
        c.summaries[f"{EV}:Event"] = lambda I, a, k: Env("event_instance")
        return c

    def body(self, I):
        P = f"C26/{TRIG}"
        log = []
        kind_h = I.choose(5, "handler")
        assoc = Env("assoc")
        ev = I.module_ns(I.repo.module(EV))["EVT_C_ECHO"]
        if kind_h == 4:
            handler = (None, None)
        else:
            handler = (HandlerV(0, kind_h in (0, 1), kind_h in (1, 3), log), [Env("arg")] if I.choose(2, "args") == 0 else None)

        def env_call(I_, env, method, args, kw):
            if env.path == "assoc" and method == "get_handlers":
                return handler
            return NotImplemented
        I.cfg.env_call = env_call
        kind, val = I.run_function(I.repo.func(TRIG), [assoc, ev, None])
        if handler[0] is None:
            I.ob(f"{P}/intervention:no-handler-returns-None", kind == "return" and val is None)
            return
        if handler[0].raises:
            I.ob(f"{P}/intervention:the-handlers-exception-propagates-to-the-caller",
                 kind == "raise" and val.cls_name == "Exception", detail=f"{kind}:{val!r}")
        else:
            I.ob(f"{P}/intervention:returns-the-handlers-result", kind == "return", detail=f"{kind}:{val!r}")
        I.ob(f"{P}/intervention:single-handler-called-once", [c[1] for c in log] == [0])
        sets = [e.args[2] for e in I.trace if e.name == "setattr" and e.args[0] == "assoc" and e.args[1] == "abort"]
        I.ob(f"{P}/intervention:assoc.abort-is-the-blocking-variant-afterwards",
             (not sets) or getattr(sets[-1], "path", "").endswith("_abort_blocking"), detail=repr([getattr(x, "path", x) for x in sets]))


class CallSites(FiniteTask):
    """every evt.trigger(..., evt.<intervention event>, ...) call in the library sits inside a `try` with an
    `except Exception` (or bare/BaseException) handler, or inside `with attempt(...)`"""
    name = "intervention-call-sites"
    functions = []

    def check(self, repo, emit):
        mods = ["pynetdicom.acse", "pynetdicom.association", "pynetdicom.service_class", "pynetdicom.service_class_n",
                "pynetdicom.dimse", "pynetdicom.dul", "pynetdicom.fsm", "pynetdicom.transport"]
        sites = []
        for mn in mods:
            m = repo.try_module(mn)
            if m is None:
                continue
            parents = {}
            for node in ast.walk(m.tree):
                for ch in ast.iter_child_nodes(node):
                    parents[ch] = node
            for node in ast.walk(m.tree):
                if isinstance(node, ast.Call) and ast.unparse(node.func) in ("evt.trigger", "trigger") and len(node.args) >= 2:
                    evn = ast.unparse(node.args[1]).split(".")[-1]
                    if evn not in INTERVENTION:
                        continue
                    # walk up: protected if inside Try.body with a catching handler, or With whose item calls attempt(...)
                    cur, prot, fn = node, False, "?"
                    while cur in parents:
                        par = parents[cur]
                        if isinstance(par, ast.Try) and cur in par.body:
                            for h in par.handlers:
                                t = ast.unparse(h.type) if h.type is not None else "BaseException"
                                if t in ("Exception", "BaseException") or "Exception" in t.split(","):
                                    prot = True
                        if isinstance(par, ast.With) and cur in par.body:
                            if any("attempt(" in ast.unparse(it.context_expr) for it in par.items):
                                prot = True
                        if isinstance(par, ast.FunctionDef) and fn == "?":
                            fn = par.name
                        cur = par
                    sites.append((mn, fn, evn, node.lineno, prot))
        # a trigger inside a private helper is protected if every call of that helper is (transitively): extracting the call of the
        # handler into a helper that is invoked inside the same try must not be an alarm
        def walk_up(mtree_parents, node):
            cur, prot, fn = node, False, "?"
            while cur in mtree_parents:
                par = mtree_parents[cur]
                if isinstance(par, ast.Try) and cur in par.body:
                    for h in par.handlers:
                        t = ast.unparse(h.type) if h.type is not None else "BaseException"
                        if t in ("Exception", "BaseException") or "Exception" in t.split(","):
                            prot = True
                if isinstance(par, ast.With) and cur in par.body:
                    if any("attempt(" in ast.unparse(it.context_expr) for it in par.items):
                        prot = True
                if isinstance(par, ast.FunctionDef) and fn == "?":
                    fn = par.name
                cur = par
            return prot, fn
        allp = {}
        for mn in mods:
            m = repo.try_module(mn)
            if m is not None:
                pr = {}
                for node in ast.walk(m.tree):
                    for ch in ast.iter_child_nodes(node):
                        pr[ch] = node
                allp[mn] = (m, pr)

        def helper_protected(name, depth=0):
            if depth > 3 or not name.startswith("_") or name.startswith("__"):
                return False
            calls = []
            for mn, (m, pr) in allp.items():
                for node in ast.walk(m.tree):
                    if isinstance(node, ast.Call):
                        nm = node.func.attr if isinstance(node.func, ast.Attribute) else (node.func.id if isinstance(node.func, ast.Name) else None)
                        if nm == name:
                            calls.append(walk_up(pr, node))
            return bool(calls) and all(p or helper_protected(f, depth + 1) for p, f in calls)
        sites = [(mn, fn, evn, line, prot or helper_protected(fn)) for mn, fn, evn, line, prot in sites]
        emit("C26/call-sites/at-least-15-intervention-call-sites-found", len(sites) >= 15, detail=len(sites))
        for mn, fn, evn, line, prot in sites:
            emit(f"C26/call-sites/{mn}:{fn}/{evn}-is-inside-a-converting-try-or-attempt", prot, detail=f"line {line}",
                 model={"module": mn, "function": fn, "event": evn, "line": line})


# "Exceptions from intervention handlers are turned into the documented failure responses or rejections": the converting
# code is under contract in C20/C21/C13; those obligations are re-proved under this id (a change that lets a handler exception
# through, or turns it into something else, is reported by C26 as well)
RELABEL = {"C20/": "C26/intervention:", "C21/": "C26/intervention:", "C13/": "C26/intervention:"}


def tasks(tier):
    from contracts import svc as S
    from contracts.acse_accept import CheckIdentityTask, CheckExtendedTask, CheckAsyncOpsTask
    # the four negotiation-time intervention handlers: an exception from any of them stays inside its call site
    return ([TriggerNotification(n) for n in (0, 1, 2, 3)] + [TriggerIntervention(), CallSites()]
            + [S.WrapHandlerTask("C20/"), CheckIdentityTask("C13/"), CheckExtendedTask("common", "C13/"), CheckExtendedTask("extended", "C13/"),
               CheckAsyncOpsTask("C13/")] + [S.SingleScpTask(w) for w in S.SINGLE])


def replay(rec):
    from pyvc.replay import run_replay
    oid = rec.get("id", "")
    if oid.startswith("C26/intervention:"):
        # a borrowed obligation is replayed by the harness of the property it comes from
        src = "C13" if "_check_user_identity" in oid else "C20"
        return run_replay(src, dict(rec, id=f"{src}/" + oid[len("C26/intervention:"):]))
    return run_replay("C26", rec)


LEVEL_TEXT = ("events.trigger executed symbolically for every combination of up to 3 notification handlers x {function, callable object} "
              "x {returns, raises} x {with, without bound args}: returns None, raises nothing, frame = assoc.abort only (restored). "
              "Intervention events: exception propagates, abort restored; all 17 intervention call sites are inside a converting try/attempt. The conversion of intervention-handler exceptions into failure responses / rejections (C20/C21/C13 obligations on _wrap_handler, the single-response SCPs and _check_user_identity) is re-proved under this id.")
LEVEL_NOTE = ("trusted: pyvc, Event() construction opaque, handler side effects excluded by assumption. Handler lists longer than 3 follow "
              "the same loop body (each iteration independent); stated, not an induction.")
TECHNIQUE = "deductive: non-interference contract on events.trigger (AST->VC, exhaustive over handler behaviours) + AST frame scan of call sites"

"""C10 — acceptor-side presentation context negotiation follows PS3.8 and the role table."""
from contracts import negotiation as N

PROPERTY = "C10"
LEVEL = "proof"
ASSUMPTIONS = [
    "class invariant of PresentationContext used as a precondition: the empty UID is never in _transfer_syntax - proved by "
    "TsInvariantTask on the real add_transfer_syntax + validate_uid; assumed library fact: pydicom UID('').is_valid is False",
    "requires: proposed context ids distinct, odd, 1..255; >= 1 transfer syntax per proposed and per supported context; "
    "supported contexts unique per abstract syntax (dict keys do not collide)",
    "UIDs are abstract identities: the code only compares them for equality (sort order of role replies by UID is not constrained)",
    "spec/roles.py is a correct reading of PS3.7 D.3.3.4 (A-SPEC)",
    "sorted(xs, key=f) returns a permutation of xs ordered by f (assumed contract)",
]


def tasks(tier):
    from contracts.wire_ctx import ProposedContextFromWireTask
    from contracts.acse_neg import AcceptorSiteTask
    from pyvc.task import NativeBoundedTask
    return [NativeBoundedTask("C10", "unrestricted-storage-classification-of-every-SOP-class-pynetdicom-knows",
                              ["pynetdicom.presentation:negotiate_unrestricted"]), AcceptorSiteTask("C10/"), N.NegAcceptorTask("C10/"), N.RoleTableTask("C10/"), N.NegUnrestrictedTask("C10/"), N.TsInvariantTask("C10/"),
            ProposedContextFromWireTask("C10/"), N.NegAcceptorFamilyTask("C10/")]


bounded_results = [{"what": "replay/C10.py check_unrestricted_classification (quick tier, native CPython with the real pydicom UID dictionary): which "
                    "abstract syntaxes negotiate_unrestricted treats as storage-like, for EVERY SOP class in the tables of pynetdicom.sop_class "
                    "plus a private and an unknown UID - exhaustive over the finite tables, run natively because the classification reads "
                    "pydicom's UID properties (assumed library)", "bound": "the SOP-class tables of this pynetdicom version (252 UIDs) + 2",
                    "cases": 254, "counted_as_proved": False},
                   {"what": "negotiate_as_acceptor executed on 2 proposed contexts x all 15 ordered selections of up to 3 transfer syntaxes on "
                    "each side x supported/unsupported (450 configurations) and compared with the specification",
                    "bound": "2 proposed contexts, 1 supported context, transfer-syntax lists of length <= 3, no role proposals",
                    "cases": 450, "counted_as_proved": False,
                    "purpose": "refutation when the inductive loop contract cannot be applied to restructured code; the proof is the inductive contract"}]


def replay(rec):
    from pyvc.replay import run_replay
    return run_replay("C10", rec)


LEVEL_TEXT = ("negotiate_as_acceptor is verified by induction over the proposed contexts with symbolic list lengths: for an arbitrary "
              "proposed context exactly one result with its id/abstract syntax; result 3/4 exactly under their conditions; the accepted "
              "transfer syntax is the acceptor's first preference among the proposed ones (quantified loop invariant); roles equal the "
              "PS3.7 role function for all 6x9 proposal/setting pairs; replies never raise a role. SCP_SCU_ROLES is compared cell by cell. ACSE._negotiate_as_acceptor (call site): negotiation mode by UNRESTRICTED_STORAGE_SERVICE, arguments, accepted/rejected split, every role reply added to the AC.")
LEVEL_NOTE = "trusted: pyvc, z3 (UF + quantified invariant), spec/roles.py, sorted() contract. Unrestricted-storage mode: see NOT_DECIDED."
TECHNIQUE = "deductive: inductive loop contracts on negotiate_as_acceptor (AST->VC, z3 UF/quantifiers) + exhaustive role-table comparison"
NOT_DECIDED = ["which abstract syntaxes count as storage-like in unrestricted mode (pydicom UID.is_private / keyword tables) is opaque: "
               "every proposed context may be classified either way"]

"""Contracts on Association._get_valid_context (C18) and Association._c_store_scp (C18/C19)."""
import ast

import z3

from pyvc.task import Task
from pyvc.interp import Interp, Config, LoopSpec
from pyvc.values import SV, Obj, Env, Ev, ExcVal, PyRaise, Unsupported, SymSeq
from pyvc.symcoll import AbsMap, SortedView
from contracts.negotiation import UIDv

ASSOC = "pynetdicom.association"
GVC = f"{ASSOC}:Association._get_valid_context"
CSS = f"{ASSOC}:Association._c_store_scp"
PR = "pynetdicom.presentation"
INT, BOOL = z3.IntSort(), z3.BoolSort()
COMP = z3.Function("uid_is_compressed", INT, BOOL)
LE = z3.Function("uid_is_little_endian", INT, BOOL)
UPS = {"UnifiedProcedureStepPush": -1, "UnifiedProcedureStepPull": -2, "UnifiedProcedureStepWatch": -3,
       "UnifiedProcedureStepEvent": -4, "UnifiedProcedureStepQuery": -5}


def gvc_config(prefix):
    c = Config()
    c.ob_prefix = prefix

    def uid(I, a, k):
        v = a[0]
        return v          # UID(x) is x for abstract UIDs and for '' (empty transfer syntax = "any")
    c.ext_models["pydicom.uid.UID"] = uid
    for nm, ident in UPS.items():
        c.module_consts[("pynetdicom.sop_class", nm)] = (lambda ident: (lambda I: UIDv(z3.IntVal(ident))))(ident)
    return c


def mk_contexts(I):
    """the association's accepted contexts: abstract map id -> context; contexts are symbolic PresentationContext objects"""
    g = I.ghost
    cls = I.repo.cls(f"{PR}:PresentationContext")
    cid = z3.Function("cx_id", INT, INT)
    cab = z3.Function("cx_ab", INT, INT)
    cts = z3.Function("cx_ts", INT, INT)
    cscu = z3.Function("cx_as_scu", INT, BOOL)
    cscp = z3.Function("cx_as_scp", INT, BOOL)
    g.update(cid=cid, cab=cab, cts=cts, cscu=cscu, cscp=cscp)
    objs = {}

    def ctx(k):
        key = str(z3.simplify(k)) if not isinstance(k, int) else str(k)
        if key not in objs:
            o = Obj(cls, tag=f"cx[{key}]")
            o.fields.update(_context_id=SV(cid(k), "int"), _abstract_syntax=UIDv(cab(k)), _transfer_syntax=[UIDv(cts(k))], result=0,
                            _as_scu=SV(cscu(k), "bool"), _as_scp=SV(cscp(k), "bool"), _scu_role=None, _scp_role=None)
            o.cx_index = k
            objs[key] = o
        return objs[key]
    g["ctx"] = ctx
    n = I.input("int", "n_accepted")
    I.assume(n.e >= 0)
    g["n_accepted"] = n.e
    widx = z3.Function("index_of_id", INT, INT)

    def value_of(I_, k):
        # the context stored under id k: some accepted context whose id is k
        if k is None:
            return None
        ke = I._num(k, "int")
        I.assume(z3.And(widx(ke) >= 0, widx(ke) < n.e, cid(widx(ke)) == ke))
        return ctx(widx(ke))
    acc = AbsMap(I, "_accepted_cx", value_of)
    acc.n = n.e
    orig_find = acc._find

    def find(I_, k):
        ent = orig_find(I_, k)
        if k is None:
            ent[1] = False           # None is never a context id
        return ent
    acc._find = find
    orig_method = acc.sym_method

    def sym_method(I_, name, args, kw):
        if name == "values":
            return SymSeq("_accepted_cx.values", n.e, lambda i: ctx(i))
        return orig_method(I_, name, args, kw)
    acc.sym_method = sym_method
    return acc


def is_accepted(I, o):
    """z3 Bool: o is one of the association's accepted context objects"""
    g = I.ghost
    k = getattr(o, "cx_index", None)
    if k is None:
        return False
    return z3.And(_zi(k) >= 0, _zi(k) < g["n_accepted"])


def _zi(x):
    return z3.IntVal(x) if isinstance(x, int) else x


class SearchLoop(LoopSpec):
    """`for cx in possible_contexts: exact match -> return; convertible -> remembered`.  The convertible candidates are
    remembered either in a list (`matches.append(cx)`, the first one is used afterwards) or in a single variable that keeps
    the first one (`if first is None: first = cx`); both forms are covered - what is stated is the same: whatever is
    remembered is the current candidate (or one remembered before) and it is convertible."""

    def __init__(self, loop, P):
        self.loop, self.P = loop, P
        self.acc, self.scalar = None, None
        body = ast.Module(body=loop.body, type_ignores=[])
        for n in ast.walk(body):
            if isinstance(n, ast.Call) and isinstance(n.func, ast.Attribute) and n.func.attr == "append" and isinstance(n.func.value, ast.Name):
                self.acc = n.func.value.id
        if self.acc is None:
            tgt = loop.target.id if isinstance(loop.target, ast.Name) else None
            cands = [n.targets[0].id for n in ast.walk(body) if isinstance(n, ast.Assign) and len(n.targets) == 1
                     and isinstance(n.targets[0], ast.Name) and isinstance(n.value, ast.Name) and n.value.id == tgt]
            if len(set(cands)) == 1:
                self.scalar = cands[0]
        if self.acc is None and self.scalar is None:
            raise Unsupported("_get_valid_context: the search loop remembers candidates neither in a list nor in one variable")

    def invariant(self, I, fr):
        # no earlier candidate was an exact transfer-syntax match (otherwise the function had returned)
        g = I.ghost
        i = I._num(fr.locals["__idx0"], "int")
        J = z3.Int("J")
        seq = g["candidates"]
        ts = g.get("tr_ident")
        if ts is None:
            return True
        return z3.ForAll([J], z3.Implies(z3.And(J >= 0, J < i), g["cts"](g["cand_index"](J)) != ts))

    def havoc(self, I, fr):
        g = I.ghost
        if self.acc is not None:
            from contracts.negotiation import PriorList
            fr.locals[self.acc] = PriorList(self.acc)
        else:
            # an earlier iteration may or may not have remembered a (convertible) candidate already
            if I.choose(2, "a candidate is already remembered") == 0:
                fr.locals[self.scalar] = None
            else:
                g["earlier"] = self._some_convertible(I, "earlier")
                fr.locals[self.scalar] = g["earlier"]
        g["in_loop"] = True

    def _some_convertible(self, I, tag):
        g = I.ghost
        seq = g["candidates"]
        j = I.fresh("int", f"{tag}_index")
        I.assume(z3.And(j.e >= 0, j.e < seq.length))
        o = seq.elem(j.e)
        ts = g.get("tr_ident")
        if ts is not None:
            k = o.cx_index
            I.assume(z3.And(z3.Not(COMP(ts)), z3.Not(COMP(g["cts"](k))), LE(ts) == LE(g["cts"](k)), g["cts"](k) != ts))
        return o

    def after_body(self, I, fr):
        g = I.ghost
        cx = fr.locals.get(self.loop.target.id)
        P = self.P
        if self.acc is not None:
            added = fr.locals[self.acc]
            remembered_now = bool(added)
            ok = (not added) or (len(added) == 1 and added[0] is cx)
        else:
            now = fr.locals.get(self.scalar)
            earlier = g.get("earlier")
            if earlier is not None and now is earlier:
                return                      # kept what was remembered (itself a convertible candidate)
            # (replacing a remembered candidate by the current one is allowed as long as the current one is convertible too:
            # the property does not say WHICH convertible context is used)
            remembered_now = now is not None
            ok = (now is None and earlier is None) or (now is cx)
        if remembered_now:
            I.ob(f"{P}/search:a-candidate-is-remembered-at-most-once", ok)
            ts = g.get("tr_ident")
            k = cx.cx_index
            if ts is None:
                I.ob(f"{P}/search:with-no-transfer-syntax-every-candidate-is-usable", True)
            else:
                I.ob(f"{P}/search:a-remembered-candidate-is-convertible:both-uncompressed-same-byte-order-not-an-exact-match",
                     z3.And(z3.Not(COMP(ts)), z3.Not(COMP(g["cts"](k))), LE(ts) == LE(g["cts"](k)), g["cts"](k) != ts))

    def on_exit(self, I, fr):
        g = I.ghost
        g["in_loop"] = False
        g["exited"] = True
        seq = g["candidates"]
        if self.scalar is not None:
            # after the loop: nothing remembered, or some convertible candidate (justified by the per-iteration obligations)
            fr.locals[self.scalar] = None if I.choose(2, "a convertible candidate was found") == 0 else self._some_convertible(I, "found")
            return
        m = I.fresh("int", "n_convertible")
        I.assume(z3.And(m.e >= 0, m.e <= seq.length))
        sel = z3.Function("convertible_at", INT, INT)
        ts = g.get("tr_ident")

        def elem(j):
            I.assume(z3.Implies(z3.And(j >= 0, j < m.e), z3.And(sel(j) >= 0, sel(j) < seq.length)))
            o = seq.elem(sel(j))
            if ts is not None:
                k = o.cx_index
                I.assume(z3.And(z3.Not(COMP(ts)), z3.Not(COMP(g["cts"](k))), LE(ts) == LE(g["cts"](k)), g["cts"](k) != ts))
            return o
        out = SymSeq("matches", m.e, elem)
        fr.locals[self.acc] = out


class GetValidContextTask(Task):
    name = "Association._get_valid_context"
    functions = [GVC]

    def __init__(self, prefix="C18/"):
        self.prefix = prefix

    def config(self, repo):
        c = gvc_config(self.prefix)
        fi = repo.func(GVC)
        loops = [n for n in ast.walk(fi.node) if isinstance(n, (ast.For, ast.While))]
        loops.sort(key=lambda n: (n.lineno, n.col_offset))
        if len(loops) != 1:
            raise Unsupported(f"_get_valid_context: expected one statement-level loop, found {len(loops)}")
        self.spec = SearchLoop(loops[0], f"{self.prefix}{GVC}")
        c.loop_specs[(GVC, 0)] = self.spec
        return c

    def body(self, I):
        P = f"{self.prefix}{GVC}"
        g = I.ghost
        acc = mk_contexts(I)
        me = Env("assoc", cls=I.repo.cls(f"{ASSOC}:Association"))
        me.attrs["_accepted_cx"] = acc
        ab = UIDv(I.input("int", "abstract_syntax").e)
        ups = I.choose(2, "UPS push") == 1
        if ups:
            ab = UIDv(z3.IntVal(UPS["UnifiedProcedureStepPush"]))
        else:
            I.assume(ab.ident >= 0)
        has_ts = I.choose(2, "transfer syntax given") == 0
        if has_ts:
            tsv = UIDv(I.input("int", "transfer_syntax").e)
            g["tr_ident"] = tsv.ident
        else:
            tsv = ""
            g["tr_ident"] = None
        role = [None, "scu", "scp"][I.choose(3, "role")]
        use_id = I.choose(2, "context id given") == 0
        cidv = I.input("int", "context_id") if use_id else None
        allow = I.input("bool", "allow_conversion")
        # record the candidate list the loop iterates over
        orig = Interp._for_symseq

        def spy(self_, s, fr, seq, spec):
            if spec is self.spec:
                g["candidates"] = seq
                g["cand_index"] = lambda J: _index_fn(seq)(J)
            return orig(self_, s, fr, seq, spec)
        Interp._for_symseq = spy
        try:
            kind, val = I.run_function(I.repo.func(GVC), [me, ab, tsv, role, cidv, allow])
        finally:
            Interp._for_symseq = orig
        if kind == "raise":
            I.ob(f"{P}/raises-only-ValueError", val.cls_name == "ValueError", detail=repr(val))
            return
        ok = isinstance(val, Obj) and val.cls.name == "PresentationContext" and getattr(val, "cx_index", None) is not None
        I.ob(f"{P}/returns-one-of-the-accepted-context-objects", ok and is_accepted(I, val), detail=repr(val))
        if not ok:
            return
        k = val.cx_index
        abk = g["cab"](k)
        if ups:
            I.ob(f"{P}/abstract-syntax-is-the-requested-one-or-a-documented-UPS-substitute",
                 z3.Or(abk == UPS["UnifiedProcedureStepPush"], *[abk == v for n_, v in UPS.items() if n_ != "UnifiedProcedureStepPush"]))
        else:
            I.ob(f"{P}/abstract-syntax-is-the-requested-one-or-a-documented-UPS-substitute", abk == ab.ident)
        if role == "scu":
            I.ob(f"{P}/local-side-holds-the-required-role", g["cscu"](k))
        elif role == "scp":
            I.ob(f"{P}/local-side-holds-the-required-role", g["cscp"](k))
        if has_ts:
            t = tsv.ident
            exact = g["cts"](k) == t
            conv = z3.And(allow.e, z3.Not(COMP(t)), z3.Not(COMP(g["cts"](k))), LE(t) == LE(g["cts"](k)))
            I.ob(f"{P}/transfer-syntax-exact-or-conversion-allowed-between-uncompressed-same-byte-order", z3.Or(exact, conv))
            if g.get("exited"):
                # returned after the loop: no candidate was an exact match (loop invariant at exit) — exact preferred
                I.ob(f"{P}/a-convertible-context-is-used-only-when-no-candidate-matches-exactly", z3.Not(exact))
        else:
            I.ob(f"{P}/without-a-transfer-syntax-only-with-conversion-allowed", allow.e)


def _index_fn(seq):
    """index (in the accepted-context numbering) of the J-th element of a filtered/sorted candidate sequence"""
    def f(J):
        o = seq.elem(J)
        return o.cx_index
    return f


# ---------------------------------------------------------------------------------------------
# _c_store_scp (C-STORE sub-operation received by a C-GET requestor)
# ---------------------------------------------------------------------------------------------
class CStoreScpTask(Task):
    functions = [CSS]

    def __init__(self, prefix="C19/"):
        self.prefix = prefix
        self.name = "Association._c_store_scp"

    def config(self, repo):
        c = Config()
        c.ob_prefix = self.prefix
        c.ext_models["pydicom.uid.UID"] = lambda I, a, k: a[0]

        def trigger(I, args, kw):
            ev = args[1]
            name = ev.fields.get("name") if isinstance(ev, Obj) else repr(ev)
            I.trace.append(Ev("handler", (name, args[2])))
            k = I.choose(3, "handler")
            if k == 1:
                raise PyRaise(ExcVal("Exception", ("handler failed",)))
            if k == 2:
                from contracts.dsmodel import DatasetV
                return DatasetV([("Status", I.input("int", "ds_status"))] if I.choose(2, "has Status") == 0 else [("ErrorComment", "x")])
            return I.input("int", "status")
        c.summaries["pynetdicom.events:trigger"] = trigger

        def gvc(I, args, kw):
            # contract of _get_valid_context (GetValidContextTask): an accepted context with the requested abstract syntax on
            # which the local side is SCP, or ValueError
            g = I.ghost
            a = dict(zip(["self", "ab_syntax", "tr_syntax", "role", "context_id", "allow_conversion"], args))
            a.update(kw)
            g["gvc_args"] = a
            if I.choose(2, "valid context") == 1:
                raise PyRaise(ExcVal("ValueError", ("no context",)))
            k = I.fresh("int", "chosen")
            I.assume(z3.And(k.e >= 0, k.e < g["n_accepted"], g["cab"](k.e) == a["ab_syntax"].ident, g["cscp"](k.e)))
            return g["ctx"](k.e)
        c.summaries[GVC] = gvc
        c.summaries["pynetdicom.dimse_primitives:C_STORE"] = lambda I, a, k: Env("rsp")
        c.module_consts[("pynetdicom.status", "STORAGE_SERVICE_CLASS_STATUS")] = lambda I: Env("STORAGE_SERVICE_CLASS_STATUS")

        def env_call(I, env, method, args, kw):
            if env.path == "assoc.dimse" and method == "send_msg":
                I.trace.append(Ev("send_msg", tuple(args)))
                return None
            return NotImplemented
        c.env_call = env_call
        return c

    def body(self, I):
        P = f"{self.prefix}{CSS}"
        g = I.ghost
        acc = mk_contexts(I)
        me = Env("assoc", cls=I.repo.cls(f"{ASSOC}:Association"))
        me.attrs["_accepted_cx"] = acc
        me.attrs["dimse"] = Env("assoc.dimse")
        # the contexts the peer rejected: any number, ids 0..255 (what a context-id byte can hold)
        rcls = I.repo.cls(f"{PR}:PresentationContext")
        rid_f = z3.Function("rejected_cx_id", INT, INT)
        n_rej = I.input("int", "n_rejected")
        I.assume(n_rej.e >= 0)

        def rejected(j):
            o = Obj(rcls, tag="rejected_cx")
            o.fields.update(_context_id=SV(rid_f(j), "int"), _abstract_syntax=UIDv(z3.Function("rejected_cx_ab", INT, INT)(j)),
                            _transfer_syntax=[], result=3, _as_scu=False, _as_scp=False, _scu_role=None, _scp_role=None)
            return o
        me.attrs["rejected_contexts"] = SymSeq("rejected_contexts", n_rej.e, rejected)
        req = Env("req")
        sop = UIDv(I.input("int", "AffectedSOPClassUID").e)
        rid = I.input("int", "request_context_id")
        I.assume(z3.And(rid.e >= 0, rid.e <= 255))
        req.attrs.update(MessageID=I.input("int", "MessageID"), AffectedSOPClassUID=sop, AffectedSOPInstanceUID=Env("iuid"),
                         _context_id=rid)
        kind, val = I.run_function(I.repo.func(CSS), [me, req])
        I.ob(f"{P}/no-exception-escapes", kind == "return", detail=f"{kind}:{val!r}")
        tr = I.trace
        handlers = [e for e in tr if e.name == "handler"]
        sends = [e for e in tr if e.name == "send_msg"]
        a = g.get("gvc_args", {})
        if a or handlers:
            # whenever a context is looked up at all (and always before a handler runs), it is looked up by the request's own
            # context id, SOP class and the SCP role
            I.ob(f"{P}/context-is-looked-up-by-the-request's-own-context-id-SOP-class-and-SCP-role",
                 a.get("context_id") is rid and a.get("ab_syntax") is sop and a.get("role") == "scp", detail=repr({k: v for k, v in a.items() if k != 'self'}))
        if handlers:
            cxt = handlers[0].args[1].get("context") if isinstance(handlers[0].args[1], dict) else None
            # the handler must only run for a request that arrived on an ACCEPTED context id: the context used must be the
            # one stored under the request's context id
            used = next((e.args[1] for e in sends), None)
            chosen = [o for o in [g["ctx"](kk) for kk in []]]
            I.ob(f"{P}/handler-runs-only-if-the-request's-context-id-is-an-accepted-one",
                 _used_ctx_has_request_id(I, g, tr, rid))
        if sends:
            I.ob(f"{P}/exactly-one-response", len(sends) == 1)


def _used_ctx_has_request_id(I, g, tr, rid):
    # the context chosen by _get_valid_context (its contract) is some accepted context k; the property needs id(k) == rid
    for e in tr:
        if e.name == "send_msg":
            cid = e.args[1]
            if isinstance(cid, SV):
                return cid.e == rid.e
            if isinstance(cid, int):
                return rid.e == cid
    return False

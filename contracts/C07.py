"""C07 — a peer's release request is always answered with a release response.

Reduction (DESIGN 3/C07): the association thread learns of an A-RELEASE-RQ only through ACSE.is_release_requested() /
dul.peek_next_pdu(); "every arrival point" is "every such call may find the indication at the head of the queue" - one
nondeterministic Boolean per call, no threads needed.  Ghost: the indication is CONSUMED (popped) only where it is answered.

Obligations:
 * ACSE.is_release_requested: True iff an A-RELEASE request indication is at the head of the queue; it pops the indication
   iff called in consuming mode (the default);
 * every call site of is_release_requested in the library other than the reactor's own check is non-consuming (AST scan);
 * ServiceClass._wrap_handler: a release request seen between handler results ends the result stream and leaves the indication
   in the queue;
 * Association._run_reactor (one arbitrary iteration): after serving at most one request, an established association whose
   queue head is a release request sends A-RELEASE-RP, becomes released / not established, notifies EVT_RELEASED, kills the
   reactor and returns; the check is reached on every iteration that does not end the reactor otherwise;
 * the SCU response iterators release the paused reactor before surfacing the final item (contracts/C24.py), so a requestor
   that stops iterating there still answers a later release request."""
import ast

import z3

from pyvc.task import Task, FiniteTask
from pyvc.interp import Interp, Config, LoopSpec
from pyvc.values import SV, Obj, Env, Ev, ExcVal, PyRaise, Unsupported, PathEnd
from contracts import svc as S
from contracts import C24 as W

PROPERTY = "C07"
LEVEL = "proof"
ASSOC = "pynetdicom.association"
ACSE = "pynetdicom.acse"
IRR = f"{ACSE}:ACSE.is_release_requested"
RUN = f"{ASSOC}:Association._run_reactor"
ASSUMPTIONS = [
    "sequential reduction: the arrival of the A-RELEASE-RQ is visible to the association thread only through "
    "dul.peek_next_pdu()/receive_pdu(); the DUL thread queues the indication (AR-2, proved in C04) and nothing else removes it",
    "dul.peek_next_pdu() returns the head of the queue without removing it; receive_pdu(wait=False) removes and returns it (Queue FIFO, A-LIB)",
    "send_release(is_response=True) queues the A-RELEASE response primitive for the DUL (AR-4/AR-9 send the PDU: C04)",
    "the peer's own view ('released on both sides') follows from the A-RELEASE-RP PDU reaching it: the other side's code is the "
    "requestor path of release(), not re-verified here",
]
NOT_DECIDED = ["real-time latency of the answer; the peer-side outcome flags (cross-process agreement is C06, not applicable)"]


class IsReleaseRequestedTask(Task):
    name = "ACSE.is_release_requested"
    functions = [IRR]

    def config(self, repo):
        c = Config()
        c.ob_prefix = "C07/"

        def env_call(I, env, method, args, kw):
            g = I.ghost
            if env.path == "acse.dul" and method == "peek_next_pdu":
                return g["head"]
            if env.path == "acse.dul" and method == "receive_pdu":
                I.trace.append(Ev("receive_pdu", tuple(args), dict(kw)))
                return g["head"]
            return NotImplemented
        c.env_call = env_call
        return c

    def body(self, I):
        g = I.ghost
        P = f"C07/{IRR}"
        me = Env("acse", cls=I.repo.cls(f"{ACSE}:ACSE"))
        me.attrs["dul"] = Env("acse.dul")
        heads = ["nothing", "release-request", "release-response", "other-primitive"]
        h = heads[I.choose(4, "head of the queue")]
        if h == "nothing":
            g["head"] = None
        elif h.startswith("release"):
            o = Obj(I.repo.cls("pynetdicom.pdu_primitives:A_RELEASE"), tag="release")
            o.fields["_result"] = None if h == "release-request" else "affirmative"
            o.fields["_reason"] = "normal"
            g["head"] = o
        else:
            g["head"] = Obj(I.repo.cls("pynetdicom.pdu_primitives:A_ABORT"), tag="abort")
        mode = I.choose(2, "calling mode")           # 0: default (consuming), 1: consume=False
        kwargs = {} if mode == 0 else {"consume": False}
        kind, val = I.run_function(I.repo.func(IRR), [me], kwargs)
        I.ob(f"{P}/no-exception", kind == "return", detail=f"{kind}:{val!r} ({h}, {kwargs})")
        if kind != "return":
            return
        pops = [e for e in I.trace if e.name == "receive_pdu"]
        I.ob(f"{P}/true-exactly-when-a-release-request-is-at-the-head-of-the-queue", val is (h == "release-request"), detail=f"{h}: {val!r}")
        if mode == 0:
            I.ob(f"{P}/consuming-mode-removes-the-indication-exactly-when-it-reports-it", len(pops) == (1 if h == "release-request" else 0))
        else:
            I.ob(f"{P}/non-consuming-mode-leaves-the-queue-unchanged", not pops)


class CallSiteScan(FiniteTask):
    """every call of is_release_requested() outside Association._run_reactor is non-consuming: the indication is removed only
    by the code that answers it"""
    name = "frame/only-the-reactor-consumes-the-release-indication"
    functions = []

    def check(self, repo, emit):
        import os
        from pyvc.repo import REPO_ROOT
        sites = []
        root = os.path.join(REPO_ROOT, "pynetdicom")
        for dp, dn, fns in os.walk(root):
            if "tests" in dp.split(os.sep) or "benchmarks" in dp.split(os.sep):
                continue
            for fn in fns:
                if not fn.endswith(".py"):
                    continue
                path = os.path.join(dp, fn)
                tree = ast.parse(open(path, encoding="utf-8").read())
                for f in ast.walk(tree):
                    if not isinstance(f, ast.FunctionDef):
                        continue
                    for n in ast.walk(f):
                        if isinstance(n, ast.Call) and isinstance(n.func, ast.Attribute) and n.func.attr == "is_release_requested":
                            nc = any(k.arg == "consume" and isinstance(k.value, ast.Constant) and k.value.value is False for k in n.keywords)
                            sites.append((os.path.relpath(path, REPO_ROOT), f.name, n.lineno, nc))
        emit("C07/frame/call-sites-found", len(sites) >= 2, detail=sites)
        # a check that was moved into a private helper called only by the reactor is the reactor's (scanutil)
        from contracts.scanutil import callers_by_name, roots_of
        callers = callers_by_name(exclude=("tests", "benchmarks"))
        reactor = {("association.py", "_run_reactor")}

        def of_reactor(path, fname):
            return fname == "_run_reactor" or roots_of((os.path.basename(path), fname), reactor, callers) == reactor
        for path, fname, line, nc in sites:
            if of_reactor(path, fname):
                fname = "_run_reactor"
                path = "pynetdicom/association.py"
            if fname == "_run_reactor":
                emit(f"C07/frame/{path}:{fname}/the-reactor-consumes-the-indication-it-answers", not nc)
            else:
                emit(f"C07/frame/{path}:{fname}/release-check-outside-the-reactor-is-non-consuming", nc,
                     detail=f"line {line}: is_release_requested() pops the A-RELEASE indication; nobody answers it afterwards")


class ReactorLoop(LoopSpec):
    def __init__(self, task):
        self.task = task

    def after_body(self, I, fr):
        self.task.iteration_done(I, "continues")


class RunReactorTask(Task):
    name = "Association._run_reactor/one-iteration"
    functions = [RUN]

    def config(self, repo):
        c = Config()
        c.ob_prefix = "C07/"
        c.loop_specs[(RUN, 0)] = ReactorLoop(self)
        c.summaries["pynetdicom.events:trigger"] = lambda I, a, k: I.trace.append(Ev("evt", (a[1].fields.get("name"),)))
        c.ext_models["time.sleep"] = lambda I, a, k: None
        task = self

        def serve(I, args, kw):
            I.trace.append(Ev("serve_request", (args[1],)))
            # the service class may have seen the release request (non-consuming) - the association is still established
            # unless the handler/peer aborted: is_established is re-read afterwards
            return None
        c.summaries[f"{ASSOC}:Association._serve_request"] = serve
        c.summaries[f"{ASSOC}:Association.kill"] = lambda I, a, k: I.trace.append(Ev("kill"))
        c.summaries[f"{ASSOC}:Association.abort"] = lambda I, a, k: I.trace.append(Ev("abort"))
        c.summaries[f"{ASSOC}:Association.release"] = lambda I, a, k: I.trace.append(Ev("release"))

        def env_call(I, env, method, args, kw):
            g = I.ghost
            p = env.path
            if p == "assoc._reactor_checkpoint" and method == "wait":
                return True
            if p == "assoc.dimse" and method == "get_msg":
                if kw.get("block", args[0] if args else True) is not False:
                    I.trace.append(Ev("blocking", ("get_msg",)))
                if I.choose(2, "a request is waiting") == 1:
                    m = Env("request")
                    m.truth = True
                    return (SV(z3.Int("cx"), "int"), m)
                return (None, None)
            if p == "assoc.acse" and method == "is_release_requested":
                g["checked"] = True
                consuming = kw.get("consume", True) is not False
                I.trace.append(Ev("is_release_requested", (g["release_pending"], consuming)))
                return g["release_pending"]
            if p == "assoc.acse" and method == "send_release":
                I.trace.append(Ev("send_release", tuple(args), dict(kw)))
                return None
            if p == "assoc.acse" and method == "is_aborted":
                return I.choose(2, "aborted") == 1
            if p == "assoc.dul" and method == "is_alive":
                return I.choose(2, "dul alive") == 0
            if p == "assoc.dul" and method == "idle_timer_expired":
                g["idle_asks"] = g.get("idle_asks", 0) + 1
                g["idle_asked"] = I.choose(2, "idle timeout") == 1
                return g["idle_asked"]
            if p == "assoc.dimse" and method == "get_msg" and kw.get("block", args[0] if args else True) is not False:
                I.trace.append(Ev("blocking", ("get_msg",)))
            if p == "assoc.dul" and method == "receive_pdu":
                return None
            return NotImplemented
        c.env_call = env_call

        def env_setattr(I, env, name, val):
            if env.path == "assoc" and name in ("is_released", "is_established", "is_aborted"):
                I.trace.append(Ev("set", (name, val)))
                env.attrs[name] = val
                return True
            return False
        c.env_setattr = env_setattr
        return c

    def iteration_done(self, I, how):
        g = I.ghost
        P = f"C07/{RUN}"
        tr = I.trace
        names = [e.name for e in tr]
        est = g["established"]
        answered = [e for e in tr if e.name == "send_release"]
        if g["release_pending"] and est and "serve_request" not in names:
            # idle iteration with the release request at the head of the queue: it is answered now
            ok = (len(answered) == 1 and answered[0].kwargs.get("is_response") is True and ("set", ) and
                  any(e.name == "set" and e.args == ("is_released", True) for e in tr) and
                  any(e.name == "set" and e.args == ("is_established", False) for e in tr) and
                  any(e.name == "evt" and e.args == ("EVT_RELEASED",) for e in tr) and "kill" in names and how == "returned")
            I.ob(f"{P}/a-pending-release-request-is-answered-with-A-RELEASE-RP-and-the-association-ends-released", ok,
                 detail=f"{how}: {names}")
            chk = [e for e in tr if e.name == "is_release_requested"]
            I.ob(f"{P}/the-answered-indication-is-consumed", len(chk) == 1 and chk[0].args[1] is True)
        if g["release_pending"] and est and "serve_request" in names:
            # a request was served first in this iteration; the release check follows in the same iteration unless the
            # association stopped being established meanwhile (abort by the handler or the peer)
            I.ob(f"{P}/the-release-check-follows-the-served-request-in-the-same-iteration",
                 bool(g.get("checked")) or g.get("est_reads", 0) > 0, detail=f"{names}")
        if not g["release_pending"]:
            I.ob(f"{P}/no-release-response-without-a-request", not answered)
        # ---- C08 / C09: the network (idle) timeout.  The reactor asks the provider's idle timer (C09: a Timer on the monotone
        # clock) once per iteration; when it has run out the association is ended now - by the configured response - and the
        # reactor stops; while it has not, this iteration ends nothing on its own account
        idle = g.get("idle_asked")
        ended_by_peer = any(e.name == "set" and e.args[0] in ("is_released", "is_aborted") for e in tr)
        if idle is True and not ended_by_peer:
            want = "release" if g["timeout_response"] == "A-RELEASE" else "abort"
            I.ob(f"C08/{RUN}/network-timeout:the-association-is-ended-by-the-configured-response-and-the-reactor-stops",
                 names.count(want) == 1 and ({"release", "abort"} - {want}).isdisjoint(names) and "kill" in names and how == "returned"
                 and names.index(want) < names.index("kill"), detail=f"{how}: {names}")
        if idle is False:
            I.ob(f"C08/{RUN}/no-timeout-handling-while-the-idle-timer-has-not-run-out",
                 "abort" not in names and "release" not in names, detail=f"{names}")
        I.ob(f"C09/{RUN}/the-network-timeout-is-decided-by-the-provider's-idle-timer-asked-at-most-once-per-iteration",
             g.get("idle_asks", 0) <= 1)
        # ---- C27: terminal outcomes.  An iteration notifies at most one of EVT_RELEASED / EVT_ABORTED itself, with the matching
        # flag already set, kills the association after it and ends the reactor - so the reactor notifies at most one in its life
        term = [i for i, e in enumerate(tr) if e.name == "evt" and e.args[0] in ("EVT_RELEASED", "EVT_ABORTED")]
        ok27 = len(term) <= 1
        if len(term) == 1:
            flag = {"EVT_RELEASED": "is_released", "EVT_ABORTED": "is_aborted"}[tr[term[0]].args[0]]
            before = [e.args for e in tr[:term[0]] if e.name == "set"]
            ok27 = how == "returned" and (flag, True) in before and ("is_established", False) in before and "kill" in names[term[0]:]
        I.ob(f"C27/{RUN}/an-iteration-notifies-at-most-one-terminal-outcome-with-its-flag-set-then-kills-and-ends-the-reactor", ok27,
             detail=f"{how}: {names}")
        if how == "continues":
            I.ob(f"C27/{RUN}/an-iteration-that-continues-has-notified-no-terminal-outcome", not term, detail=f"{names}")
        if how == "continues":
            I.ob(f"C08/{RUN}/an-iteration-that-continues-blocked-on-nothing-but-the-bounded-waits",
                 all(e.name not in ("blocking",) for e in tr))

    def body(self, I):
        g = I.ghost
        me = Env("assoc", cls=I.repo.cls(f"{ASSOC}:Association"))
        for nm in ("dimse", "acse", "dul", "_reactor_checkpoint"):
            me.attrs[nm] = Env(f"assoc.{nm}")
        g["release_pending"] = I.choose(2, "A-RELEASE-RQ indication at the head of the queue") == 1
        g["established"] = I.choose(2, "established") == 0
        me.attrs["is_established"] = g["established"]
        me.attrs["_kill"] = False
        me.attrs["network_timeout_response"] = g["timeout_response"] = ["A-RELEASE", "A-ABORT"][I.choose(2, "timeout response")]
        kind, val = I.run_function(I.repo.func(RUN), [me])
        I.ob(f"C07/{RUN}/no-exception", kind == "return", detail=f"{kind}:{val!r}")
        if kind == "return":
            self.iteration_done(I, "returned")


# The upper-layer half of the exchange - the received A-RELEASE-RQ becomes the release indication (AR-2, or AR-8 on a collision)
# and nothing else, in particular no timer that could run out while the user is busy; the user's response is sent as A-RELEASE-RP
# (AR-4 / AR-9) - is the state machine's contract (C04), re-proved under this id for the release actions and the two events
RELEASE_ACTIONS = ("AR-2", "AR-4", "AR-8", "AR-9", "AR-10")
# ... and that the provider hands the state machine exactly the events that happened, one source per loop iteration (a second event for
# a primitive that is still queued would later run AR-7 on the release response and end the provider before the A-RELEASE-RP is sent),
# is the reactor contract of C05, re-proved under this id
RELABEL = {"C04/": "C07/release-actions:", "C05/": "C07/provider:"}
RELABEL_ONLY = {"C05/": r"run_reactor/(one-source-per-iteration|at-most-one-event-is-handed|the-only-event-the-loop-itself-queues|no-exception-escapes)|"
                        r"_process_recv_primitive/(queues-exactly-the-PS3.8-event|nothing-queued-for-an-empty)",
                "C04/": r"fsm:AR_(2|4|8|9|10)/(protocol-effects-are-exactly-PS3\.8|next-state-is-PS3\.8|no-exception|indication)|"
                        r"do_action/(performs-exactly-the-Table-9-10-action|moves-to-the-state-the-action-returned)"}


def tasks(tier):
    from contracts import C04
    return [IsReleaseRequestedTask(), CallSiteScan(), S.WrapHandlerTask("C20/"), RunReactorTask(), W.WrapTask("find"), W.WrapTask("getmove")] + \
        [C04.ActionTask(a) for a in RELEASE_ACTIONS] + [C04.DoActionTask(e) for e in ("Evt12", "Evt14")] + [_negotiate_release(), _send_release()] + _provider_tasks()


def _provider_tasks():
    from contracts.dul_reactor import DulReactorTask
    from contracts.C05 import ProcessPrimitiveTask
    return [DulReactorTask(), ProcessPrimitiveTask()]


def _send_release():
    from contracts.assoc_abort import SendReleaseTask
    return SendReleaseTask("C07/")


def _negotiate_release():
    # the peer's request arriving while the local user is releasing too (release collision)
    from contracts.assoc_abort import NegotiateReleaseTask
    return NegotiateReleaseTask()


def replay(rec):
    from pyvc.replay import run_replay
    oid = rec.get("id", "")
    if oid.startswith("C07/provider:"):
        return run_replay("C05", dict(rec, id="C05/" + oid[len("C07/provider:"):]))
    if oid.startswith("C07/release-actions:"):
        return run_replay("C04", dict(rec, id="C04/" + oid[len("C07/release-actions:"):]))
    return run_replay("C07", rec)


LEVEL_TEXT = ("sequential reduction of 'every arrival point' to a nondeterministic queue head at each release check; contracts on "
              "ACSE.is_release_requested, ServiceClass._wrap_handler (non-consuming check between handler results), one arbitrary "
              "iteration of Association._run_reactor (answer, flags, notification, kill) and the SCU response iterators (reactor released "
              "before the final item); AST scan: only the reactor consumes the indication.")
LEVEL_NOTE = "trusted: pyvc, z3, queue model (peek/receive), C04 for the DUL side (AR-2 indication, AR-4/AR-9 response PDU)."
TECHNIQUE = "deductive: ghost 'indication consumed only where answered' invariant over effect-trace contracts (is_release_requested, _wrap_handler, reactor iteration, negotiate_release collision, send_release; AST->VC) + exhaustive call-site scan + re-proved release actions of the state machine (C04)"

"""C22 — C-GET and C-MOVE sub-operation counters stay consistent."""
from contracts import svc as S

PROPERTY = "C22"
LEVEL = "proof"
ASSUMPTIONS = [
    "handler behaviour is adversarial (stream induction): any announced count, any result sequence, any dataset kind",
    "a C-STORE sub-operation either raises, or returns a dataset with any Status, or a dataset without Status",
]
NOT_DECIDED = []


def tasks(tier):
    return [S.GetMoveScpTask("get"), S.GetMoveScpTask("move")]


def replay(rec):
    from pyvc.replay import run_replay
    return run_replay("C22", rec)


LEVEL_TEXT = "loop invariant on the sub-operation bookkeeping of _get_scp/_move_scp"
LEVEL_NOTE = "trusted: pyvc, z3, environment model"
TECHNIQUE = "deductive: inductive loop invariant over store_results with per-response postconditions (AST->VC, z3)"

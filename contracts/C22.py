"""C22 — C-GET and C-MOVE sub-operation counters stay consistent."""
from contracts import svc as S

PROPERTY = "C22"
LEVEL = "proof"
# work in progress: the stream-inductive contracts in contracts/svc.py still leave obligations of this property failing or
# undecided that have not been triaged (replayed on the real code), and a quick run takes 1-8 minutes; the property is
# therefore NOT claimed in MANIFEST.json (tools/gen_manifest.py lists it under not_applicable).  `./check C22` runs it.
CLAIMED = True
NA_REASON = ("contracts for this property (contracts/svc.py) are work in progress: some obligations still fail or are undecided and "
             "have not been triaged by replay on the real code, so the check is not registered; not claimed (DESIGN.md section 10)")
ASSUMPTIONS = [
    "handler behaviour is adversarial (stream induction): any announced count, any result sequence, any dataset kind",
    "a C-STORE sub-operation either raises, or returns a dataset with any Status, or a dataset without Status",
]
NOT_DECIDED = []


def tasks(tier):
    return [S.GetMoveScpTask("get"), S.GetMoveScpTask("move")]


def replay(rec):
    from pyvc.replay import run_replay
    return run_replay("C22", rec)


LEVEL_TEXT = "loop invariant on the sub-operation bookkeeping of _get_scp/_move_scp"
LEVEL_NOTE = "trusted: pyvc, z3, environment model"
TECHNIQUE = "deductive: inductive loop invariant over store_results with per-response postconditions (AST->VC, z3)"

"""One arbitrary iteration of DULServiceProvider.run_reactor (the DUL thread's loop), as an effect-trace contract.
Obligations are emitted for the three properties the loop carries a part of:

  C05  ARTIM expiry is looked at first and queues exactly Evt18; one of {primitive from the user, data from the socket} is
       processed per iteration, the socket only when no primitive was waiting; at most ONE event is handed to the state
       machine per iteration, taken from the event queue without blocking; a failure while processing ends the provider
       with an A-ABORT (provider) on the wire and the association marked aborted - it does not escape;
  C08  the loop never blocks: the event queue is read with block=False, the only wait is the bounded run-loop delay;
  C09  the idle (network) timer is started when the reactor starts and restarted exactly when data arrived from the peer."""
import ast

import z3

from pyvc.task import Task
from pyvc.interp import Config, LoopSpec
from pyvc.values import SV, Obj, Env, Ev, ExcVal, PyRaise, Unsupported

DUL = "pynetdicom.dul"
RUN = f"{DUL}:DULServiceProvider.run_reactor"


class ReactorLoop(LoopSpec):
    def __init__(self, task):
        self.task = task

    def havoc(self, I, fr):
        g = I.ghost
        g["mark"] = len(I.trace)
        g["in_loop"] = True
        # the flags other threads / earlier iterations may have set: arbitrary at the head of an iteration
        me = g["me"]
        me.attrs["_kill_thread"] = I.fresh("bool", "_kill_thread")

    def after_body(self, I, fr):
        self.task.iteration_done(I, "continues")


class DulReactorTask(Task):
    name = "DULServiceProvider.run_reactor/one-iteration"
    functions = [RUN]
    shard = False

    def config(self, repo):
        c = Config()
        c.ob_prefix = "C05/"
        fi = repo.func(RUN)
        loops = sorted([n for n in ast.walk(fi.node) if isinstance(n, (ast.For, ast.While))], key=lambda n: (n.lineno, n.col_offset))
        if len(loops) != 1 or not isinstance(loops[0], ast.While):
            raise Unsupported("run_reactor: expected exactly one while loop")
        c.loop_specs[(RUN, 0)] = ReactorLoop(self)

        def sleep(I, a, k):
            I.trace.append(Ev("sleep", (a[0],)))
        c.ext_models["time.sleep"] = sleep

        def prp(I, a, k):
            r = I.choose(3, "_process_recv_primitive")
            I.trace.append(Ev("process_primitive", (r,)))
            if r == 2:
                raise PyRaise(ExcVal("ValueError", ("cannot encode the primitive",)))
            return r == 1
        c.summaries[f"{DUL}:DULServiceProvider._process_recv_primitive"] = prp

        def ite(I, a, k):
            r = I.choose(3, "_is_transport_event")
            I.trace.append(Ev("transport_event", (r,)))
            if r == 2:
                raise PyRaise(ExcVal("OSError", ("select failed",)))
            return r == 1
        c.summaries[f"{DUL}:DULServiceProvider._is_transport_event"] = ite
        c.summaries["pynetdicom.pdu:A_ABORT_RQ"] = lambda I, a, k: Env("abort_pdu")

        def env_call(I, env, method, args, kw):
            g = I.ghost
            p = env.path
            if p == "dul._idle_timer" and method in ("start", "restart", "stop"):
                I.trace.append(Ev(f"idle.{method}"))
                return None
            if p == "dul.artim_timer" and method in ("start", "restart", "stop"):
                I.trace.append(Ev(f"artim.{method}"))
                return None
            if p == "dul.assoc._dul_ready" and method == "is_set":
                return I.choose(2, "_dul_ready") == 0
            if p == "dul.assoc._dul_ready" and method == "set":
                I.trace.append(Ev("dul_ready.set"))
                return None
            if p == "dul.event_queue" and method == "put":
                I.trace.append(Ev("event.put", (args[0],)))
                return None
            if p == "dul.event_queue" and method == "get":
                blocking = kw.get("block", args[0] if args else True) is not False and kw.get("timeout", args[1] if len(args) > 1 else None) is None
                I.trace.append(Ev("event.get", (blocking,)))
                if I.choose(2, "an event is queued") == 1:
                    raise PyRaise(ExcVal("queue.Empty"))
                ev = Env("queued_event")
                g["taken"] = ev
                return ev
            if p == "dul.state_machine" and method == "do_action":
                I.trace.append(Ev("do_action", (args[0],)))
                return None
            if p == "abort_pdu" and method == "encode":
                return Env("abort_bytes")
            if p == "dul.socket" and method == "send":
                I.trace.append(Ev("socket.send", (args[0],)))
                return None
            return NotImplemented
        c.env_call = env_call

        def env_attr(I, env, name):
            from pyvc.values import Volatile
            if env.path == "dul.artim_timer" and name == "expired":
                v = I.choose(2, "ARTIM expired") == 1
                I.trace.append(Ev("artim.expired?", (v,)))
                return Volatile(v)
            return NotImplemented
        c.env_attr = env_attr
        return c

    def iteration_done(self, I, how):
        g = I.ghost
        tr = I.trace[g.get("mark", 0):]
        names = [e.name for e in tr]
        P5, P8, P9 = f"C05/{RUN}", f"C08/{RUN}", f"C09/{RUN}"
        me = g["me"]
        acts = [e for e in tr if e.name == "do_action"]
        puts = [e for e in tr if e.name == "event.put"]
        gets = [e for e in tr if e.name == "event.get"]
        prim = [e for e in tr if e.name == "process_primitive"]
        trans = [e for e in tr if e.name == "transport_event"]
        art = [e for e in tr if e.name == "artim.expired?"]
        # ---- C05
        I.ob(f"{P5}/at-most-one-event-is-handed-to-the-state-machine-per-iteration-and-it-is-the-one-taken-from-the-queue",
             len(acts) <= 1 and (not acts or (len(gets) == 1 and acts[0].args[0] is g.get("taken"))), detail=repr(names))
        I.ob(f"{P5}/the-only-event-the-loop-itself-queues-is-Evt18-and-only-when-ARTIM-has-run-out",
             all(e.args[0] == "Evt18" for e in puts) and len(puts) <= 1 and (not puts or (len(art) >= 1 and art[0].args[0] is True)),
             detail=repr([e.args for e in puts]))
        if art and art[0].args[0] is True and (prim or trans):
            I.ob(f"{P5}/an-expired-ARTIM-is-reported-before-anything-else-is-processed",
                 len(puts) == 1 and tr.index(puts[0]) < tr.index((prim + trans)[0]), detail=repr(names))
        I.ob(f"{P5}/one-source-per-iteration:a-waiting-primitive-first-the-socket-only-when-there-was-none",
             len(prim) <= 1 and len(trans) <= 1 and (not trans or (len(prim) == 1 and prim[0].args[0] == 0 and tr.index(prim[0]) < tr.index(trans[0]))),
             detail=repr(names))
        failed = (prim and prim[0].args[0] == 2) or (trans and trans[0].args[0] == 2)
        if failed:
            sends = [e for e in tr if e.name == "socket.send"]
            flags = {e.args[1]: e.args[2] for e in tr if e.name == "setattr" and e.args[0] == "dul.assoc"}
            I.ob(f"{P5}/a-failure-while-processing-ends-the-provider-with-an-A-ABORT-and-the-association-marked-aborted",
                 how == "returned" and len(sends) == 1 and not acts and flags.get("is_aborted") is True and flags.get("is_established") is False
                 and me.attrs.get("_kill_thread") is True, detail=f"{how}: {names} {flags}")
        # ---- C08
        I.ob(f"{P8}/the-event-queue-is-never-read-with-a-blocking-get", all(e.args[0] is False for e in gets), detail=repr(gets))
        # a peer that keeps the socket busy (or a user that keeps queueing primitives) must not keep the ARTIM timer from being
        # looked at: every iteration that processes anything has also asked the timer, and an expired timer was reported in it (that it is asked FIRST is C05's obligation)
        worked = prim + trans + gets
        if worked:
            I.ob(f"{P8}/ARTIM-expiry-is-examined-in-every-iteration-that-serves-the-peer-or-the-user",
                 len(art) >= 1 and (art[0].args[0] is not True or len(puts) == 1), detail=repr(names))
        sl = [e for e in tr if e.name == "sleep"]
        I.ob(f"{P8}/the-only-wait-in-an-iteration-is-the-run-loop-delay", len(sl) <= 1 and all(e.args[0] is g["delay"] for e in sl))
        # ---- C09
        restarts = [e for e in tr if e.name in ("idle.restart", "idle.start")]
        got_data = bool(trans) and trans[0].args[0] == 1
        I.ob(f"{P9}/the-idle-timer-is-restarted-exactly-when-data-arrived-from-the-peer", (len(restarts) == 1) == got_data and len(restarts) <= 1
             and "idle.stop" not in names, detail=repr(names))

    def body(self, I):
        g = I.ghost
        me = Env("dul", cls=I.repo.cls(f"{DUL}:DULServiceProvider"))
        g["me"] = me
        for nm in ("_idle_timer", "artim_timer", "assoc", "socket", "event_queue", "state_machine"):
            me.attrs[nm] = Env(f"dul.{nm}")
        me.attrs["assoc"].attrs["_dul_ready"] = Env("dul.assoc._dul_ready")
        g["delay"] = I.fresh("real", "_run_loop_delay")
        me.attrs["_run_loop_delay"] = g["delay"]
        me.attrs["_kill_thread"] = False
        kind, val = I.run_function(I.repo.func(RUN), [me])
        I.ob(f"C05/{RUN}/no-exception-escapes-the-loop-except-from-the-state-machine", kind == "return", detail=f"{kind}:{val!r}")
        pre = I.trace[:g.get("mark", len(I.trace))]
        I.ob(f"C09/{RUN}/the-idle-timer-is-started-when-the-reactor-starts", [e.name for e in pre if e.name.startswith("idle.")] == ["idle.start"],
             detail=repr([e.name for e in pre]))
        if kind == "return" and g.get("in_loop"):
            self.iteration_done(I, "returned")


ITE = f"{DUL}:DULServiceProvider._is_transport_event"


class TransportEventTask(Task):
    """DULServiceProvider._is_transport_event on its real body (the reactor contract above uses it by this contract): the socket
    is read at most once and only after `ready` reported data (the read itself is bounded by the socket timeouts - C03/C08); in
    Sta13, with nothing left to read, the provider's own socket is closed exactly once (which reports Evt17); in any other state
    with nothing to read NOTHING happens; the result is True exactly when it read or closed."""
    name = "DULServiceProvider._is_transport_event"
    functions = [ITE]
    shard = False

    def config(self, repo):
        c = Config()
        c.ob_prefix = "C05/"
        c.summaries[f"{DUL}:DULServiceProvider._read_pdu_data"] = lambda I, a, k: I.trace.append(Ev("read_pdu_data"))

        def env_call(I, env, method, args, kw):
            if env.path == "dul.socket" and method == "close":
                I.trace.append(Ev("socket.close"))
                return None
            return NotImplemented
        c.env_call = env_call

        def env_attr(I, env, name):
            from pyvc.values import Volatile
            if env.path == "dul.socket" and name == "ready":
                v = I.choose(2, "socket.ready") == 1
                I.trace.append(Ev("ready?", (v,)))
                return Volatile(v)
            return NotImplemented
        c.env_attr = env_attr
        return c

    def body(self, I):
        me = Env("dul", cls=I.repo.cls(f"{DUL}:DULServiceProvider"))
        sm = Env("dul.state_machine")
        sta13 = I.choose(2, "state") == 1
        sm.attrs["current_state"] = "Sta13" if sta13 else SV(z3.String("state"), "str")
        if not sta13:
            I.assume(z3.String("state") != z3.StringVal("Sta13"))
        has_socket = sta13 or I.choose(2, "a socket exists") == 0
        sock = Env("dul.socket")
        sock.truth = True
        me.attrs.update(state_machine=sm, socket=sock if has_socket else None)
        kind, val = I.run_function(I.repo.func(ITE), [me])
        P5, P8 = f"C05/{ITE}", f"C08/{ITE}"
        I.ob(f"{P5}/no-exception", kind == "return", detail=f"{kind}:{val!r}")
        if kind != "return":
            return
        tr = [e for e in I.trace if e.name in ("read_pdu_data", "socket.close", "ready?")]
        names = [e.name for e in tr]
        reads = [i for i, e in enumerate(tr) if e.name == "read_pdu_data"]
        closes = [i for i, e in enumerate(tr) if e.name == "socket.close"]
        ready = [e for e in tr if e.name == "ready?"]
        I.ob(f"{P8}/the-socket-is-read-at-most-once-and-only-after-ready-reported-data",
             len(reads) <= 1 and (not reads or (len(ready) >= 1 and ready[-1].args[0] is True and names.index("ready?") < reads[0])), detail=repr(names))
        I.ob(f"{P5}/ready-is-asked-at-most-once", len(ready) <= 1, detail=repr(names))
        got_data = bool(ready) and ready[0].args[0] is True
        I.ob(f"{P5}/data-that-ready-reported-is-read", (len(reads) == 1) == got_data, detail=repr(names))
        I.ob(f"{P5}/the-socket-is-closed-exactly-when-nothing-is-left-to-read-in-Sta13", (len(closes) == 1) == (sta13 and not got_data) and len(closes) <= 1,
             detail=f"Sta13={sta13}: {names}")
        res = I.as_bool(val)
        I.ob(f"{P5}/true-exactly-when-it-read-or-closed", res is (bool(reads) or bool(closes)), detail=f"{val!r}: {names}")
        sets = [e for e in I.trace if e.name == "setattr" and e.args[0] == "dul" and e.args[1] != "socket"]
        I.ob(f"{P5}/changes-nothing-of-the-provider-itself", not sets, detail=repr(sets))

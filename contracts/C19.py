"""C19 — requests on presentation contexts that were not accepted never reach a handler."""
from contracts import assoc_serve as S

PROPERTY = "C19"
LEVEL = "proof"
ASSUMPTIONS = [
    "Association._serve_request is the only route from a received DIMSE request to ServiceClass.SCP on the acceptor/SCP side "
    "(call sites: _run_reactor and the N-EVENT-REPORT thread in receive_primitive)",
    "the accepted-context map is an abstract dict: membership of the received context id is the truth value of `id in _accepted_cx`",
    "the C-GET SCU path (_c_store_scp) is covered by contracts/assoc_scu (C18/C19 obligations there)",
]


class ServiceClassTableTask:
    pass


def _table_task():
    from pyvc.task import FiniteTask
    from pyvc.interp import Interp, Config

    class ServiceClassTable(FiniteTask):
        """sop_class.uid_to_service_class - the dispatch a request's abstract syntax goes through before any handler can run - executed
        on EVERY SOP class UID pynetdicom defines: the SOP class tables are pairwise disjoint (the order of the look-ups cannot
        matter), every UID of one table reaches one service class, a UID of no table reaches the base class (whose SCP refuses the
        request), and a handful of anchor facts from PS3.4 (Verification, CT Image Storage, Patient Root FIND, Modality Worklist,
        UPS Push, Storage Commitment Push, Basic Grayscale Print, MPPS) name the class."""
        name = "sop_class.uid_to_service_class/every-defined-SOP-class"
        FN = "pynetdicom.sop_class:uid_to_service_class"
        functions = [FN]
        ANCHORS = {"1.2.840.10008.1.1": "VerificationServiceClass", "1.2.840.10008.5.1.4.1.1.2": "StorageServiceClass",
                   "1.2.840.10008.5.1.4.1.2.1.1": "QueryRetrieveServiceClass", "1.2.840.10008.5.1.4.31": "BasicWorklistManagementServiceClass",
                   "1.2.840.10008.5.1.4.34.6.1": "UnifiedProcedureStepServiceClass", "1.2.840.10008.1.20.1": "StorageCommitmentServiceClass",
                   "1.2.840.10008.5.1.1.9": "PrintManagementServiceClass", "1.2.840.10008.3.1.2.3.3": "ProcedureStepServiceClass"}

        def check(self, repo, emit):
            I = Interp(repo, Config())
            ns = I.module_ns(repo.module("pynetdicom.sop_class"))
            tables = {k: v for k, v in ns.items() if k.startswith("_") and k.endswith("_CLASSES") and isinstance(v, dict)}
            P = f"C19/{self.FN}"
            emit(f"{P}/SOP-class-tables-found", len(tables) >= 10 and sum(len(t) for t in tables.values()) >= 150,
                 detail=f"{len(tables)} tables, {sum(len(t) for t in tables.values())} UIDs")
            seen, dup = {}, []
            for tn, t in sorted(tables.items()):
                for uid in t.values():
                    if uid in seen and seen[uid] != tn:
                        dup.append((uid, seen[uid], tn))
                    seen[uid] = tn
            emit(f"{P}/the-SOP-class-tables-are-pairwise-disjoint", not dup, detail=str(dup[:5]))
            fi = repo.func(self.FN)

            def run(uid):
                kind, val = Interp(repo, Config()).run_function(fi, [uid])
                return getattr(getattr(val, "ci", None), "name", None) if kind == "return" else f"{kind}:{val!r}"
            per_table, mixed = {}, []
            for tn, t in sorted(tables.items()):
                got = {run(uid) for uid in t.values()}
                per_table[tn] = got
                if len(got) != 1 or any(g is None or ":" in str(g) for g in got):
                    mixed.append((tn, sorted(map(str, got))))
            emit(f"{P}/every-UID-of-a-table-reaches-one-service-class-and-nothing-raises", not mixed, detail=str(mixed[:5]))
            by_uid = {uid: next(iter(per_table[tn])) for uid, tn in seen.items() if len(per_table[tn]) == 1}
            wrong = [(u, by_uid.get(u), w) for u, w in self.ANCHORS.items() if by_uid.get(u) != w]
            emit(f"{P}/anchor-SOP-classes-reach-the-service-class-PS3.4-defines-them-in", not wrong, detail=str(wrong))
            emit(f"{P}/a-UID-of-no-table-reaches-the-base-class", run("1.2.826.0.1.3680043.9.3811.99") == "ServiceClass")
    return ServiceClassTable()


def tasks(tier):
    from contracts import assoc_scu
    from contracts.dimse_frag import DecodeStepTask
    # which context a received request "arrived on" is decided in decode_msg (the id of its last command fragment)
    return [S.ServeTask(), assoc_scu.CStoreScpTask("C19/"), DecodeStepTask("C15/"), _table_task()]


def replay(rec):
    from pyvc.replay import run_replay
    return run_replay("C19", rec)


LEVEL_TEXT = ("_serve_request executed symbolically for an arbitrary context id against an abstract accepted-context map: the service "
              "class is entered only if the id is accepted and with that id's context; otherwise the association is aborted and "
              "nothing is answered. Same obligation on the C-GET sub-operation path (_c_store_scp).")
LEVEL_NOTE = "trusted: pyvc, z3, environment model of the association; service-class internals are C20/C21."
TECHNIQUE = "deductive: reachability/effect-trace contract on Association._serve_request and _c_store_scp, context id of decode_msg (AST->VC, z3) + exhaustive execution of uid_to_service_class over every SOP class table"

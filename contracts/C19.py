"""C19 — requests on presentation contexts that were not accepted never reach a handler."""
from contracts import assoc_serve as S

PROPERTY = "C19"
LEVEL = "proof"
ASSUMPTIONS = [
    "Association._serve_request is the only route from a received DIMSE request to ServiceClass.SCP on the acceptor/SCP side "
    "(call sites: _run_reactor and the N-EVENT-REPORT thread in receive_primitive)",
    "the accepted-context map is an abstract dict: membership of the received context id is the truth value of `id in _accepted_cx`",
    "the C-GET SCU path (_c_store_scp) is covered by contracts/assoc_scu (C18/C19 obligations there)",
]


def tasks(tier):
    from contracts import assoc_scu
    from contracts.dimse_frag import DecodeStepTask
    # which context a received request "arrived on" is decided in decode_msg (the id of its last command fragment)
    return [S.ServeTask(), assoc_scu.CStoreScpTask("C19/"), DecodeStepTask("C15/")]


def replay(rec):
    from pyvc.replay import run_replay
    return run_replay("C19", rec)


LEVEL_TEXT = ("_serve_request executed symbolically for an arbitrary context id against an abstract accepted-context map: the service "
              "class is entered only if the id is accepted and with that id's context; otherwise the association is aborted and "
              "nothing is answered. Same obligation on the C-GET sub-operation path (_c_store_scp).")
LEVEL_NOTE = "trusted: pyvc, z3, environment model of the association; service-class internals are C20/C21."
TECHNIQUE = "deductive: reachability/effect-trace contract on Association._serve_request and _c_store_scp (AST->VC, z3)"

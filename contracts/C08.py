"""C08 — no peer behaviour keeps pynetdicom blocked past its configured timeouts (PARTIAL).

What function contracts can express here is that every call that can BLOCK ON THE PEER is issued with a finite bound taken
from the configured timeouts.  Ghost state: the timeout of the transport socket, tracked through settimeout().

 * AssociationSocket._create_socket / connect: after a successful connect the socket's timeout is the network timeout again
   (connect() temporarily installs the connection timeout);
 * RequestHandler._create_association: an accepted socket gets the network timeout before it is wrapped (CPython's accept()
   returns sockets without a timeout);
 * AssociationSocket.recv: blocks only in socket.recv (each call bounded by the ghost socket timeout; the number of calls is
   bounded by the variant proved in C03);
 * DIMSEServiceProvider.get_msg / DULServiceProvider.receive_pdu: exactly one Queue.get with the caller's block flag and the
   DIMSE / given timeout - no re-arming;
 * AST scan: every blocking receive_pdu(wait=True) in the ACSE / association code passes the ACSE timeout.

Not decided (outside function contracts): that every thread actually finishes (liveness), a peer that dribbles one byte per
(timeout - epsilon), scheduling delays, the polling loops of Association.kill()/release()."""
import ast
import os

import z3

from pyvc.task import Task, FiniteTask
from pyvc.interp import Interp, Config
from pyvc.values import SV, Obj, Env, Ev, ExcVal, PyRaise, Unsupported

PROPERTY = "C08"
LEVEL = "other"
TR = "pynetdicom.transport"
CONNECT = f"{TR}:AssociationSocket.connect"
CREATE = f"{TR}:AssociationSocket._create_socket"
HANDLER = f"{TR}:RequestHandler._create_association"
GETMSG = "pynetdicom.dimse:DIMSEServiceProvider.get_msg"
RECVPDU = "pynetdicom.dul:DULServiceProvider.receive_pdu"
ASSUMPTIONS = [
    "socket.settimeout(t) bounds every later blocking recv/send/connect on that socket by t seconds (None: unbounded); "
    "socket.accept() returns a socket without a timeout (CPython); Queue.get(block, timeout) returns within timeout or raises Empty",
    "the number of socket.recv calls of one AssociationSocket.recv(n) is at most n (variant proved in C03)",
]
NOT_DECIDED = [
    "liveness: that the association and provider threads actually end after the bounded calls return (polling loops in "
    "Association.kill/release/abort, DUL reactor progress) - needs a scheduler model",
    "a peer that sends one byte just before every per-call timeout ('dribbling'): each recv is bounded, their sum is not",
    "TLS handshakes, DNS resolution, scheduling delays",
]


def sock_env(I, name="sock"):
    s = Env(name)
    s.truth = True
    return s


def settimeouts(I, path):
    return [e.args[0] for e in I.trace if e.name == f"{path}.settimeout"]


def base_config():
    c = Config()
    c.ob_prefix = "C08/"
    c.summaries["pynetdicom.events:trigger"] = lambda I, a, k: None

    def env_call(I, env, method, args, kw):
        if method == "settimeout":
            I.trace.append(Ev(f"{env.path}.settimeout", tuple(args)))
            return None
        if method == "connect" and env.path.endswith("socket"):
            I.trace.append(Ev(f"{env.path}.connect", tuple(args)))
            if I.choose(2, "connect") == 1:
                I.ghost["connect_failed"] = True
                raise PyRaise(ExcVal(["OSError", "TimeoutError"][I.choose(2, "which")], ("connect failed",)))
            return None
        return NotImplemented
    c.env_call = env_call
    return c


class ConnectTask(Task):
    name = "AssociationSocket.connect"
    functions = [CONNECT]

    def config(self, repo):
        c = base_config()
        c.summaries[f"{TR}:AddressInformation.from_tuple"] = lambda I, a, k: Env("addr")
        return c

    def body(self, I):
        P = f"C08/{CONNECT}"
        g = I.ghost
        me = Env("asock", cls=I.repo.cls(f"{TR}:AssociationSocket"))
        sock = sock_env(I, "asock.socket")
        me.attrs["socket"] = sock
        me.attrs["tls_args"] = None
        me.attrs["_tls_args"] = None
        assoc = Env("asock.assoc")
        nt = I.input("real", "network_timeout")
        has_nt = I.choose(2, "network_timeout is None") == 0
        assoc.attrs["network_timeout"] = nt if has_nt else None
        assoc.attrs["connection_timeout"] = I.input("real", "connection_timeout") if I.choose(2, "connection_timeout is None") == 0 else None
        me.attrs["assoc"] = assoc
        me.attrs["_assoc"] = assoc
        prim = Env("t_connect")
        kind, val = I.run_function(I.repo.func(CONNECT), [me, prim])
        I.ob(f"{P}/no-exception-escapes", kind == "return", detail=f"{kind}:{val!r}")
        ts = settimeouts(I, "asock.socket")
        connects = [e for e in I.trace if e.name == "asock.socket.connect"]
        if connects and not g.get("connect_failed"):
            I.ob(f"{P}/the-connection-attempt-itself-is-bounded-by-the-connection-timeout",
                 len(ts) >= 1 and ts[0] is assoc.attrs["connection_timeout"] and
                 I.trace.index(next(e for e in I.trace if e.name == "asock.socket.settimeout")) < I.trace.index(connects[0]))
            I.ob(f"{P}/after-a-successful-connect-the-socket-timeout-is-the-network-timeout",
                 len(ts) >= 2 and ts[-1] is assoc.attrs["network_timeout"],
                 detail=f"settimeout calls: {ts!r}; network_timeout {'set' if has_nt else 'None'}")


class AcceptedSocketTask(Task):
    name = "RequestHandler._create_association"
    functions = [HANDLER]

    def config(self, repo):
        c = base_config()
        c.ext_models["datetime.datetime.strftime"] = lambda I, a, k: "20260101000000"
        c.ext_models["datetime.datetime.now"] = lambda I, a, k: Env("now")
        c.ext_models["copy.deepcopy"] = lambda I, a, k: a[0]
        c.summaries["pynetdicom.association:Association"] = lambda I, a, k: I.ghost["assoc"]

        def asock(I, args, kw):
            I.trace.append(Ev("wrap", (kw.get("client_socket"),)))
            return Env("wrapped")
        c.summaries[f"{TR}:AssociationSocket"] = asock
        c.summaries[f"{TR}:AddressInformation.from_tuple"] = lambda I, a, k: Env("addr")
        return c

    def body(self, I):
        P = f"C08/{HANDLER}"
        g = I.ghost
        me = Env("handler", cls=I.repo.cls(f"{TR}:RequestHandler"))
        req = sock_env(I, "handler.request")
        me.attrs["request"] = req
        srv = Env("handler.server")
        srv.attrs["_handlers"] = {}
        me.attrs["server"] = srv
        me.attrs["client_address"] = ("127.0.0.1", 50000)
        assoc = Env("assoc")
        has_nt = I.choose(2, "network_timeout is None") == 0
        nt = I.input("real", "network_timeout")
        assoc.attrs["network_timeout"] = nt if has_nt else None
        g["assoc"] = assoc
        kind, val = I.run_function(I.repo.func(HANDLER), [me])
        I.ob(f"{P}/no-exception-escapes", kind == "return", detail=f"{kind}:{val!r}")
        ts = settimeouts(I, "handler.request")
        wraps = [e for e in I.trace if e.name == "wrap"]
        I.ob(f"{P}/the-accepted-socket-is-the-one-the-association-uses", len(wraps) == 1 and wraps[0].args[0] is req)
        if has_nt:
            I.ob(f"{P}/an-accepted-socket-gets-the-network-timeout-before-it-is-used",
                 len(ts) >= 1 and ts[-1] is nt and wraps and
                 I.trace.index(next(e for e in I.trace if e.name == "handler.request.settimeout")) < I.trace.index(wraps[0]),
                 detail=f"settimeout calls on the accepted socket: {ts!r}")
        else:
            I.ob(f"{P}/without-a-network-timeout-none-is-installed", all(t is None for t in ts))


class GetMsgTask(Task):
    name = "DIMSEServiceProvider.get_msg"
    functions = [GETMSG]

    def config(self, repo):
        c = base_config()

        def env_call(I, env, method, args, kw):
            if env.path == "dimse.msg_queue" and method == "get":
                I.trace.append(Ev("queue.get", tuple(args), dict(kw)))
                if I.choose(2, "queue.get") == 1:
                    raise PyRaise(ExcVal("queue.Empty"))
                return I.ghost["item"]
            return NotImplemented
        c.env_call = env_call
        return c

    def body(self, I):
        P = f"C08/{GETMSG}"
        g = I.ghost
        me = Env("dimse", cls=I.repo.cls("pynetdicom.dimse:DIMSEServiceProvider"))
        dt = I.input("real", "dimse_timeout")
        me.attrs["dimse_timeout"] = dt if I.choose(2, "dimse_timeout is None") == 0 else None
        # whatever state the receive side is in (a partly received message, a live DUL) must not extend the wait
        me.attrs["message"] = [None, Env("partial_message")][I.choose(2, "a message is partly received")]
        g["item"] = (SV(z3.Int("cx"), "int"), Env("msg"))
        block = I.choose(2, "block") == 0
        kind, val = I.run_function(I.repo.func(GETMSG), [me], {"block": block})
        I.ob(f"{P}/no-exception-escapes", kind == "return", detail=f"{kind}:{val!r}")
        gets = [e for e in I.trace if e.name == "queue.get"]
        I.ob(f"{P}/waits-at-most-once-and-with-the-DIMSE-timeout",
             len(gets) == 1 and gets[0].kwargs.get("timeout") is me.attrs["dimse_timeout"] and gets[0].kwargs.get("block") is block,
             detail=f"{len(gets)} Queue.get calls: {[e.kwargs for e in gets]!r}")
        if kind == "return":
            I.ob(f"{P}/returns-the-queued-message-or-(None,None)-on-timeout", val is g["item"] or val == (None, None))


class ReceivePduTask(Task):
    name = "DULServiceProvider.receive_pdu"
    functions = [RECVPDU]

    def config(self, repo):
        c = base_config()

        def env_call(I, env, method, args, kw):
            if env.path == "dul.to_user_queue" and method == "get":
                I.trace.append(Ev("queue.get", tuple(args), dict(kw)))
                if I.choose(2, "queue.get") == 1:
                    raise PyRaise(ExcVal("queue.Empty"))
                return Env("primitive")
            return NotImplemented
        c.env_call = env_call
        return c

    def body(self, I):
        P = f"C08/{RECVPDU}"
        me = Env("dul", cls=I.repo.cls("pynetdicom.dul:DULServiceProvider"))
        wait = I.choose(2, "wait") == 0
        t = I.input("real", "timeout") if I.choose(2, "timeout is None") == 0 else None
        kind, val = I.run_function(I.repo.func(RECVPDU), [me], {"wait": wait, "timeout": t})
        I.ob(f"{P}/no-exception-escapes", kind == "return", detail=f"{kind}:{val!r}")
        gets = [e for e in I.trace if e.name == "queue.get"]
        I.ob(f"{P}/waits-at-most-once-and-with-the-callers-timeout",
             len(gets) == 1 and gets[0].kwargs.get("timeout") is t and gets[0].kwargs.get("block") is wait, detail=repr([e.kwargs for e in gets]))


class BlockingCallScan(FiniteTask):
    """every blocking wait for a primitive from the peer (receive_pdu(wait=True ...)) in the ACSE / association code carries
    a timeout that is one of the configured ones"""
    name = "frame/blocking-waits-for-the-peer-carry-a-configured-timeout"
    functions = []

    def check(self, repo, emit):
        from pyvc.repo import REPO_ROOT
        sites = []
        for fn in ("acse.py", "association.py", "ae.py", "service_class.py"):
            path = os.path.join(REPO_ROOT, "pynetdicom", fn)
            tree = ast.parse(open(path, encoding="utf-8").read())
            for f in ast.walk(tree):
                if not isinstance(f, ast.FunctionDef):
                    continue
                for n in ast.walk(f):
                    if isinstance(n, ast.Call) and isinstance(n.func, ast.Attribute) and n.func.attr == "receive_pdu":
                        kws = {k.arg: k.value for k in n.keywords}
                        wait = kws.get("wait")
                        blocking = not (isinstance(wait, ast.Constant) and wait.value is False)
                        tmo = ast.unparse(kws["timeout"]) if "timeout" in kws else None
                        if "timeout" in kws and isinstance(kws["timeout"], ast.Name):
                            # a local that was assigned a configured timeout (hoisted attribute read): every assignment counts
                            vals = [ast.unparse(a.value) for a in ast.walk(f) if isinstance(a, (ast.Assign, ast.AnnAssign)) and a.value is not None
                                    and any(isinstance(t, ast.Name) and t.id == kws["timeout"].id
                                            for t in (a.targets if isinstance(a, ast.Assign) else [a.target]))]
                            if vals and all(v.endswith("_timeout") for v in vals):
                                tmo = vals[0]
                        sites.append((fn, f.name, n.lineno, blocking, tmo))
        emit("C08/frame/receive_pdu-call-sites-found", len(sites) >= 4, detail=sites)
        for fn, fname, line, blocking, tmo in sites:
            if blocking:
                emit(f"C08/frame/{fn}:{fname}/blocking-receive_pdu-carries-a-configured-timeout",
                     tmo is not None and tmo.endswith("_timeout"), detail=f"line {line}: timeout={tmo}")


class QueueScan(FiniteTask):
    """Hand-over between the threads of an association goes through queue.Queue objects.  `put()` is called without a timeout
    everywhere (user thread -> provider, provider -> user); that can never block only because every queue is UNBOUNDED.  The
    scan states exactly that: every queue the library constructs has no maximum size, or - should one be bounded - every put on
    a queue is non-blocking or carries a timeout."""
    name = "frame/queues-between-threads-never-block-a-put"
    functions = []

    def check(self, repo, emit):
        from pyvc.repo import REPO_ROOT
        ctors, puts = [], []
        root = os.path.join(REPO_ROOT, "pynetdicom")
        for dp, dn, fns in os.walk(root):
            if any(x in dp.split(os.sep) for x in ("tests", "benchmarks", "apps", "docs")):
                continue
            for fn in fns:
                if not fn.endswith(".py"):
                    continue
                path = os.path.join(dp, fn)
                rel = os.path.relpath(path, REPO_ROOT)
                for n in ast.walk(ast.parse(open(path, encoding="utf-8").read())):
                    if not isinstance(n, ast.Call):
                        continue
                    f = ast.unparse(n.func)
                    if f in ("queue.Queue", "Queue", "queue.LifoQueue", "queue.PriorityQueue", "queue.SimpleQueue"):
                        size = n.args[0] if n.args else next((k.value for k in n.keywords if k.arg == "maxsize"), None)
                        unbounded = size is None or (isinstance(size, ast.Constant) and isinstance(size.value, int) and size.value <= 0)
                        ctors.append((rel, n.lineno, ast.unparse(n), unbounded))
                    if isinstance(n.func, ast.Attribute) and n.func.attr == "put" and "queue" in ast.unparse(n.func.value).lower():
                        kws = {k.arg: k.value for k in n.keywords}
                        nonblocking = ("timeout" in kws) or (isinstance(kws.get("block"), ast.Constant) and kws["block"].value is False) or \
                            (len(n.args) > 1 and isinstance(n.args[1], ast.Constant) and n.args[1].value is False)
                        puts.append((rel, n.lineno, ast.unparse(n)[:60], nonblocking))
        emit("C08/frame/queue-constructions-found", len(ctors) >= 4, detail=[c[:3] for c in ctors])
        all_unbounded = all(c[3] for c in ctors)
        emit("C08/frame/every-queue-between-threads-is-unbounded-or-every-put-is-bounded",
             all_unbounded or all(p[3] for p in puts),
             detail={"bounded queues": [c[:3] for c in ctors if not c[3]], "blocking puts": [p[:3] for p in puts if not p[3]][:6]})


def tasks(tier):
    from contracts import recvpath
    from contracts.dul_reactor import DulReactorTask, TransportEventTask
    from contracts.C07 import RunReactorTask
    return [ConnectTask(), AcceptedSocketTask(), GetMsgTask(), ReceivePduTask(), BlockingCallScan(), QueueScan(), DulReactorTask(), RunReactorTask(),
            TransportEventTask(), _negotiate_release(), _release_call(), _kill_call(), _abort_call()]


def _abort_call():
    # "ends the association (abort or close) and releases its threads and socket"
    from contracts.assoc_abort import AbortTask
    return AbortTask("C08/")


def _kill_call():
    from contracts.assoc_abort import KillTask
    return KillTask("C08/")


def _release_call():
    from contracts.assoc_abort import ReleaseCallTask
    return ReleaseCallTask("C08/")


def _negotiate_release():
    from contracts.assoc_abort import NegotiateReleaseTask
    return NegotiateReleaseTask()


def replay(rec):
    from pyvc.replay import run_replay
    oid = rec.get("id", "")
    if "ACSE.negotiate_release" in oid:
        return run_replay("C07", dict(rec, id="C07/" + oid[len("C08/"):]))
    return run_replay("C08", rec, timeout=180)


LEVEL_TEXT = ("contract-based, partial: ghost socket timeout tracked through settimeout() in connect() and for accepted sockets; single "
              "bounded Queue.get in get_msg / receive_pdu; AST scan of the blocking waits. Thread termination (liveness) is not decided. One arbitrary iteration of both reactor loops: non-blocking queue reads, bounded delay, network timeout ends the association by the configured response.")
LEVEL_NOTE = "level 'other': liveness and dribbling peers are outside function contracts (see not_decided)."
TECHNIQUE = 'deductive: effect-trace contracts with a ghost socket timeout and bounded-wait traces (connect, accepted sockets, get_msg/receive_pdu, reactor iterations, negotiate_release, release, kill; AST->VC) + exhaustive AST scans of blocking call sites and queue constructions'

"""C25 — datasets arrive exactly as sent (composition lemma + accessor contracts; the dataset codec is ASSUMED).

 * bytes at the receiving handler = bytes encoded by the sender: C15 (fragmentation/reassembly for any maximum PDU size, memory
   and file-backed send) o C01 (P-DATA-TF wire form) o C18/C19 (same accepted context, hence the same transfer syntax, on both
   sides) - proved under those ids, referenced here;
 * dsutils.encode / dsutils.decode executed from their AST over an ABSTRACT codec: pydicom.write_dataset writes W(ds, implicit,
   little), read_dataset inverts W for the same flags, raw deflate round-trips and ignores one trailing NUL (assumed library
   contracts): decode(encode(ds, f), f) is ds for the flag triples of the four uncompressed/deflated transfer syntaxes, and the
   flags used for reading are the flags used for writing;
 * Event._get_dataset decodes exactly the request's bytes with the context's transfer-syntax flags (and its cache never
   returns a dataset decoded from other bytes); Event.encoded_dataset(include_meta=False) returns exactly the request's bytes -
   REFUTED in chunked-receive mode (open known finding)."""
import z3

from pyvc.task import Task, FiniteTask
from pyvc.interp import Interp, Config
from pyvc.values import SV, Obj, Env, Ev, ExcVal, PyRaise, Unsupported
from contracts.negotiation import UIDv, lit_id

PROPERTY = "C25"
LEVEL = "other"
DS = "pynetdicom.dsutils"
EV = "pynetdicom.events"
ASSUMPTIONS = [
    "ASSUMED library contracts (pydicom, zlib are external): read_dataset(W(ds, i, l), i, l) == ds where W is what write_dataset "
    "wrote with the same flags; zlib raw deflate: decompress(compress(x) + flush() [+ one NUL], -MAX_WBITS) == x",
    "pydicom UID.is_implicit_VR / is_little_endian / is_deflated of the four transfer syntaxes are (T,T,F) (F,T,F) (F,F,F) (F,T,T)",
    "wire transport of the encoded bytes: C15, C01, C18, C19 (proved under those ids)",
]
NOT_DECIDED = [
    "pydicom's dataset codec itself (every VR, sequences, private tags) and zlib - external, assumed",
    "the file written in chunked-receive mode (preamble, prefix, file meta, concatenated fragments) and dcmread of it",
]
# (is_implicit_VR, is_little_endian, is_deflated) of Implicit LE, Explicit LE, Explicit BE, Deflated Explicit LE
SYNTAXES = {"ImplicitVRLittleEndian": (True, True, False), "ExplicitVRLittleEndian": (False, True, False),
            "ExplicitVRBigEndian": (False, False, False), "DeflatedExplicitVRLittleEndian": (False, True, True)}


class Blob:
    """abstract byte string: a symbolic term built from the codec's uninterpreted operations"""
    ext_class = "bytes"

    def __init__(self, term):
        self.term = term          # nested tuples

    def sym_kind(self):
        return "abytes"

    def truth(self, I):
        return True

    def sym_len(self, I):
        if "len" not in self.__dict__:
            self.len = I.fresh("int", "len(blob)")
            I.assume(self.len.e >= 1)
        return self.len

    def sym_binop(self, I, op, other, reflected):
        import ast as _ast
        if isinstance(op, _ast.Add) and not reflected:
            if other == b"":
                return self
            if other == b"\x00":
                return Blob(("pad", self.term))
        if isinstance(op, _ast.Mod) and isinstance(other, int):
            return NotImplemented
        return NotImplemented

    def sym_eq(self, I, other):
        return isinstance(other, Blob) and other.term == self.term


def codec_config(prefix="C25/"):
    c = Config()
    c.ob_prefix = prefix

    def dicom_bytes_io(I, a, k):
        fp = Env("DicomBytesIO")
        fp.data["written"] = []
        parent = Env("DicomBytesIO.parent")
        parent.data["fp"] = fp
        fp.attrs["parent"] = parent
        return fp
    c.ext_models["pydicom.filebase.DicomBytesIO"] = dicom_bytes_io

    def write_dataset(I, a, k):
        fp, ds = a[0], a[1]
        flags = (fp.attrs.get("is_implicit_VR"), fp.attrs.get("is_little_endian"))
        I.trace.append(Ev("write_dataset", (ds, flags)))
        fp.data["written"].append(("W", id(ds), flags))
        I.ghost.setdefault("objs", {})[id(ds)] = ds
        return None
    c.ext_models["pydicom.filewriter.write_dataset"] = write_dataset

    def read_dataset(I, a, k):
        src, imp, little = a[0], a[1], a[2]
        content = src.data.get("content") if isinstance(src, Env) else None
        I.trace.append(Ev("read_dataset", (content, (imp, little))))
        if isinstance(content, Blob) and content.term[0] == "W" and content.term[2] == (imp, little):
            return I.ghost["objs"][content.term[1]]
        return Env("some-other-dataset")
    c.ext_models["pydicom.filereader.read_dataset"] = read_dataset

    def bytesio(I, a, k):
        e = Env("BytesIO")
        e.kind = "BytesIO"
        e.data["content"] = a[0] if a else b""
        return e
    c.ext_models["io.BytesIO"] = bytesio

    def compressobj(I, a, k):
        return Env("compressor")
    c.ext_models["zlib.compressobj"] = compressobj
    for nm, v in (("zlib.Z_DEFAULT_COMPRESSION", -1), ("zlib.DEFLATED", 8), ("zlib.MAX_WBITS", 15)):
        c.ext_models[nm] = v

    def decompress(I, a, k):
        b = a[0]
        t = b.term if isinstance(b, Blob) else None
        if t and t[0] == "pad":
            t = t[1]
        if t and t[0] == "deflate_flush" and a[1] == -15:
            return Blob(t[1])
        return Blob(("garbage",))
    c.ext_models["zlib.decompress"] = decompress

    def env_call(I, env, method, args, kw):
        if env.path == "DicomBytesIO.parent" and method == "getvalue":
            w = env.data["fp"].data["written"]
            return Blob(w[0]) if len(w) == 1 else Blob(("concat", tuple(w)))
        if env.path == "DicomBytesIO" and method == "close":
            return None
        if env.path == "compressor" and method == "compress":
            return Blob(("deflate", args[0].term))
        if env.path == "compressor" and method == "flush":
            return Blob(("flush",))
        if env.kind == "BytesIO" and method == "seek":
            return 0
        if env.kind == "BytesIO" and method == "getvalue":
            return env.data["content"]
        return NotImplemented
    c.env_call = env_call
    return c


class _Deflated(Blob):
    pass


def _blob_add(self, I, op, other, reflected):
    import ast as _ast
    if isinstance(op, _ast.Add) and not reflected:
        if isinstance(other, Blob) and self.term[0] == "deflate" and other.term == ("flush",):
            return Blob(("deflate_flush", self.term[1]))
        if other == b"":
            return self
        if other == b"\x00":
            return Blob(("pad", self.term))
    return NotImplemented


Blob.sym_binop = _blob_add


class CodecRoundTripTask(Task):
    name = "dsutils.encode-decode/round-trip-under-the-assumed-codec"
    functions = [f"{DS}:encode", f"{DS}:decode"]

    def config(self, repo):
        c = codec_config()
        # constants that ext_models hold as plain values
        for nm in ("zlib.Z_DEFAULT_COMPRESSION", "zlib.DEFLATED", "zlib.MAX_WBITS"):
            c.ext_consts[nm] = c.ext_models.pop(nm)
        return c

    def body(self, I):
        P = "C25/dsutils"
        names = list(SYNTAXES)
        ts = names[I.choose(len(names), "transfer syntax")]
        imp, little, defl = SYNTAXES[ts]
        ds = Env("the-dataset")
        ds.truth = True
        kind, enc = I.run_function(I.repo.func(f"{DS}:encode"), [ds, imp, little, defl])
        I.ob(f"{P}/encode-does-not-raise", kind == "return", detail=f"{kind}:{enc!r}")
        if kind != "return":
            return
        I.ob(f"{P}/encode-returns-bytes-for-an-encodable-dataset", isinstance(enc, Blob), detail=repr(enc))
        if not isinstance(enc, Blob):
            return
        src = Env("received-BytesIO")
        src.kind = "BytesIO"
        src.data["content"] = enc
        k2, out = I.run_function(I.repo.func(f"{DS}:decode"), [src, imp, little, defl])
        I.ob(f"{P}/decode-does-not-raise", k2 == "return", detail=f"{k2}:{out!r}")
        I.ob(f"{P}/decode(encode(ds))-is-ds[{ts}]", out is ds, detail=f"{ts}: got {out!r}")
        ws = [e for e in I.trace if e.name == "write_dataset"]
        rs = [e for e in I.trace if e.name == "read_dataset"]
        I.ob(f"{P}/the-dataset-is-read-with-the-flags-it-was-written-with[{ts}]",
             len(ws) == 1 and len(rs) == 1 and ws[0].args[1] == rs[0].args[1], detail=f"{[w.args[1] for w in ws]} vs {[r.args[1] for r in rs]}")


class EncodeFailureTask(CodecRoundTripTask):
    """dsutils.encode is how every service class finds out that a handler's data set cannot be encoded (it then answers with the
    documented failure status instead of crashing): whatever exception pydicom's writer raises, encode() returns None and
    raises nothing.  The writer's exception is one representative per exception class encode() names, plus one of a class it
    cannot name."""
    name = "dsutils.encode/an-unencodable-dataset-gives-None"
    functions = [f"{DS}:encode"]

    def __init__(self, prefix="C21/"):
        self.prefix = prefix

    def config(self, repo):
        from contracts.acse_accept import exception_partition
        c = CodecRoundTripTask.config(self, repo)
        c.ob_prefix = self.prefix
        excs = [e for e in exception_partition(repo.func(f"{DS}:encode")) if e != "RuntimeError"] + ["OSError", "NotImplementedError", "HandlerDefinedError"]

        def write_dataset(I, a, k):
            I.ghost["exc"] = excs[I.choose(len(excs), "exception class raised by pydicom's writer")]
            raise PyRaise(ExcVal(I.ghost["exc"], ("cannot encode the data set",)))
        c.ext_models["pydicom.filewriter.write_dataset"] = write_dataset
        return c

    def body(self, I):
        P = f"{self.prefix}pynetdicom.dsutils:encode"
        names = list(SYNTAXES)
        imp, little, defl = SYNTAXES[names[I.choose(len(names), "transfer syntax")]]
        ds = Env("the-dataset")
        ds.truth = True
        kind, enc = I.run_function(I.repo.func(f"{DS}:encode"), [ds, imp, little, defl])
        I.ob(f"{P}/never-raises-whatever-the-writer-raises", kind == "return", detail=f"writer raised {I.ghost.get('exc')}: {kind}:{enc!r}")
        if kind == "return":
            I.ob(f"{P}/returns-None-for-a-dataset-the-writer-refuses", enc is None, detail=repr(enc))


GETDS = f"{EV}:Event._get_dataset"
ENCDS = f"{EV}:Event.encoded_dataset"


class EventAccessTask(Task):
    name = "Event._get_dataset/encoded_dataset"
    functions = [GETDS, ENCDS]

    def config(self, repo):
        c = Config()
        c.ob_prefix = "C25/"

        def decode(I, a, k):
            I.trace.append(Ev("decode", tuple(a)))
            d = Env("decoded-dataset")
            return d
        c.summaries[f"{DS}:decode"] = decode
        c.summaries[f"{DS}:encode_file_meta"] = lambda I, a, k: b"META"
        c.summaries[f"{DS}:create_file_meta"] = lambda I, a, k: Env("file_meta")
        c.ext_models["pydicom.dataset.Dataset"] = lambda I, a, k: Env("empty-dataset")
        c.ext_models["hash"] = lambda I, a, k: ("hash", id(a[0]))

        def env_call(I, env, method, args, kw):
            if env.kind == "BytesIO" and method == "getvalue":
                return env.data["content"]
            if method == "set_original_encoding":
                return None
            return NotImplemented
        c.env_call = env_call

        def truth_hook(I, v):
            if isinstance(v, Env) and v.kind == "BytesIO":
                return True
            return NotImplemented
        c.truth_hook = truth_hook
        return c

    def body(self, I):
        P = f"C25/{EV}:Event"
        g = I.ghost
        ev = Env("event", cls=I.repo.cls(f"{EV}:Event"))
        req = Env("event.request")
        mode = ["in-memory", "empty", "chunked-receive"][I.choose(3, "how the data set was received")]
        data = Env("request.DataSet")
        data.kind = "BytesIO"
        content = I.input("bytes", "received_dataset_bytes")
        if mode == "in-memory":
            I.assume(z3.Length(content.e) >= 1)
            data.data["content"] = content
            req.attrs["_dataset_path"] = None
        elif mode == "empty":
            data.data["content"] = b""
            req.attrs["_dataset_path"] = None
        else:
            # STORE_RECV_CHUNKED_DATASET: the fragments went to a file, request.DataSet is an empty BytesIO
            I.assume(z3.Length(content.e) >= 1)
            data.data["content"] = b""
            req.attrs["_dataset_path"] = Env("path-of-the-received-file")
        req.attrs["DataSet"] = data
        ev.attrs["request"] = req
        ts = UIDv(I.input("int", "transfer_syntax").e)
        cx = Env("event.context")
        cx.attrs["transfer_syntax"] = ts
        ev.attrs["context"] = cx
        ev.attrs["_hash"] = None
        ev.attrs["_decoded"] = None
        which = I.choose(2, "accessor")
        if which == 0:
            if mode == "chunked-receive":
                return                      # Event.dataset reads the file in that mode (dcmread): not_decided
            kind, val = I.run_function(I.repo.func(GETDS), [ev, "DataSet", "no data set"])
            I.ob(f"{P}._get_dataset/no-exception", kind == "return", detail=f"{kind}:{val!r}")
            decs = [e for e in I.trace if e.name == "decode"]
            if mode == "in-memory":
                ok = len(decs) == 1 and decs[0].args[0] is data and all(
                    isinstance(f, SV) and f.e.eq(I.getattr(ts, n).e) for f, n in zip(decs[0].args[1:4], ("is_implicit_VR", "is_little_endian", "is_deflated")))
                I.ob(f"{P}._get_dataset/decodes-exactly-the-requests-bytes-with-the-contexts-transfer-syntax", ok, detail=repr(decs))
                I.ob(f"{P}._get_dataset/returns-what-was-decoded", isinstance(val, Env) and val.path == "decoded-dataset")
            else:
                I.ob(f"{P}._get_dataset/an-empty-data-set-gives-an-empty-dataset", not decs and isinstance(val, Env) and val.path == "empty-dataset")
        else:
            kind, val = I.run_function(I.repo.func(ENCDS), [ev], {"include_meta": False})
            I.ob(f"{P}.encoded_dataset/no-exception", kind == "return", detail=f"{kind}:{val!r}")
            if kind != "return":
                return
            T = "[chunked-receive-mode]" if mode == "chunked-receive" else ""
            want = content if mode != "empty" else b""
            same = I.eq(val, want)
            I.ob(f"{P}.encoded_dataset/returns-exactly-the-received-data-set-bytes{T}", same if not isinstance(same, bool) else z3.BoolVal(same),
                 detail=f"{mode}: returned {val!r}")


# the wire part of the composition (bytes at the receiving handler = bytes the sender encoded) is C15's contract set on
# fragmentation and reassembly, re-proved here under this property's id
RELABEL = {"C15/": "C25/wire:"}


def tasks(tier):
    from contracts import dimse_frag as D
    from pyvc.task import NativeBoundedTask
    return [CodecRoundTripTask(), EventAccessTask(), D.GenTask(), D.EncodeTask("mem"), D.EncodeTask("mem-empty"), D.EncodeTask("none"),
            D.EncodeTask("file"), D.DecodeStepTask(), D.DecodeChunkedTask("C25/"),
            NativeBoundedTask("C25", "dsutils-round-trips-through-the-real-pydicom-codec-and-zlib",
                              ["pynetdicom.dsutils:encode", "pynetdicom.dsutils:decode"])]


bounded_results = [{"what": "replay/C25.py codec_round_trips (quick and thorough tier, native CPython): dsutils.decode(dsutils.encode(ds)) == ds "
                    "through the real pydicom codec and zlib - the bounded check of the ASSUMED codec/zlib contracts",
                    "bound": "4 transfer syntaxes x 4 data sets (small, odd-length values, 6 MiB of zeros, 300 KiB of noise)",
                    "cases": 16, "counted_as_proved": False}]


def replay(rec):
    from pyvc.replay import run_replay
    return run_replay("C25", rec)


LEVEL_TEXT = ("composition lemma over C15/C01/C18/C19 plus contracts on dsutils.encode/decode executed over an abstract, ASSUMED codec "
              "(flags used for reading = flags used for writing, deflate padding) and on the Event accessors (decoded from exactly the "
              "request's bytes with the context's flags; raw bytes accessor).")
LEVEL_NOTE = "level 'other': pydicom and zlib are assumed; one open known finding (encoded_dataset in chunked-receive mode)."
TECHNIQUE = 'deductive over an assumed codec: AST->VC symbolic execution of dsutils.encode/decode, the Event accessors, the fragmentation/reassembly loops and the chunked-receive branch of decode_msg with uninterpreted library operations; native bounded round trips through the real codec'

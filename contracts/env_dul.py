"""Environment model of the DUL service provider as seen by the FSM action functions.

The provider object ``dul`` is an Env; calls on it append abstract events to the effect trace
(DESIGN 1.1-5).  Queue heads are supplied by the scenario (ghost alignment: the head of the queue an
action reads is the PDU / primitive that produced the event being processed)."""
import z3

from pyvc.values import Env, Ev, Obj, SV, ExcVal, PyRaise, Unsupported

M_PDU = "pynetdicom.pdu"
M_PRIM = "pynetdicom.pdu_primitives"


class Scenario:
    def __init__(self):
        self.provider_head = None     # head of to_provider_queue (None = empty)
        self.pdu_head = None          # head of _recv_pdu (None = empty)
        self.shutdown_raises = False


def make_dul(I, scn: Scenario):
    dul = Env("dul")
    is_req = I.input("bool", "is_requestor")
    assoc = I.getattr(dul, "assoc")
    assoc.attrs["is_requestor"] = is_req
    dul.data["scn"] = scn
    return dul


def env_call(I, env, method, args, kwargs):
    p = env.path
    root = p.split(".")[0]
    if root != "dul":
        return NotImplemented
    scn = _root(env).data["scn"]
    if p == "dul.to_provider_queue" and method == "get":
        if scn.provider_head is None:
            raise PyRaise(ExcVal("queue.Empty"))
        h, scn.provider_head = scn.provider_head, None
        I.trace.append(Ev("pop_primitive", (h,)))
        return h
    if p == "dul.to_provider_queue.queue" and method == "__getitem__":
        if args[0] != 0:
            raise Unsupported("queue peek at index != 0")
        if scn.provider_head is None:
            raise PyRaise(ExcVal("IndexError", ("deque index out of range",)))
        return scn.provider_head
    if p == "dul._recv_pdu" and method == "get":
        if scn.pdu_head is None:
            raise PyRaise(ExcVal("queue.Empty"))
        h, scn.pdu_head = scn.pdu_head, None
        I.trace.append(Ev("pop_pdu", (h,)))
        return h
    if p == "dul.to_user_queue" and method == "put":
        I.trace.append(Ev("indicate", (args[0],)))
        return None
    if p == "dul" and method == "_send":
        I.trace.append(Ev("send", (args[0],)))
        return None
    if p == "dul" and method == "kill_dul":
        I.trace.append(Ev("kill"))
        return None
    if p == "dul.artim_timer" and method in ("start", "stop", "restart"):
        I.trace.append(Ev("artim", ("start" if method == "restart" else method, method)))
        return None
    if p == "dul.socket":
        if method == "connect":
            I.trace.append(Ev("connect", (args[0],)))
            return None
        if method == "close":
            I.trace.append(Ev("close", ("close",)))
            return None
        if method == "_shutdown_socket":
            I.trace.append(Ev("close", ("shutdown",)))
            if scn.shutdown_raises:
                raise PyRaise(ExcVal("OSError", ("shutdown failed",)))
            return None
    if p == "dul.assoc.dimse" and method == "receive_primitive":
        I.trace.append(Ev("pdata_indication", (args[0],)))
        return None
    if p == "dul.assoc.dimse.msg_queue" and method == "put":
        I.trace.append(Ev("dimse_sentinel", (args[0],)))
        return None
    return NotImplemented


def _root(env):
    while "parent" in env.data:
        env = env.data["parent"]
    return env


def trigger_summary(I, args, kwargs):
    """Contract of events.trigger used at FSM call sites: a notification; returns None, raises nothing
    (proved separately as C26)."""
    event = args[1]
    name = event.fields.get("name") if isinstance(event, Obj) else repr(event)
    I.trace.append(Ev("evt", (name, args[2] if len(args) > 2 else kwargs.get("attrs"))))
    return None


def summaries(I_or_none=None):
    """Callee contracts used while verifying the actions (the callees are verified in C01)."""
    def to_prim(kind):
        def f(I, args, kw):
            o = Obj(I.repo.cls(f"{M_PRIM}:{kind}"), tag=f"to_primitive({args[0] if args else ''})")
            o.fields["__from_pdu__"] = args[0] if args else None
            return o
        return f

    def from_prim(I, args, kw):
        args[0].fields["__from_primitive__"] = args[1]
        return None
    return {
        f"{M_PDU}:A_ASSOCIATE_RQ.to_primitive": to_prim("A_ASSOCIATE"),
        f"{M_PDU}:A_ASSOCIATE_AC.to_primitive": to_prim("A_ASSOCIATE"),
        f"{M_PDU}:P_DATA_TF.to_primitive": to_prim("P_DATA"),
        f"{M_PDU}:A_ASSOCIATE_RQ.from_primitive": from_prim,
        f"{M_PDU}:A_ASSOCIATE_AC.from_primitive": from_prim,
        f"{M_PDU}:P_DATA_TF.from_primitive": from_prim,
        "pynetdicom.events:trigger": trigger_summary,
    }

"""C29 — qrscp returns exactly the entities the PS3.4 matching rules select (contracts on the query construction; the SQL
engine is ASSUMED; three open known findings).

 * _check_identifier: symbolic over which of the 12 supported keys are present and over the level value, for both hierarchies:
   it raises InvalidIdentifier exactly when the PS3.4 C.4.x.1.3 hierarchy rule is violated (independent spec function);
 * build_query: for an element of any VR / value class it calls exactly the matching kind PS3.4 C.2.2.2 prescribes (single
   value, universal, list of UID, wild card, range);
 * _search_wildcard: the LIKE pattern it builds has a LIKE metacharacter exactly where the key has '*' / '?' (character-level
   string contract) - REFUTED for keys containing '%' or '_';
 * matching is case-sensitive except for PN, and C-FIND yields one response per entity at the requested level - REFUTED by the
   assumed SQLite LIKE contract (ASCII case folding) and by _search_qr returning instance rows."""
import ast

import z3

from pyvc.task import Task, FiniteTask
from pyvc.interp import Interp, Config
from pyvc.values import SV, Obj, Env, Ev, ExcVal, PyRaise, Unsupported
from contracts.strings import CharStr, one_of

PROPERTY = "C29"
LEVEL = "other"
DB = "pynetdicom.apps.qrscp.db"
ASSUMPTIONS = [
    "ASSUMED contract of the SQL engine (SQLite through SQLAlchemy, external): Query.filter(col == v) selects the rows whose "
    "column equals v; col.in_(vs) membership; col >= / <= lexicographic; col.like(p): '%' any sequence, '_' any one character, "
    "ASCII letters compared case-insensitively",
    "pydicom DataElement.VR / VM / value as given by the identifier the handler decoded (external)",
    "PS3.4 C.4.1.1.3.1 / C.4.2.1.4.1 / C.4.3.1.3.1 hierarchy rule and C.2.2.2 matching kinds: hand transcription in this module",
]
NOT_DECIDED = [
    "the SQL engine's evaluation of the constructed query (assumed); range matching on TM/DT values of different precision; "
    "as_identifier's construction of the response data sets",
]
PATIENT_ROOT = {"PATIENT": ["PatientID", "PatientName"], "STUDY": ["StudyInstanceUID", "StudyDate", "StudyTime", "AccessionNumber", "StudyID"],
                "SERIES": ["SeriesInstanceUID", "Modality", "SeriesNumber"], "IMAGE": ["SOPInstanceUID", "InstanceNumber"]}
STUDY_ROOT = {"STUDY": ["StudyInstanceUID", "StudyDate", "StudyTime", "AccessionNumber", "StudyID", "PatientID", "PatientName"],
              "SERIES": ["SeriesInstanceUID", "Modality", "SeriesNumber"], "IMAGE": ["SOPInstanceUID", "InstanceNumber"]}
UNIQUE = {"PATIENT": "PatientID", "STUDY": "StudyInstanceUID", "SERIES": "SeriesInstanceUID", "IMAGE": "SOPInstanceUID"}
ALL_KEYS = sorted({k for v in PATIENT_ROOT.values() for k in v})


class IdentV:
    """an Identifier: which supported keys are present is symbolic (one Bool per key); Query/Retrieve Level present or not"""
    ext_class = "pydicom.dataset.Dataset"

    def __init__(self, I, level):
        self.level = level            # None: element absent
        self.has = {k: I.input("bool", f"has_{k}").e for k in ALL_KEYS}

    def sym_contains(self, I, item):
        if item == "QueryRetrieveLevel":
            return self.level is not None
        if item in self.has:
            return self.has[item]
        return False

    def sym_getattr(self, I, name):
        if name == "QueryRetrieveLevel":
            if self.level is None:
                raise PyRaise(ExcVal("AttributeError", (name,)))
            return self.level
        return NotImplemented

    def sym_len(self, I):
        return SV(z3.Sum(*[z3.If(b, 1, 0) for b in self.has.values()]) + (1 if self.level is not None else 0), "int")

    def truth(self, I):
        return True


def spec_invalid(ident: IdentV, root):
    """PS3.4: the identifier is INVALID iff the level is missing or not a level of the hierarchy, or it has no key besides the
    level, or a unique key of a level ABOVE the query level is missing, or it has a key of a level BELOW the query level"""
    if ident.level is None or ident.level not in root:
        return z3.BoolVal(True)
    levels = list(root)
    i = levels.index(ident.level)
    above_missing = [z3.Not(ident.has[root[lv][0]]) for lv in levels[:i]]
    below_present = [ident.has[k] for lv in levels[i + 1:] for k in root[lv]]
    no_keys = z3.Not(z3.Or(*ident.has.values()))
    return z3.Or(no_keys, *above_missing, *below_present)


class CheckIdentifierTask(Task):
    name = "_check_identifier"
    functions = [f"{DB}:_check_identifier"]
    shard = True

    MODELS = ["PatientRootQueryRetrieveInformationModelFind", "PatientRootQueryRetrieveInformationModelGet",
              "PatientRootQueryRetrieveInformationModelMove", "StudyRootQueryRetrieveInformationModelFind",
              "StudyRootQueryRetrieveInformationModelGet", "StudyRootQueryRetrieveInformationModelMove"]

    def config(self, repo):
        c = Config()
        c.ob_prefix = "C29/"
        c.ext_models["collections.OrderedDict"] = lambda I, a, k: dict(a[0]) if a else {}
        for m in self.MODELS:
            # the SOP class UIDs are created dynamically in pynetdicom.sop_class: distinct opaque identities here
            c.module_consts[("pynetdicom.sop_class", m)] = m
        return c

    def body(self, I):
        P = f"C29/{DB}:_check_identifier"
        ns = I.module_ns(I.repo.module(DB))
        I.ob(f"{P}/hierarchy-tables-extracted", "_PATIENT_ROOT" in ns and "_STUDY_ROOT" in ns and len(ns.get("_PATIENT_ROOT", {})) == 3
             and len(ns.get("_STUDY_ROOT", {})) == 3, detail=str(sorted(k for k in ns if k.startswith("_"))))
        which = I.choose(2, "information model root")
        models = list(ns["_PATIENT_ROOT"].keys()) if which == 0 else list(ns["_STUDY_ROOT"].keys())
        model = models[I.choose(len(models), "model")]
        root = PATIENT_ROOT if which == 0 else STUDY_ROOT
        lv = [None, "PATIENT", "STUDY", "SERIES", "IMAGE", "FRAME"][I.choose(6, "Query/Retrieve Level")]
        ident = IdentV(I, lv)
        kind, val = I.run_function(I.repo.func(f"{DB}:_check_identifier"), [ident, model])
        inv = spec_invalid(ident, root)
        if kind == "raise":
            I.ob(f"{P}/raises-only-InvalidIdentifier", val.cls_name == "InvalidIdentifier", detail=repr(val))
            I.ob(f"{P}/rejects-only-identifiers-that-break-the-PS3.4-hierarchy-rule", inv, detail=f"level {lv}, {'patient' if which == 0 else 'study'} root")
        else:
            I.ob(f"{P}/accepts-only-identifiers-that-satisfy-the-PS3.4-hierarchy-rule", z3.Not(inv), detail=f"level {lv}")


TEXT_VR = ["AE", "CS", "LO", "LT", "PN", "SH", "ST", "UC", "UR", "UT"]
DATE_VR = ["DA", "TM", "DT"]


class ValV:
    """an element value seen only through the predicates build_query asks: None / empty; contains '*', '?', '-'"""

    def __init__(self, I):
        self.star, self.qm, self.dash = (I.input("bool", n).e for n in ("has_star", "has_question_mark", "has_dash"))
        self.nonempty = I.input("bool", "is_non_empty").e

    def truth(self, I):
        # Python truthiness: an empty value is falsy - and so is the NUMBER 0 (IS/DS values are numbers), which is a value
        return z3.And(self.nonempty, z3.BoolVal(not getattr(self, "is_zero", False)))

    def sym_contains(self, I, item):
        return {"*": self.star, "?": self.qm, "-": self.dash}[item]

    def sym_str(self, I):
        return self


class BuildQueryTask(Task):
    name = "build_query/dispatch"
    functions = [f"{DB}:build_query"]
    shard = True

    def config(self, repo):
        c = Config()
        c.ob_prefix = "C29/"
        for fn in ("_search_single_value", "_search_universal", "_search_uid_list", "_search_wildcard", "_search_range"):
            def s(I, a, k, fn=fn):
                I.trace.append(Ev("search", (fn, a[0])))
                return Env("query")
            c.summaries[f"{DB}:{fn}"] = s
        c.ext_models["str"] = lambda I, a, k: a[0]
        return c

    def body(self, I):
        from contracts.dsmodel import DatasetV, ElemV
        P = f"C29/{DB}:build_query"
        vrs = TEXT_VR + DATE_VR + ["UI", "IS", "SQ"]
        vr = vrs[I.choose(len(vrs), "VR")]
        # how the key's value reaches build_query: None (set by a local caller), zero-length as pydicom decodes it off the wire
        # ('' for text, an empty list for multi-valued VRs: VM 0), one value, or - UIDs only - several values
        kinds = ["None", "empty", "one"] + (["several"] if vr == "UI" else []) + (["the number 0"] if vr == "IS" else [])
        kind_v = kinds[I.choose(len(kinds), "value")]
        is_none = kind_v == "None"
        val = None if is_none else ValV(I)
        vm = {"None": 0, "empty": 0, "one": 1, "several": 2, "the number 0": 1}[kind_v]
        if val is not None:
            val.nonempty = z3.BoolVal(kind_v != "empty")
            val.is_zero = kind_v == "the number 0"
            if val.is_zero:
                I.assume(z3.Not(z3.Or(val.star, val.qm, val.dash)))
            if kind_v == "empty":
                I.assume(z3.Not(z3.Or(val.star, val.qm, val.dash)))

        class E:
            keyword = "PatientID"

            def sym_getattr(self, I_, name):
                if name == "is_empty":
                    return vm == 0
                return {"keyword": "PatientID", "VR": vr, "value": val, "VM": vm}.get(name, NotImplemented)
        el = E()

        class Ident:
            def sym_iter(self, I_):
                return [el]
        kind, out = I.run_function(I.repo.func(f"{DB}:build_query"), [Ident(), Env("session")])
        I.ob(f"{P}/no-exception", kind == "return", detail=f"{kind}:{out!r}")
        calls = [e.args[0] for e in I.trace if e.name == "search"]
        # PS3.4 C.2.2.2 (independent dispatch)
        if vr == "SQ":
            want = None if vm else "_search_universal"
            I.ob(f"{P}/sequence-matching-is-not-applied-to-the-supported-keys", calls == ([want] if want else []) or calls == [], detail=str(calls))
            return
        if vm == 0:
            # C.2.2.2.3: a zero-length key matches everything - however the decoder represents "zero-length"
            I.ob(f"{P}/an-empty-key-means-universal-matching", calls == ["_search_universal"] or (vr == "UI" and calls == ["_search_uid_list"]),
                 detail=f"{vr}, value {kind_v}: {calls}")
            return
        if kind_v == "several":
            # C.2.2.2.2: a key with several UIDs matches any of them
            I.ob(f"{P}/a-key-with-several-UIDs-means-list-of-UID-matching", calls == ["_search_uid_list"], detail=f"{calls}")
            return
        wild = z3.Or(val.star, val.qm) if vr in TEXT_VR else z3.BoolVal(False)
        rng = val.dash if vr in DATE_VR else z3.BoolVal(False)
        got = calls[0] if len(calls) == 1 else None
        I.ob(f"{P}/exactly-one-matching-kind-per-key", len(calls) == 1, detail=str(calls))
        I.ob(f"{P}/wild-card-matching-exactly-for-text-values-with-*-or-?", wild == z3.BoolVal(got == "_search_wildcard"), detail=f"{vr}: {got}")
        I.ob(f"{P}/range-matching-exactly-for-date-time-values-with-a-hyphen", rng == z3.BoolVal(got == "_search_range"), detail=f"{vr}: {got}")
        # a single UID is matched by equality either way (_search_uid_list with one value is `==`)
        single = got == "_search_single_value" or (vr == "UI" and got == "_search_uid_list")
        I.ob(f"{P}/single-value-matching-otherwise", z3.Implies(z3.Not(z3.Or(wild, rng)), z3.BoolVal(single)),
             detail=f"{vr}: {got}")


class SlotStr:
    """the key, one slot per character of the ORIGINAL key; a slot is a list of alternatives (condition on the original character,
    the characters that stand there now) - conditions of one slot are mutually exclusive and exhaustive.  str.replace(a, s) with a
    single character `a` and any replacement text is exact on this representation, so escaping (one character becoming two) and the
    ORDER of the replacements are modelled faithfully."""
    ext_class = "str"

    def __init__(self, slots):
        self.slots = slots

    @staticmethod
    def of(chars):
        return SlotStr([[(z3.BoolVal(True), [c])] for c in chars])

    def truth(self, I):
        return len(self.slots) > 0

    def sym_len(self, I):
        raise Unsupported("length of a pattern under construction")

    def sym_eq(self, I, other):
        if isinstance(other, str) and other == "":
            return len(self.slots) == 0
        raise Unsupported("comparison of a pattern under construction")

    def sym_str(self, I):
        return self

    def sym_method(self, I, name, args, kw):
        if name == "replace" and len(args) == 2 and isinstance(args[0], str) and len(args[0]) == 1 and isinstance(args[1], str):
            a, rep = ord(args[0]), [ord(x) for x in args[1]]
            out = []
            for alts in self.slots:
                new_alts = []
                for cond, chars in alts:
                    # every way the symbolic characters of this alternative can (not) be the replaced character
                    variants = [(cond, [])]
                    for ch in chars:
                        nxt = []
                        for c2, acc in variants:
                            if isinstance(ch, int):
                                nxt.append((c2, acc + (rep if ch == a else [ch])))
                            else:
                                nxt.append((z3.And(c2, ch == a), acc + rep))
                                nxt.append((z3.And(c2, ch != a), acc + [ch]))
                        variants = nxt
                    new_alts += variants
                out.append(new_alts)
            return SlotStr(out)
        raise Unsupported(f"str.{name} on a pattern under construction")


class WildcardTask(Task):
    name = "_search_wildcard/pattern"
    functions = [f"{DB}:_search_wildcard"]
    shard = True

    def config(self, repo):
        c = Config()
        c.ob_prefix = "C29/"
        c.ext_models["str"] = lambda I, a, k: a[0]

        def env_call(I, env, method, args, kw):
            if method == "like":
                I.trace.append(Ev("like", (args[0], kw.get("escape", args[1] if len(args) > 1 else None))))
                return Env("criterion")
            if method in ("query", "filter"):
                return Env("query")
            return NotImplemented
        c.env_call = env_call
        c.module_consts[(DB, "Instance")] = lambda I: Env("Instance")
        return c

    def body(self, I):
        P = f"C29/{DB}:_search_wildcard"
        n = I.choose(9, "length of the key")         # keys of 0..8 characters (the translation is character by character)
        kchars = CharStr.fresh(I, "key", n).chars
        key = SlotStr.of(kchars)
        vr = ["LO", "PN"][I.choose(2, "VR")]

        class E:
            def sym_getattr(self, I_, name):
                return {"keyword": "PatientID", "VR": vr, "value": key, "VM": 1}.get(name, NotImplemented)
        kind, out = I.run_function(I.repo.func(f"{DB}:_search_wildcard"), [E(), Env("session")])
        I.ob(f"{P}/no-exception", kind == "return", detail=f"{kind}:{out!r}")
        likes = [e.args for e in I.trace if e.name == "like"]
        I.ob(f"{P}/one-LIKE-criterion", len(likes) == 1)
        if len(likes) != 1 or n == 0:
            return
        pat, esc = likes[0]
        if not isinstance(pat, SlotStr) or len(pat.slots) != n:
            I.ob(f"{P}/pattern-has-the-keys-length", False, detail=repr(pat))
            return
        I.ob(f"{P}/pattern-has-the-keys-length", True)      # one slot per character of the key (an escaped character is one slot)
        if esc is not None and not (isinstance(esc, str) and len(esc) == 1):
            raise Unsupported(f"LIKE escape {esc!r}")
        E_ = ord(esc) if esc else None
        # how SQL's LIKE reads the characters of one slot: % and _ are wild cards unless preceded by the escape character; with an
        # escape character declared, it must be followed by %, _ or itself
        def reads(chars):
            """(acts as a wild card: z3 Bool, matches literally exactly the character: z3 Int or None, well formed: z3 Bool)"""
            if len(chars) == 1:
                c = chars[0]
                c = z3.IntVal(c) if isinstance(c, int) else c
                is_meta = z3.Or(c == ord("%"), c == ord("_"))
                lone_esc = z3.BoolVal(False) if E_ is None else c == E_
                return is_meta, c, z3.Not(lone_esc), (c == ord("%"), c == ord("_"))
            if len(chars) == 2 and E_ is not None:
                c0, c1 = [z3.IntVal(c) if isinstance(c, int) else c for c in chars]
                ok = z3.And(c0 == E_, z3.Or(c1 == ord("%"), c1 == ord("_"), c1 == E_))
                return z3.BoolVal(False), c1, ok, (z3.BoolVal(False), z3.BoolVal(False))
            return None
        wild_ok, copy_ok, map_ok = [], [], []
        for k, alts in zip(kchars, pat.slots):
            kw_ = z3.Or(k == ord("*"), k == ord("?"))
            for cond, chars in alts:
                r = reads(chars)
                if r is None:
                    wild_ok.append(z3.Not(cond))
                    continue
                is_wild, lit, well, (any_seq, any_one) = r
                wild_ok.append(z3.Implies(cond, z3.And(well, is_wild == kw_)))
                copy_ok.append(z3.Implies(z3.And(cond, z3.Not(kw_)), lit == k))
                map_ok.append(z3.Implies(cond, z3.And(z3.Implies(k == ord("*"), any_seq), z3.Implies(k == ord("?"), any_one))))
        I.ob(f"{P}/a-LIKE-metacharacter-exactly-where-the-key-has-a-wild-card:no-other-character-is-treated-as-a-wild-card", z3.And(*wild_ok))
        I.ob(f"{P}/other-characters-are-copied-unchanged", z3.And(*copy_ok))
        I.ob(f"{P}/*-becomes-any-sequence-and-?-becomes-any-one-character", z3.And(*map_ok))


class Crit:
    """a criterion built from a column: (operator, column, value)"""

    def __init__(self, op, col, val):
        self.op, self.col, self.val = op, col, val

    def __repr__(self):
        return f"<{self.col} {self.op} {self.val!r}>"


class ColV:
    def __init__(self, name):
        self.name = name

    def sym_eq(self, I, other):
        return Crit("==", self.name, other)

    def sym_cmp(self, I, op, other, refl):
        nm = {"GtE": ">=", "LtE": "<=", "Gt": ">", "Lt": "<"}[type(op).__name__]
        if refl:
            nm = {">=": "<=", "<=": ">=", ">": "<", "<": ">"}[nm]
        return Crit(nm, self.name, other)

    def sym_method(self, I, name, args, kw):
        if name == "in_":
            return Crit("in", self.name, args[0])
        return NotImplemented


class InstanceV:
    def sym_getattr(self, I, name):
        return ColV(name)


class Part:
    """one side of a range key: a non-empty text whose characters are not looked at"""
    ext_class = "str"

    def __init__(self, name):
        self.name = name

    def truth(self, I):
        return True

    def __repr__(self):
        return f"<{self.name}>"


class RangeKey:
    ext_class = "str"

    def __init__(self, parts):
        self.parts = parts

    def truth(self, I):
        return True

    def sym_method(self, I, name, args, kw):
        if name == "split" and args == ["-"] or (name == "split" and tuple(args) == ("-",)):
            return list(self.parts)
        return NotImplemented


class SearchCriteriaTask(Task):
    """_search_single_value, _search_uid_list, _search_universal and _search_range on their real bodies: which criterion each adds
    for the key it is given, on which column, and that it only ever RESTRICTS the query it was handed (a fresh query over all
    instances when none was handed in).  What the criteria mean is the SQL engine's contract (assumed, EngineSemanticsTask)."""
    shard = False

    def __init__(self, which):
        self.which = which
        self.fn = f"{DB}:_search_{which}"
        self.name = f"_search_{which}/criteria"
        self.functions = [self.fn]

    def config(self, repo):
        c = Config()
        c.ob_prefix = "C29/"
        c.ext_models["str"] = lambda I, a, k: ("str-of", a[0])

        def env_call(I, env, method, args, kw):
            if env.path == "session" and method == "query":
                I.trace.append(Ev("session.query", tuple(args)))
                return Env("query:all")
            if env.path.startswith("query:") and method == "filter":
                I.trace.append(Ev("filter", (env.path,) + tuple(args)))
                return Env(env.path + "+filter")
            return NotImplemented
        c.env_call = env_call
        c.module_consts[(DB, "Instance")] = lambda I: I.ghost["Instance"]
        if self.which != "universal":
            c.summaries[f"{DB}:_search_universal"] = lambda I, a, k: (I.trace.append(Ev("universal", (a[2] if len(a) > 2 else k.get("query"),))), Env("query:universal"))[1]
        return c

    def body(self, I):
        P = f"C29/{self.fn}"
        g = I.ghost
        g["Instance"] = InstanceV()
        ns = I.module_ns(I.repo.module(DB))
        kws = sorted(ns["_TRANSLATION"])
        kw = kws[I.choose(len(kws), "keyword")] if self.which == "single_value" else {"range": "StudyDate", "uid_list": "SOPInstanceUID"}.get(self.which, kws[0])
        col = ns["_TRANSLATION"][kw]
        given = I.choose(2, "an existing query is handed in") == 1
        q0 = Env("query:given") if given else None
        if given:
            q0.truth = True
        vr, vm, value, want = "LO", 1, Part("value"), None
        if self.which == "single_value":
            vr = ["LO", "PN"][I.choose(2, "VR")]
            want = [("==", col, ("str-of", value) if vr == "PN" else value)]
        elif self.which == "universal":
            value, want = "", []
        elif self.which == "uid_list":
            k = I.choose(3, "number of UIDs")
            if k == 0:
                value, vm, want = [], 0, "universal"
            elif k == 1:
                value, vm = Part("uid"), 1
                want = [("==", col, value)]
            else:
                value, vm = [Part("uid1"), Part("uid2")], 2
                want = [("in", col, value)]
        else:
            shape = I.choose(5, "shape of the range key")
            a, b = Part("from"), Part("to")
            parts = [[a, b], [a, ""], ["", b], ["", ""], [a, b, Part("extra")]][shape]
            value = RangeKey(parts)
            vr = "DA"
            want = [[(">=", col, a), ("<=", col, b)], [(">=", col, a)], [("<=", col, b)], "ValueError", "ValueError"][shape]

        class E:
            def sym_getattr(self, I_, name):
                return {"keyword": kw, "VR": vr, "value": value, "VM": vm}.get(name, NotImplemented)
        kind, out = I.run_function(I.repo.func(self.fn), [E(), Env("session")] + ([q0] if given else []))
        if want == "ValueError":
            I.ob(f"{P}/a-key-that-is-not-a-range-is-refused-with-ValueError", kind == "raise" and out.cls_name == "ValueError", detail=f"{kind}:{out!r}")
            I.ob(f"{P}/a-refused-key-adds-no-criterion", not [e for e in I.trace if e.name == "filter"])
            return
        I.ob(f"{P}/no-exception", kind == "return", detail=f"{kind}:{out!r}")
        if kind != "return":
            return
        filters = [e for e in I.trace if e.name == "filter"]
        fresh = [e for e in I.trace if e.name == "session.query"]
        base = "query:given" if given else "query:all"
        if want == "universal":
            u = [e for e in I.trace if e.name == "universal"]
            I.ob(f"{P}/an-empty-UID-list-is-universal-matching-on-the-query-handed-in", len(u) == 1 and u[0].args[0] is q0 and not filters
                 and isinstance(out, Env) and out.path == "query:universal", detail=repr(I.trace[-3:]))
            return
        I.ob(f"{P}/searches-all-instances-only-when-no-query-was-handed-in",
             (len(fresh) == 0) if given else (len(fresh) == 1 and len(fresh[0].args) == 1 and fresh[0].args[0] is g["Instance"]), detail=repr(fresh))
        crits = [(c.e if isinstance(c, SV) and isinstance(c.e, Crit) else c) for e in filters for c in e.args[1:]]    # the engine boxes comparison results
        got = [(c.op, c.col, c.val) if isinstance(c, Crit) else c for c in crits]
        same = len(got) == len(want) and all(isinstance(x, tuple) and x[0] == y[0] and x[1] == y[1] and (x[2] is y[2] or x[2] == y[2]) for x, y in zip(got, want))
        I.ob(f"{P}/adds-exactly-the-criteria-of-its-kind-of-matching-on-the-key's-column", same, detail=f"got {got!r}, want {want!r}")
        I.ob(f"{P}/the-result-is-the-query-it-was-handed-restricted-by-those-criteria-and-nothing-else",
             isinstance(out, Env) and out.path == base + "+filter" * len(filters) and (len(filters) >= 1) == bool(want)
             and all(e.args[0] == base + "+filter" * i for i, e in enumerate(filters)),       # one filter() or a chain of them
             detail=f"{getattr(out, 'path', out)!r} {[(e.args[0]) for e in filters]}")


class EngineSemanticsTask(FiniteTask):
    """what the constructed criteria mean under the ASSUMED SQLite contract, read off the AST of the query construction"""
    name = "frame/what-the-SQL-criteria-mean"
    functions = [f"{DB}:_search_wildcard", f"{DB}:_search_qr"]

    def check(self, repo, emit):
        fw = repo.func(f"{DB}:_search_wildcard").node
        ops = [n.func.attr for n in ast.walk(fw) if isinstance(n, ast.Call) and isinstance(n.func, ast.Attribute) and n.func.attr in ("like", "ilike", "op", "regexp_match")]
        # LIKE (and ILIKE) fold ASCII case in SQLite whatever else is passed (an ESCAPE clause does not change that); only another
        # operator (GLOB, REGEXP through .op()/regexp_match) would be case-sensitive
        folds = bool(ops) and all(o in ("like", "ilike") for o in ops)
        emit(f"C29/{DB}:_search_wildcard/wild-card-matching-is-case-sensitive-for-keys-that-are-not-person-names", not folds,
             detail="the criterion is column.like(pattern): SQLite's LIKE folds ASCII case for every column, not only for PN")
        fq = repo.func(f"{DB}:_search_qr").node
        dedup = any(isinstance(n, ast.Attribute) and n.attr in ("distinct", "group_by") for n in ast.walk(fq))
        emit(f"C29/{DB}:_search_qr/one-result-per-matching-entity-at-the-requested-level", dedup,
             detail="the result is query.all() over the Instance table: one row per stored instance, also for PATIENT/STUDY/SERIES level queries")


def tasks(tier):
    return [CheckIdentifierTask(), BuildQueryTask(), WildcardTask(), EngineSemanticsTask()] + \
        [SearchCriteriaTask(w) for w in ("single_value", "universal", "uid_list", "range")]


def replay(rec):
    from pyvc.replay import run_replay
    return run_replay("C29", rec)


LEVEL_TEXT = ("contract-based with an assumed SQL engine: symbolic contract on _check_identifier vs the PS3.4 hierarchy rule, dispatch contract "
              "on build_query vs C.2.2.2, character-level contract on the LIKE pattern of _search_wildcard; the meaning of the criteria under "
              "the assumed SQLite contract (case folding, instance rows) is recorded as refuted obligations.")
LEVEL_NOTE = "level 'other': SQL engine assumed; two open known findings (LIKE folds case, one response per instance)."
TECHNIQUE = 'deductive: AST->VC (z3) on the query-construction functions (hierarchy check, matching dispatch per value shape, criteria of each matching kind, LIKE pattern over an escape-aware slot string); SQL semantics assumed; findings replayed on in-memory SQLite with wire-decoded identifiers'

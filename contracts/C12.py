"""C12 — association requests and responses pynetdicom sends are structurally conformant.

Decided (contract-based, partial):
 * value representations: _validators.validate_ae accepts only legal AE values (<= 16 characters, printable ASCII without
   backslash) and utils.set_ae with (allow_empty=False, allow_none=False) - the mode every called/calling AE title setter on the
   path to the wire uses (AST scan) - returns only such a value that is not entirely spaces; validate_ui / set_uid accept only
   1..64 characters (character-set legality: see the known finding);
 * AE.associate numbers the requested contexts 1, 3, 5, ... : distinct odd ids <= 255 for the at most 128 contexts it accepts,
   and refuses an empty list;
 * ServiceUser keeps at most one Maximum Length and one Implementation Class UID item (representation invariant over all item
   orders), and associate() sets both - exactly one of each in the user information it sends;
 * A-ASSOCIATE-RQ/AC item structure for the representative shapes of C01 (one application context item, one item per context,
   one user information item) - re-proved under this id."""
import ast
import itertools

import z3

from pyvc.task import Task, FiniteTask
from pyvc.interp import Interp, Config, LoopSpec
from pyvc.values import SV, Obj, Env, Ev, ExcVal, PyRaise, Unsupported, SymSeq
from contracts.strings import CharStr, LongStr, category_model, ASCII_SPACE, ASCII_CONTROL, one_of

PROPERTY = "C12"
LEVEL = "other"
VAL = "pynetdicom._validators"
UT = "pynetdicom.utils"
AE = "pynetdicom.ae"
ASSOC = "pynetdicom.association"
ASSUMPTIONS = [
    "strings are represented character by character (code points 0..0x10FFFF) with the length forked over 0..bound+1 and one "
    "'longer than the bound' case; str.isascii / 'in' / strip-emptiness are modelled exactly for ASCII characters",
    "unicodedata.category(c)[0] == 'C' for ASCII c exactly for 0x00-0x1F and 0x7F; str.isspace (strip) for ASCII exactly for "
    "\\t\\n\\v\\f\\r, 0x1C-0x1F and space - both tables are compared with CPython for all 128 code points by the tables task",
    "assumed library contract: pydicom UID(value).is_valid implies the PS3.5 UI rules (digits and dots, <= 64 characters)",
    "copy.deepcopy(contexts) returns a list of the same length whose elements are PresentationContext objects",
]
NOT_DECIDED = [
    "the A-ASSOCIATE-AC result list: send_accept is proved to send accepted + rejected contexts (all negotiated results, C10's "
    "ACSE call-site contract proves that split exhaustive); 'one result per proposed context, an accepted transfer syntax on every "
    "accepted item' for the negotiation functions themselves is C10's obligation on negotiate_as_acceptor, not re-proved here",
    "maximum PDU sizes >= 2**32 are accepted by the setters but cannot be packed into the 4-byte field (struct.error in AE-2): "
    "not examined here",
]


def legal_ae_char(c):
    return z3.And(c >= 32, c <= 126, c != 92)


# ---------------------------------------------------------------------------------------------
# the two character tables the string model relies on, against CPython
# ---------------------------------------------------------------------------------------------
class TablesTask(FiniteTask):
    name = "tables/ascii-control-and-whitespace"
    functions = []

    def check(self, repo, emit):
        import unicodedata
        ctrl = tuple(i for i in range(128) if unicodedata.category(chr(i))[0] == "C")
        space = tuple(i for i in range(128) if chr(i).isspace())
        emit("C12/tables/unicodedata-category-C-in-ASCII-is-0x00-0x1F-and-0x7F", ctrl == tuple(ASCII_CONTROL), detail=str(ctrl))
        emit("C12/tables/str.isspace-in-ASCII", space == tuple(ASCII_SPACE), detail=str(space))
        emit("C12/tables/strip-removes-exactly-isspace-characters",
             all(((chr(i) * 3).strip() == "") == chr(i).isspace() for i in range(128)))


# ---------------------------------------------------------------------------------------------
# validate_ae / validate_ui
# ---------------------------------------------------------------------------------------------
def str_config(prefix="C12/"):
    c = Config()
    c.ob_prefix = prefix
    c.ext_models["unicodedata.category"] = category_model
    c.ext_models["pydicom.uid.UID"] = lambda I, a, k: a[0]
    return c


def string_cases(I, name, bound):
    """fork: a string of each length 0..bound+1 (all characters symbolic), or one longer than bound+1"""
    k = I.choose(bound + 3, f"length of {name}")
    if k == bound + 2:
        return LongStr(I, name, bound + 1), None
    return CharStr.fresh(I, name, k), k


class ValidateAeTask(Task):
    name = "validate_ae"
    functions = [f"{VAL}:validate_ae"]
    shard = True

    def config(self, repo):
        return str_config()

    def body(self, I):
        P = f"C12/{VAL}:validate_ae"
        v, n = string_cases(I, "value", 16)
        kind, val = I.run_function(I.repo.func(f"{VAL}:validate_ae"), [v])
        I.ob(f"{P}/no-exception", kind == "return", detail=f"{kind}:{val!r}")
        if kind != "return":
            return
        ok = val[0]
        if ok is True or (isinstance(ok, SV)):
            acc = z3.BoolVal(True) if ok is True else ok.e
            if n is None:
                I.ob(f"{P}/accepts-only-values-of-at-most-16-characters", z3.Not(acc))
            else:
                I.ob(f"{P}/accepts-only-values-of-at-most-16-characters", z3.Implies(acc, z3.BoolVal(n <= 16)))
                I.ob(f"{P}/accepts-only-printable-ASCII-without-backslash", z3.Implies(acc, v.all_in(legal_ae_char)))


def legal_ui_char(c):
    return z3.Or(z3.And(c >= 48, c <= 57), c == 46)


class UidStr(CharStr):
    """a UID candidate: str subclass with pydicom's is_valid (library predicate)"""
    is_uid = True

    def sym_getattr(self, I, name):
        if name == "is_valid":
            b = I.fresh("bool", "UID.is_valid")
            # assumed library contract (pydicom): a valid UID has 1..64 characters, digits and dots only
            I.assume(z3.Implies(b.e, z3.And(z3.BoolVal(1 <= len(self.chars) <= 64), self.all_in(legal_ui_char))))
            return b
        return NotImplemented


class ValidateUiTask(Task):
    name = "validate_ui"
    functions = [f"{VAL}:validate_ui"]
    shard = True

    def config(self, repo):
        c = str_config()
        c.module_consts[("pynetdicom._config", "ENFORCE_UID_CONFORMANCE")] = lambda I: I.ghost["enforce"]
        return c

    def body(self, I):
        P = f"C12/{VAL}:validate_ui"
        g = I.ghost
        g["enforce"] = I.choose(2, "ENFORCE_UID_CONFORMANCE") == 1
        k = I.choose(67, "length of value")
        if k == 66:
            v, n = LongStr(I, "value", 65), None
            v.is_uid = True
        else:
            v, n = UidStr(CharStr.fresh(I, "value", k).chars), k
        kind, val = I.run_function(I.repo.func(f"{VAL}:validate_ui"), [v])
        I.ob(f"{P}/no-exception", kind == "return", detail=f"{kind}:{val!r}")
        if kind != "return":
            return
        ok = val[0]
        acc = z3.BoolVal(ok) if isinstance(ok, bool) else ok.e
        T = "[ENFORCE_UID_CONFORMANCE]" if g["enforce"] else "[default-configuration]"
        if n is None:
            I.ob(f"{P}/accepts-only-1-to-64-characters", z3.Not(acc))
            return
        I.ob(f"{P}/accepts-only-1-to-64-characters", z3.Implies(acc, z3.BoolVal(1 <= n <= 64)))
        I.ob(f"{P}/accepts-only-digits-and-dots{T}", z3.Implies(acc, v.all_in(legal_ui_char)))


# ---------------------------------------------------------------------------------------------
# set_ae in the mode used for called / calling AE titles
# ---------------------------------------------------------------------------------------------
class SetAeTask(Task):
    name = "set_ae/title-mode"
    functions = [f"{UT}:set_ae", f"{VAL}:validate_ae"]
    shard = True

    def config(self, repo):
        c = str_config()
        # _config.VALIDATORS["AE"] is validate_ae unless the user replaced it (configuration, out of scope)
        c.module_consts[("pynetdicom._config", "VALIDATORS")] = lambda I: {"AE": I.resolve_global(I.repo.module(VAL), "validate_ae"),
                                                                         "UI": I.resolve_global(I.repo.module(VAL), "validate_ui")}
        return c

    def body(self, I):
        P = f"C12/{UT}:set_ae"
        shape = I.choose(3, "argument")
        if shape == 1:
            v, n = None, None
        elif shape == 2:
            v, n = 5, None
        else:
            v, n = string_cases(I, "value", 16)
        kind, val = I.run_function(I.repo.func(f"{UT}:set_ae"), [v, "Called AE Title", False, False])
        if kind == "raise":
            I.ob(f"{P}/raises-only-ValueError-or-TypeError", val.cls_name in ("ValueError", "TypeError"), detail=repr(val))
            return
        I.ob(f"{P}/returns-the-value-it-was-given", val is v)
        I.ob(f"{P}/title-mode-never-returns-None-or-a-non-string", isinstance(val, (CharStr, LongStr)))
        if isinstance(val, LongStr):
            I.ob(f"{P}/returned-title-has-1-to-16-characters", False, detail="longer than 17 characters")
            return
        if isinstance(val, CharStr):
            I.ob(f"{P}/returned-title-has-1-to-16-characters", 1 <= len(val.chars) <= 16, detail=f"{len(val.chars)} characters")
            I.ob(f"{P}/returned-title-is-printable-ASCII-without-backslash", val.all_in(legal_ae_char))
            I.ob(f"{P}/returned-title-is-not-entirely-spaces", z3.Not(val.all_in(lambda c: c == 32)))


class SetUidTask(Task):
    """utils.set_uid on its real body, for every combination of (allow_empty, allow_none, validate) and both settings of
    ENFORCE_UID_CONFORMANCE: what it returns is None only where None is allowed, otherwise a UID with the characters it was given,
    never empty where empty is not allowed and - with validation - within 1..64 characters (digits and dots when conformance
    is enforced). Every UID setter of the primitives, PDUs and items stores what this function returns (used by contract in
    C01/C10/C11/C17/...)."""
    name = "set_uid"
    functions = [f"{UT}:set_uid", f"{VAL}:validate_ui"]
    shard = True

    def config(self, repo):
        c = str_config()
        c.module_consts[("pynetdicom._config", "VALIDATORS")] = lambda I: {"AE": I.resolve_global(I.repo.module(VAL), "validate_ae"),
                                                                         "UI": I.resolve_global(I.repo.module(VAL), "validate_ui")}
        c.module_consts[("pynetdicom._config", "ENFORCE_UID_CONFORMANCE")] = lambda I: I.ghost["enforce"]

        def uid(I, a, k):
            v = a[0]
            if isinstance(v, LongStr):
                v.is_uid = True
                return v
            if isinstance(v, CharStr):
                return UidStr(v.chars)
            raise Unsupported("UID() of a non-string")
        c.ext_models["pydicom.uid.UID"] = uid

        def decode_bytes(I, a, k):
            # contract of utils.decode_bytes (C02): the decoded characters, or ValueError
            if I.choose(2, "decode_bytes") == 1:
                raise PyRaise(ExcVal("ValueError", ("Unable to decode",)))
            return I.ghost["decoded"]
        c.summaries[f"{UT}:decode_bytes"] = decode_bytes
        return c

    def body(self, I):
        P = f"C12/{UT}:set_uid"
        g = I.ghost
        g["enforce"] = I.choose(2, "ENFORCE_UID_CONFORMANCE") == 1
        allow_empty = I.choose(2, "allow_empty") == 1
        allow_none = I.choose(2, "allow_none") == 1
        validate = I.choose(2, "validate") == 1
        shape = I.choose(4, "argument")
        n = None
        if shape == 1:
            v = None
        elif shape == 2:
            v = 5
        else:
            k = I.choose(67, "length of value")
            if k == 66:
                txt = LongStr(I, "value", 65)
            else:
                txt, n = CharStr.fresh(I, "value", k), k
            if shape == 3:
                g["decoded"] = txt
                v = b"\x00"      # any bytes object: only decode_bytes (by contract) looks at the content
            else:
                v = txt
        kind, val = I.run_function(I.repo.func(f"{UT}:set_uid"), [v, "SOP Class UID", allow_empty, allow_none, validate])
        mode = f"[allow_empty={allow_empty},allow_none={allow_none},validate={validate}]"
        if kind == "raise":
            I.ob(f"{P}/raises-only-ValueError-or-TypeError", val.cls_name in ("ValueError", "TypeError"), detail=repr(val))
            if shape == 0 and n is not None and 1 <= n <= 64 and not g["enforce"]:
                # default configuration (with ENFORCE_UID_CONFORMANCE the verdict is pydicom's UID.is_valid, a library predicate)
                I.ob(f"{P}/a-UID-of-1-to-64-digits-and-dots-is-never-refused[default-configuration]", z3.Not(txt.all_in(legal_ui_char)), detail=mode)
            return
        if val is None:
            I.ob(f"{P}/None-is-returned-only-for-None-where-None-is-allowed", v is None and allow_none, detail=mode)
            return
        I.ob(f"{P}/None-is-returned-only-for-None-where-None-is-allowed", v is not None or not allow_none, detail=mode)
        I.ob(f"{P}/returns-a-UID", getattr(val, "is_uid", False) is True, detail=f"{type(val).__name__} {mode}")
        I.ob(f"{P}/returns-the-characters-it-was-given", shape in (0, 3) and ((val is txt) or (isinstance(val, CharStr) and isinstance(txt, CharStr)
             and len(val.chars) == len(txt.chars) and all(a is b or a.eq(b) for a, b in zip(val.chars, txt.chars)))),
             detail=f"{mode} {type(val).__name__} {type(txt).__name__} {shape}")
        if not allow_empty:
            I.ob(f"{P}/never-returns-an-empty-UID-where-empty-is-not-allowed", isinstance(val, LongStr) or len(val.chars) > 0, detail=mode)
        if validate:
            I.ob(f"{P}/a-validated-UID-has-at-most-64-characters", isinstance(val, CharStr) and len(val.chars) <= 64, detail=mode)
            if g["enforce"] and isinstance(val, CharStr):
                I.ob(f"{P}/a-validated-UID-is-digits-and-dots[ENFORCE_UID_CONFORMANCE]", val.all_in(legal_ui_char), detail=mode)


class TitleSitesTask(FiniteTask):
    """every setter of a called / calling / local AE title on the path to the wire validates with
    set_ae(value, name, False, False) - the mode SetAeTask covers"""
    name = "frame/ae-title-setters-use-the-strict-mode"
    functions = []
    WANT = [("pynetdicom.pdu", "A_ASSOCIATE_RQ", "called_ae_title"), ("pynetdicom.pdu", "A_ASSOCIATE_RQ", "calling_ae_title"),
            ("pynetdicom.pdu_primitives", "A_ASSOCIATE", "called_ae_title"), ("pynetdicom.pdu_primitives", "A_ASSOCIATE", "calling_ae_title"),
            ("pynetdicom.association", "ServiceUser", "ae_title"), ("pynetdicom.ae", "ApplicationEntity", "ae_title")]

    def check(self, repo, emit):
        for modn, cn, prop in self.WANT:
            ci = repo.cls(f"{modn}:{cn}")
            pi = ci.props.get(prop)
            ok, why = False, "no setter"
            if pi is not None and pi.fset is not None:
                calls = [n for n in ast.walk(pi.fset.node) if isinstance(n, ast.Call) and isinstance(n.func, ast.Name) and n.func.id == "set_ae"]
                strict = [c for c in calls if len(c.args) >= 4 and all(isinstance(a, ast.Constant) and a.value is False for a in c.args[2:4])
                          or {k.arg: getattr(k.value, "value", None) for k in c.keywords} .get("allow_empty") is False
                          and {k.arg: getattr(k.value, "value", None) for k in c.keywords}.get("allow_none") is False]
                stores = [n for n in ast.walk(pi.fset.node) if isinstance(n, ast.Assign) and any(
                    isinstance(t, ast.Attribute) and isinstance(t.value, ast.Name) and t.value.id == "self" for t in n.targets)]
                # the stored value is the result of that call (possibly through cast)
                ok = len(calls) == 1 and len(strict) == 1 and len(stores) == 1 and any(c is n for n in ast.walk(stores[0].value) for c in strict)
                why = f"{len(calls)} set_ae calls, {len(strict)} strict, {len(stores)} stores"
            emit(f"C12/{modn}:{cn}.{prop}.fset/stores-only-what-set_ae(value,name,False,False)-returned", ok, detail=why)


# ---------------------------------------------------------------------------------------------
# AE.associate: context ids
# ---------------------------------------------------------------------------------------------
ASSOCIATE = f"{AE}:ApplicationEntity.associate"


class IdLoop(LoopSpec):
    def __init__(self, task):
        self.task = task

    def after_body(self, I, fr):
        self.task.iteration_done(I, fr)


class AssociateIdsTask(Task):
    name = "ApplicationEntity.associate/context-ids"
    functions = [ASSOCIATE, f"{AE}:ApplicationEntity._validate_requested_contexts", "pynetdicom.presentation:PresentationContext.context_id.fset"]

    def config(self, repo):
        c = Config()
        c.ob_prefix = "C12/"
        fi = repo.func(ASSOCIATE)
        loops = sorted([n for n in ast.walk(fi.node) if isinstance(n, (ast.For, ast.While))], key=lambda n: (n.lineno, n.col_offset))
        # the loop that numbers the contexts: the for-loop whose body assigns a `.context_id`
        idl = [i for i, n in enumerate(loops) if isinstance(n, ast.For) and any(
            isinstance(t, ast.Attribute) and t.attr == "context_id" for st in ast.walk(n) if isinstance(st, (ast.Assign, ast.AugAssign, ast.AnnAssign))
            for t in (st.targets if isinstance(st, ast.Assign) else [st.target]))]
        if len(idl) != 1:
            raise Unsupported("associate: the loop that numbers the contexts was not found")
        c.loop_specs[(ASSOCIATE, idl[0])] = IdLoop(self)
        for i, n in enumerate(loops):
            if i != idl[0]:
                sp = LoopSpec()
                sp.skip, sp.frame_name = True, "does-not-touch-the-requested-contexts"
                sp.frame_ok = lambda I, node, fr: "context" not in ast.unparse(node)
                c.loop_specs[(ASSOCIATE, i)] = sp
        c.ext_opaque = ("datetime.", "socket.")
        c.ext_models["datetime.datetime.strftime"] = lambda I, a, k: "20260101000000"
        c.ext_models["datetime.datetime.now"] = lambda I, a, k: Env("now")
        c.ext_models["socket.AF_INET6"] = lambda I, a, k: 10

        def deepcopy(I, a, k):
            # library contract of copy.deepcopy: a copy of ONE object is a new object with equal content; a copy of a LIST keeps
            # the sharing between its positions (the same object listed twice is copied once and still listed twice)
            src = a[0]
            g = I.ghost
            if isinstance(src, SymSeq):
                g["copied"] = src
                g["copy_granularity"] = "whole-list"
                return SymSeq("copied_contexts", src.length, g["mk_ctx"])
            if isinstance(src, Obj) and hasattr(src, "index"):
                g["copy_granularity"] = "per-position"
                g["copied_elem_of"] = True
                return g["mk_ctx"](src.index)
            raise Unsupported("deepcopy of an unexpected value in associate()")
        c.ext_models["copy.deepcopy"] = deepcopy
        c.summaries["pynetdicom.transport:AddressInformation.from_addr_port"] = lambda I, a, k: Env("remote_address")
        c.summaries["pynetdicom.transport:AddressInformation.from_tuple"] = lambda I, a, k: Env("local_address")
        c.summaries[f"{ASSOC}:Association"] = lambda I, a, k: I.ghost["assoc"]
        c.summaries[f"{AE}:ApplicationEntity._create_socket"] = lambda I, a, k: Env("socket")
        return c

    def iteration_done(self, I, fr):
        g = I.ghost
        P = f"C12/{ASSOCIATE}"
        sets = [e for e in I.trace if e.name == "ctx_id"]
        ii = fr.locals.get("__idx_value")
        I.ob(f"{P}/each-context-is-numbered-exactly-once-per-iteration", len(sets) == 1, detail=repr(sets))
        if len(sets) == 1:
            idx, val = sets[0].args
            I.ob(f"{P}/context-i-gets-id-2i+1", I._num(val, "int") == 2 * idx + 1)
            v = I._num(val, "int")
            I.ob(f"{P}/every-assigned-id-is-odd-and-in-1..255", z3.And(v >= 1, v <= 255, v % 2 == 1))

    def body(self, I):
        g = I.ghost
        P = f"C12/{ASSOCIATE}"
        pc_cls = I.repo.cls("pynetdicom.presentation:PresentationContext")
        n = I.input("int", "n_contexts")
        I.assume(n.e >= 0)

        prior = {}

        def mk_ctx(j):
            o = Obj(pc_cls, tag="requested_cx")
            # a context handed to associate() may already carry an id (e.g. the accepted context of an earlier association, or
            # one that was numbered by the caller): an opaque value that may be None (decided only where the code looks at it)
            k = str(z3.simplify(j)) if not isinstance(j, int) else str(j)
            if k not in prior:
                prior[k] = I.opaque("prior_context_id", nonnull=False)
            o.fields.update(_context_id=prior[k], _abstract_syntax=Env("ab"), _transfer_syntax=[Env("ts")], result=None, _scu_role=None,
                            _scp_role=None, _as_scu=None, _as_scp=None)
            o.index = j
            return o
        g["mk_ctx"] = mk_ctx
        contexts = SymSeq("contexts", n.e, mk_ctx)
        me = Env("ae", cls=I.repo.cls(f"{AE}:ApplicationEntity"))
        me.attrs["requested_contexts"] = contexts
        for nm in ("ae_title", "implementation_class_uid", "implementation_version_name"):
            me.attrs[nm] = Env(f"ae.{nm}")
        assoc = Env("assoc")
        assoc.attrs["is_established"] = False
        g["assoc"] = assoc
        base = I.cfg.obj_getattr

        def env_setattr(I_, env, name, val):
            return False
        # record context-id assignments made through the real setter
        fset = I.repo.cls("pynetdicom.presentation:PresentationContext").props["context_id"].fset
        orig = I.call_func

        def spy(fi, args, kwargs, closure=None):
            if fi is fset:
                r = orig(fi, args, kwargs, closure)
                I.trace.append(Ev("ctx_id", (getattr(args[0], "index", None), args[1])))
                return r
            return orig(fi, args, kwargs, closure)
        I.call_func = spy
        try:
            kind, val = I.run_function(I.repo.func(ASSOCIATE), [me, "127.0.0.1", 11112], {})
        finally:
            I.call_func = orig
        if kind == "raise":
            I.ob(f"{P}/refuses-only-an-empty-or-too-long-context-list",
                 z3.Or(n.e == 0, n.e > 128) if val.cls_name in ("RuntimeError", "ValueError") else z3.BoolVal(False), detail=repr(val))
            return
        I.ob(f"{P}/accepts-only-1-to-128-contexts", z3.And(n.e >= 1, n.e <= 128))
        reqs = [e for e in I.trace if e.name == "setattr" and e.args[1] == "requested_contexts"]
        prop = reqs[0].args[2] if len(reqs) == 1 else None
        whole = isinstance(prop, SymSeq) and prop.name == "copied_contexts" and g.get("copied") is contexts
        per_pos = False
        if isinstance(prop, SymSeq) and prop.name.startswith("comp!"):
            j = I.fresh("int", "probe").e
            g["copy_granularity"] = None
            el = prop.elem(j)
            per_pos = g.get("copy_granularity") == "per-position" and isinstance(el, Obj) and getattr(el, "index", None) is not None and I.valid(el.index == j) and I.valid(prop.length == contexts.length)
        I.ob(f"{P}/the-numbered-copy-is-what-the-association-proposes", bool(whole or per_pos), detail=repr(getattr(prop, "name", prop)))
        # distinct ids need distinct objects: the same context listed twice must not be one object after the copy
        I.ob(f"{P}/each-list-position-gets-its-own-copy:a-context-listed-twice-is-numbered-twice", bool(per_pos),
             detail=f"copy granularity: {g.get('copy_granularity')}")


class IdsLemma(Task):
    """ids 2i+1 for 0 <= i < n <= 128 are pairwise distinct, odd and within 1..255"""
    name = "lemma/ids-2i+1-are-distinct-odd-and-at-most-255"

    def body(self, I):
        i, j, n = z3.Ints("i j n")
        I.ob("C12/lemma/context-ids-are-pairwise-distinct-odd-and-in-1..255",
             z3.ForAll([i, j, n], z3.Implies(z3.And(0 <= i, i < n, 0 <= j, j < n, n <= 128, i != j),
                                             z3.And(2 * i + 1 != 2 * j + 1, (2 * i + 1) % 2 == 1, 2 * i + 1 >= 1, 2 * i + 1 <= 255))))


def tasks(tier):
    return [TablesTask(), ValidateAeTask(), ValidateUiTask(), SetAeTask(), SetUidTask(), TitleSitesTask(), AssociateIdsTask(), IdsLemma(),
            UserInfoInvariantTask(), UserInfoSitesTask()] + _send_tasks()


# "Every A-ASSOCIATE-AC it sends has one result item per proposed context and an accepted transfer syntax on every accepted
# item": send_accept puts accepted + rejected contexts (all results of the negotiation) into the AC; that the negotiation
# functions return exactly one result per proposed context, carrying its id, with one transfer syntax, is C10's obligation -
# re-proved under this id (only those obligations; C10's role obligations and its open findings are not part of this claim)
RELABEL = {"C10/": "C12/ac-results:"}
RELABEL_ONLY = {"C10/": r"one-result-per-proposed-context|exactly-one-result-per|result-carries-the-proposed-id|"
                        r"results-are-all-per-context-results|partition:every-proposed-context|accepted-with-the-first-proposed-transfer-syntax|"
                        r"accepted-only-after-a-common-transfer-syntax|rejected-context-echoes-the-first-proposed-transfer-syntax|"
                        r"result-is-0-1-3-or-4|accepted-contexts-are-exactly-those-with-result-0"}


def _send_tasks():
    from contracts.acse_neg import SendAssociateTask
    from contracts import negotiation as N
    from contracts.acse_neg import AcceptorSiteTask
    return [SendAssociateTask("request", "C12/"), SendAssociateTask("accept", "C12/"),
            N.NegAcceptorTask("C10/"), N.NegUnrestrictedTask("C10/"), AcceptorSiteTask("C10/")]


def replay(rec):
    from pyvc.replay import run_replay
    oid = rec.get("id", "")
    if oid.startswith("C12/ac-results:"):
        return run_replay("C10", dict(rec, id="C10/" + oid[len("C12/ac-results:"):]))
    return run_replay("C12", rec)


LEVEL_TEXT = ("contract-based, partial: character-level string contracts on validate_ae / set_ae (title mode) / validate_ui for every "
              "string of every length; AST scan that all AE-title setters on the way to the wire use that mode; inductive contract on the "
              "context-numbering loop of AE.associate (ids 2i+1, at most 128 contexts) with a distinctness lemma. ACSE.send_request/send_accept: what goes into the A-ASSOCIATE primitive; per-position copy of the requested contexts.")
LEVEL_NOTE = ("level 'other': the user-information item multiplicities for arbitrary extended-negotiation combinations and the AC result list "
              "are covered by other properties' contracts (see not_decided); UID character legality is an open known finding in the default "
              "configuration.")
TECHNIQUE = "deductive: AST->VC with character-level symbolic strings (z3 LIA), loop contract on the id assignment, exhaustive AST scans"


# ---------------------------------------------------------------------------------------------
# ServiceUser: representation invariant of the user-information items
# ---------------------------------------------------------------------------------------------
SU = f"{ASSOC}:ServiceUser"
PP = "pynetdicom.pdu_primitives"
KINDS = ["MaximumLengthNotification", "ImplementationClassUIDNotification", "ImplementationVersionNameNotification"]
FIELD = {"MaximumLengthNotification": "_maximum_length", "ImplementationClassUIDNotification": "_implementation_class_uid",
         "ImplementationVersionNameNotification": "_implementation_version_name"}
SETTER = {"maximum_length": "MaximumLengthNotification", "implementation_class_uid": "ImplementationClassUIDNotification",
          "implementation_version_name": "ImplementationVersionNameNotification"}


def _shapes():
    out = []
    for k in range(len(KINDS) + 1):
        out += [list(p) for p in itertools.permutations(KINDS, k)]
    return out


class UserInfoInvariantTask(Task):
    """INV(_user_info): only notification items of the three kinds, at most one of each.  Every list satisfying INV has one of
    16 shapes (values arbitrary), so 'for every state satisfying INV' is the 16 shapes x symbolic values: each setter preserves
    INV and leaves exactly one item of its kind holding the new value (none for implementation_version_name = None)."""
    name = "ServiceUser/user-information-invariant"
    functions = [f"{SU}.maximum_length.fset", f"{SU}.implementation_class_uid.fset", f"{SU}.implementation_version_name.fset"]
    shard = True

    def config(self, repo):
        c = Config()
        c.ob_prefix = "C12/"
        c.summaries[f"{UT}:set_uid"] = lambda I, a, k: a[0]
        c.summaries[f"{UT}:set_ae"] = lambda I, a, k: a[0]
        return c

    def body(self, I):
        P = f"C12/{SU}"
        shapes = _shapes()
        shape = shapes[I.choose(len(shapes), "items already held (shape of _user_info)")]
        su = Obj(I.repo.cls(SU), tag="service_user")
        items = []
        for kd in shape:
            it = Obj(I.repo.cls(f"{PP}:{kd}"), tag=kd)
            it.fields[FIELD[kd]] = Env(f"old:{kd}")
            items.append(it)
        su.fields.update(_user_info=items, primitive=None, _mode="requestor")
        names = list(SETTER)
        which = names[I.choose(len(names), "setter")]
        kd = SETTER[which]
        if which == "maximum_length":
            val = I.input("int", "maximum_length")
            I.assume(val.e >= 0)
        elif which == "implementation_class_uid":
            from contracts.negotiation import UIDv
            val = UIDv(I.input("int", "implementation_class_uid").e)
        else:
            val = [Env("version-name"), None][I.choose(2, "version name or None")]
            if val is not None:
                val.truth = True
        fset = I.repo.cls(SU).props[which].fset
        kind, r = I.run_function(fset, [su, val])
        if kind == "raise":
            # the item's own setter may refuse the value (e.g. a maximum length it cannot hold): nothing may have been added twice
            after = su.fields["_user_info"]
            I.ob(f"{P}.{which}.fset/a-refused-value-leaves-at-most-one-item-of-each-kind",
                 all(sum(1 for x in after if isinstance(x, Obj) and x.cls.name == k2) <= 1 for k2 in KINDS), detail=repr(r))
            return
        after = su.fields["_user_info"]
        counts = {k2: sum(1 for x in after if isinstance(x, Obj) and x.cls.name == k2) for k2 in KINDS}
        I.ob(f"{P}.{which}.fset/invariant-preserved:only-notification-items-at-most-one-of-each-kind",
             all(isinstance(x, Obj) and x.cls.name in KINDS for x in after) and all(v <= 1 for v in counts.values()), detail=str(counts))
        want = 0 if (which == "implementation_version_name" and val is None) else 1
        I.ob(f"{P}.{which}.fset/exactly-one-item-of-its-kind-afterwards-(none-after-setting-None)", counts[kd] == want, detail=str(counts))
        if want == 1:
            it = next(x for x in after if x.cls.name == kd)
            got = it.fields.get(FIELD[kd])
            same = I.eq(got, val) if not isinstance(val, Env) else (got is val)
            I.ob(f"{P}.{which}.fset/the-item-holds-the-new-value", same if not isinstance(same, bool) else z3.BoolVal(same), detail=repr(got))
        others_ok = all(counts[k2] == shape.count(k2) for k2 in KINDS if k2 != kd)
        I.ob(f"{P}.{which}.fset/items-of-the-other-kinds-are-untouched", others_ok, detail=f"{shape} -> {counts}")


class UserInfoSitesTask(FiniteTask):
    """where _user_info is written: only ServiceUser.__init__ (empty list, then the two mandatory setters) and the three setters;
    the extended-negotiation store only accepts the four negotiation item types - so user_information = _user_info + extended items
    holds exactly one Maximum Length and one Implementation Class UID item"""
    name = "frame/user-information-writers"
    functions = [f"{SU}.__init__", f"{SU}.reset_negotiation_items"]

    def check(self, repo, emit):
        ci = repo.cls(SU)
        writers = []
        for mn, fi in list(ci.methods.items()) + [(f"{pn}.fset", p.fset) for pn, p in ci.props.items() if p.fset] + \
                [(f"{pn}.fget", p.fget) for pn, p in ci.props.items() if p.fget]:
            for n in ast.walk(fi.node):
                if isinstance(n, ast.Assign) and any(isinstance(t, ast.Attribute) and t.attr == "_user_info" for t in n.targets):
                    writers.append(mn)
                if isinstance(n, ast.AnnAssign) and n.value is not None and isinstance(n.target, ast.Attribute) and n.target.attr == "_user_info":
                    writers.append(mn)
                if isinstance(n, ast.Call) and isinstance(n.func, ast.Attribute) and n.func.attr in ("append", "remove", "extend", "insert", "pop", "clear") \
                        and isinstance(n.func.value, ast.Attribute) and n.func.value.attr == "_user_info":
                    writers.append(mn)
        emit("C12/frame/_user_info-is-written-only-by-__init__-and-the-three-setters",
             sorted(set(writers)) == sorted(["__init__", "maximum_length.fset", "implementation_class_uid.fset", "implementation_version_name.fset"]),
             detail=str(sorted(set(writers))))
        init = ci.methods["__init__"].node
        # top-level statements of __init__, in order: `_user_info` is initialised to an empty list, then both mandatory setters run
        order = []
        for st in init.body:
            tg = st.targets if isinstance(st, ast.Assign) else ([st.target] if isinstance(st, ast.AnnAssign) else [])
            for t in tg:
                if isinstance(t, ast.Attribute) and isinstance(t.value, ast.Name) and t.value.id == "self":
                    order.append((t.attr, ast.unparse(st.value) if st.value is not None else None))
        names = [a for a, _v in order]
        ok = ("_user_info", "[]") in order and "maximum_length" in names and "implementation_class_uid" in names and \
            names.index("_user_info") < names.index("maximum_length") and names.index("_user_info") < names.index("implementation_class_uid")
        emit("C12/frame/ServiceUser.__init__-sets-the-maximum-length-and-the-implementation-class-uid", ok, detail=str(order)[:300])
        reset = ast.unparse(ci.methods["reset_negotiation_items"].node)
        kinds = [k for k in ("MaximumLengthNotification", "ImplementationClassUIDNotification") if k in reset]
        emit("C12/frame/the-extended-negotiation-store-has-no-slot-for-the-mandatory-items", not kinds, detail=reset[:200])

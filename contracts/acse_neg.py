"""Contracts on the two ACSE call sites of the presentation-context negotiation (C10, C11):

  ACSE._negotiate_as_requestor  - applies the requestor's own SCP/SCU role proposals to its requested contexts (what the
      C11 lemma assumes: "the requested context carries the roles that were proposed for its SOP class, None -> False"),
      hands negotiate_as_requestor the requested contexts, the results of the A-ASSOCIATE-AC and the acceptor's role
      replies {uid: (scu, scp)}, stores accepted / rejected contexts by result, and establishes the association only for
      an accepted response with at least one accepted context;
  ACSE._negotiate_as_acceptor   - (policy already passed, see acse_accept.py) hands the negotiation function selected by
      _config.UNRESTRICTED_STORAGE_SERVICE the proposed contexts of the request, the supported contexts and the
      requestor's role proposals {uid: (scu, scp)}, stores accepted / rejected contexts by result and adds every role
      reply the negotiation returned to the A-ASSOCIATE-AC before it is sent.

Lists are symbolic-length sequences, maps are comprehension maps over them; the loops are treated by one generic
iteration (they carry no state from one element to the next; distinct list positions hold distinct context objects)."""
import ast

import z3

from pyvc.task import Task, FiniteTask
from pyvc.interp import Config, LoopSpec
from pyvc.values import SV, Obj, Env, Ev, PyRaise, Unsupported, SymSeq, PathEnd
from pyvc.symcoll import SymMap
from contracts.negotiation import UIDv, neg_config, loops_of, PR

AC = "pynetdicom.acse"
NEG_RQ_SITE = f"{AC}:ACSE._negotiate_as_requestor"
NEG_AC_SITE = f"{AC}:ACSE._negotiate_as_acceptor"
INT = z3.IntSort()
ROLE3 = [None, True, False]


def _role_items(I, name, n):
    """a role_selection dict {uid: item} of symbolic size: distinct keys, item i carries two roles out of {None, True, False}
    (chosen per queried index, memoised)"""
    g = I.ghost
    key = z3.Function(f"{name}_uid", INT, INT)
    memo = g.setdefault(f"{name}_items", {})

    def item(i):
        k = str(z3.simplify(i))
        if k not in memo:
            e = Env(f"{name}[{k}]")
            e.attrs["scu_role"] = ROLE3[I.choose(3, f"{name} scu_role")]
            e.attrs["scp_role"] = ROLE3[I.choose(3, f"{name} scp_role")]
            memo[k] = e
        return memo[k]
    m = SymMap(I, name, n, lambda i: UIDv(key(i)), item)
    return m, key, item


def _is_pair_map_of(I, m, src_key, src_item):
    """m is {uid_i: (item_i.scu_role, item_i.scp_role)} over the source items (checked on a probe index)"""
    if not isinstance(m, SymMap):
        return False
    j = I.fresh("int", "probe").e
    k = m.key_at(j)
    v = m.val_at(j)
    it = src_item(j)
    return (isinstance(k, UIDv) and I.valid(k.ident == src_key(j)) and isinstance(v, tuple) and len(v) == 2
            and v[0] is it.attrs["scu_role"] and v[1] is it.attrs["scp_role"])


def _trigger(I, args, kw):
    ev = args[1]
    name = ev.fields.get("name") if isinstance(ev, Obj) else repr(ev)
    I.trace.append(Ev("evt", (name,)))
    return None


def _results(I, name):
    """the list a negotiation function returns: symbolic length, each context with a symbolic id and result 0..4"""
    cls = I.repo.cls(f"{PR}:PresentationContext")
    n = I.fresh("int", f"n_{name}").e
    I.assume(n >= 0)
    cid, res = z3.Function(f"{name}_id", INT, INT), z3.Function(f"{name}_result", INT, INT)
    memo = {}

    def elem(i):
        k = str(z3.simplify(i))
        if k not in memo:
            o = Obj(cls, tag=f"{name}[{k}]")
            I.assume(z3.Implies(z3.And(i >= 0, i < n), z3.And(res(i) >= 0, res(i) <= 4, cid(i) >= 1, cid(i) <= 255)))
            o.fields.update(_context_id=SV(cid(i), "int"), result=SV(res(i), "int"))
            memo[k] = o
        return memo[k]
    return SymSeq(name, n, elem), n, cid, res


def _split_obligations(I, P, trace, seq, n, cid, res, owner):
    """_accepted_cx == {id: cx | result == 0}, _rejected_cx == [cx | result != 0] over the negotiation's result list"""
    acc = [e for e in trace if e.name == "setattr" and e.args[0] == owner and e.args[1] == "_accepted_cx"]
    rej = [e for e in trace if e.name == "setattr" and e.args[0] == owner and e.args[1] == "_rejected_cx"]
    ok = len(acc) == 1 and isinstance(acc[0].args[2], SymMap)
    if ok:
        m = acc[0].args[2]
        j = I.fresh("int", "probe").e
        k, v = m.key_at(j), m.val_at(j)
        ok = isinstance(v, Obj) and v.cls.name == "PresentationContext" and isinstance(k, SV) and \
            I.valid(z3.Implies(z3.And(j >= 0, j < m.n), z3.And(k.e == v.fields["_context_id"].e, v.fields["result"].e == 0)))
        flt = [x for x in I.ghost.get("filtered", []) if getattr(x, "filter_of", None) is seq]
        # the two filters are complementary and exhaustive over the result list
        probe = Obj(I.repo.cls(f"{PR}:PresentationContext"))
        pr = I.fresh("int", "probe_result")
        probe.fields.update(_context_id=SV(z3.Int("probe_id"), "int"), result=pr)
        conds = [f.filter_cond(probe) for f in flt]
        ok = ok and len(conds) == 2 and I.valid(z3.And(conds[0] == (pr.e == 0), conds[1] == (pr.e != 0)))
    I.ob(f"{P}/accepted-contexts-are-exactly-those-with-result-0-keyed-by-id-and-rejected-the-others",
         bool(ok) and len(rej) == 1, detail=f"{len(acc)} _accepted_cx stores, {len(rej)} _rejected_cx stores")
    return acc[0].args[2] if acc else None


# =============================================================================================
# requestor side
# =============================================================================================
class ApplyRolesLoop(LoopSpec):
    """for cx in requested_contexts: apply the proposed roles — one generic element"""

    def __init__(self, task, target):
        self.task, self.target = task, target

    def after_body(self, I, fr):
        g = I.ghost
        P = self.task.P
        cx = fr.locals[self.target]
        before = g["cx_roles_before"].get(id(cx))
        if before is None:
            I.ob(f"{P}/roles-applied-to-a-requested-context", False, detail="loop variable is not an element of requested_contexts")
            return
        look = g.get("lookup")
        now = (cx.fields.get("_scu_role"), cx.fields.get("_scp_role"))
        # the map the code consulted is {uid: (item.scu_role, item.scp_role)} over the requestor's role items, and the key is
        # this context's abstract syntax
        ok_map = look is not None and _is_pair_map_of(I, look[0], g["rq_key"], g["rq_item"])
        ok_key = look is not None and look[1] is cx.fields["_abstract_syntax"]
        I.ob(f"{P}/the-proposed-roles-are-looked-up-by-the-context's-abstract-syntax-in-uid->(scu,scp)", bool(ok_map and ok_key))
        if look is None:
            return
        if look[2] is not None:
            v = look[2]
            want = (v[0] or False, v[1] or False)
            I.ob(f"{P}/a-requested-context-carries-the-roles-proposed-for-its-abstract-syntax-with-None-as-False", now == want,
                 detail=f"proposed {v}, context now {now}")
        else:
            I.ob(f"{P}/a-requested-context-without-a-role-proposal-keeps-its-roles", now == before, detail=f"{before} -> {now}")

    def havoc(self, I, fr):
        I.ghost["lookup"] = None


class RequestorSiteTask(Task):
    name = "ACSE._negotiate_as_requestor/roles-arguments-outcome"
    functions = [NEG_RQ_SITE]
    shard = True

    def __init__(self, prefix="C11/"):
        self.prefix = prefix
        self.P = f"{prefix}{NEG_RQ_SITE}"

    def config(self, repo, with_loop_contract=True):
        c = neg_config(self.prefix)
        fi = repo.func(NEG_RQ_SITE)
        if with_loop_contract:
            loops = [n for n in loops_of(fi) if isinstance(n, ast.For)]
            if len(loops) != 1 or not isinstance(loops[0].target, ast.Name):
                raise Unsupported(f"_negotiate_as_requestor: expected one for-loop with a plain loop variable (over the requested "
                                  f"contexts), found {len(loops)} for-loop(s)")
            allloops = sorted([n for n in ast.walk(fi.node) if isinstance(n, (ast.For, ast.While))], key=lambda n: (n.lineno, n.col_offset))
            c.loop_specs[(NEG_RQ_SITE, allloops.index(loops[0]))] = ApplyRolesLoop(self, loops[0].target.id)
        c.summaries["pynetdicom.events:trigger"] = _trigger
        c.summaries[f"{AC}:ACSE.send_request"] = lambda I, a, k: I.trace.append(Ev("send_request"))
        c.summaries[f"{AC}:ACSE.send_abort"] = lambda I, a, k: I.trace.append(Ev("send_abort", tuple(a[1:])))

        def neg(I, args, kw):
            g = I.ghost
            seq, n, cid, res = _results(I, "negotiated")
            g["neg_call"] = (args, seq, n, cid, res)
            I.trace.append(Ev("negotiate_as_requestor"))
            return seq
        c.summaries[f"{PR}:negotiate_as_requestor"] = neg

        def env_call(I, env, method, args, kw):
            g = I.ghost
            if env.path == "acse.dul" and method == "receive_pdu":
                I.trace.append(Ev("receive_pdu", (), dict(kw)))
                return g["rsp"]
            if env.path == "acse.dul" and method == "kill_dul":
                I.trace.append(Ev("kill_dul"))
                return None
            if env.path == "acse.assoc" and method in ("kill", "abort"):
                I.trace.append(Ev(method))
                return None
            if env.path == "acse.socket._ready" and method == "wait":
                I.trace.append(Ev("ready.wait"))
                return True
            return NotImplemented
        c.env_call = env_call

        def env_attr(I, env, attr):
            if env.path == "acse.assoc" and attr == "accepted_contexts":
                # Association.accepted_contexts is sorted(self._accepted_cx.values(), ...): empty iff the map is empty
                return env.attrs.get("_accepted_cx")
            return NotImplemented
        c.env_attr = env_attr
        return c

    def body(self, I):
        P = self.P
        g = I.ghost
        cls = I.repo.cls(f"{PR}:PresentationContext")
        me = Env("acse", cls=I.repo.cls(f"{AC}:ACSE"))
        assoc, requestor, acceptor, dul, sock = (Env("acse.assoc"), Env("acse.requestor"), Env("acse.acceptor"), Env("acse.dul"),
                                                 Env("acse.socket"))
        for nm, v in (("_assoc", assoc), ("assoc", assoc), ("requestor", requestor), ("acceptor", acceptor), ("dul", dul),
                      ("socket", sock), ("acse_timeout", I.fresh("int", "acse_timeout"))):
            me.attrs[nm] = v
        assoc.attrs.update(is_established=False, is_aborted=False, is_rejected=False)
        sock.attrs["_ready"] = Env("acse.socket._ready")
        connected = I.choose(2, "socket connected") == 0
        sock.attrs["_is_connected"] = connected
        # requested contexts: symbolic length (possibly 0), arbitrary abstract syntaxes, roles set beforehand or not
        nrq = I.input("int", "n_requested").e
        I.assume(nrq >= 0)
        rq_ab = z3.Function("rq_ab", INT, INT)
        g["cx_roles_before"] = {}
        memo = {}

        def rq_elem(i):
            k = str(z3.simplify(i))
            if k not in memo:
                o = Obj(cls, tag=f"rq[{k}]")
                before = (ROLE3[I.choose(3, "scu role before")], ROLE3[I.choose(3, "scp role before")])
                o.fields.update(_context_id=SV(z3.Function("rq_id", INT, INT)(i), "int"), _abstract_syntax=UIDv(rq_ab(i)),
                                _scu_role=before[0], _scp_role=before[1], result=None, _as_scu=None, _as_scp=None)
                g["cx_roles_before"][id(o)] = before
                memo[k] = o
            return memo[k]
        requested = SymSeq("requested_contexts", nrq, rq_elem)
        requestor.attrs["requested_contexts"] = requested
        nro = I.input("int", "n_requestor_role_items").e
        I.assume(nro >= 0)
        rs, rs_key, rs_item = _role_items(I, "rq_roles", nro)
        g["rq_key"], g["rq_item"] = rs_key, rs_item
        requestor.attrs["role_selection"] = rs
        nac = I.input("int", "n_acceptor_role_items").e
        I.assume(nac >= 0)
        as_, as_key, as_item = _role_items(I, "ac_roles", nac)
        acceptor.attrs["role_selection"] = as_
        # the response
        kinds = ["accepted", "rejected", "invalid-result", "A_ABORT", "A_P_ABORT", "none", "A_RELEASE"]
        kind = kinds[I.choose(len(kinds), "response kind")] if connected else "unused"
        g["kind"] = kind
        PP = "pynetdicom.pdu_primitives"
        if kind in ("accepted", "rejected", "invalid-result"):
            rsp = Env("rsp", cls=I.repo.cls(f"{PP}:A_ASSOCIATE"))
            r = I.input("int", "result")
            I.assume({"accepted": r.e == 0, "rejected": z3.Or(r.e == 1, r.e == 2), "invalid-result": z3.Or(r.e < 0, r.e > 2)}[kind])
            rsp.attrs["result"] = r
            rsp.attrs.update(result_str="result", source_str="source", reason_str="reason")      # only logged
            rsp.attrs["presentation_context_definition_results_list"] = Env("rsp.results")
        elif kind in ("A_ABORT", "A_P_ABORT", "A_RELEASE"):
            rsp = Env("rsp", cls=I.repo.cls(f"{PP}:{kind}"))
        else:
            rsp = None
        g["rsp"] = rsp
        orig_index = SymMap.sym_index

        def spy_index(self_, I_, k):
            try:
                v = orig_index(self_, I_, k)
            except PyRaise:
                g["lookup"] = (self_, k, None)
                raise
            g["lookup"] = (self_, k, v)
            return v
        SymMap.sym_index = spy_index
        try:
            kind_, val = I.run_function(I.repo.func(NEG_RQ_SITE), [me])
        finally:
            SymMap.sym_index = orig_index
        I.ob(f"{P}/no-exception", kind_ == "return", detail=f"{kind_}:{val!r}")
        if kind_ != "return":
            return
        tr = I.trace
        names = [e.name for e in tr]
        evs = [e.args[0] for e in tr if e.name == "evt"]
        est = [e.args[2] for e in tr if e.name == "setattr" and e.args[0] == "acse.assoc" and e.args[1] == "is_established"]
        established = bool(est) and est[-1] is True
        I.ob(f"{P}/nothing-is-sent-or-awaited-without-requested-contexts",
             z3.Implies(nrq == 0, z3.BoolVal("send_request" not in names and "receive_pdu" not in names and "kill" in names
                                             and not established)))
        if "send_request" not in names:
            return
        I.ob(f"{P}/the-request-is-sent-once-and-REQUESTED-is-notified-first", names.count("send_request") == 1 and evs[:1] == ["EVT_REQUESTED"])
        if not connected:
            I.ob(f"{P}/a-failed-connection-is-aborted-and-never-established", "abort" in names and not established and "receive_pdu" not in names)
            return
        I.ob(f"{P}/the-response-is-awaited-once-with-the-ACSE-timeout",
             names.count("receive_pdu") == 1 and [e for e in tr if e.name == "receive_pdu"][0].kwargs.get("timeout") is me.attrs["acse_timeout"])
        if kind == "accepted":
            call = g.get("neg_call")
            I.ob(f"{P}/negotiate_as_requestor-is-called-once-for-an-accepted-response", names.count("negotiate_as_requestor") == 1)
            if call is None:
                return
            args, seq, n, cid, res = call
            I.ob(f"{P}/negotiation-gets-the-requested-contexts-and-the-results-of-the-A-ASSOCIATE-AC",
                 len(args) == 3 and args[0] is requested and isinstance(args[1], Env) and args[1].path == "rsp.results")
            I.ob(f"{P}/negotiation-gets-the-acceptor's-role-replies-as-uid->(scu,scp)", _is_pair_map_of(I, args[2], as_key, as_item))
            accmap = _split_obligations(I, P, tr, seq, n, cid, res, "acse.assoc")
            any_acc = accmap.n > 0 if isinstance(accmap, SymMap) else z3.BoolVal(bool(accmap))
            I.ob(f"{P}/established-iff-at-least-one-context-was-accepted", any_acc == z3.BoolVal(established))
            if established:
                I.ob(f"{P}/ACCEPTED-then-ESTABLISHED-and-nothing-is-torn-down", evs == ["EVT_REQUESTED", "EVT_ACCEPTED", "EVT_ESTABLISHED"]
                     and not ({"kill", "abort", "send_abort", "kill_dul"} & set(names)))
            else:
                ab = [e for e in tr if e.name == "send_abort"]
                I.ob(f"{P}/no-accepted-context:A-ABORT-sent-aborted-and-killed", len(ab) == 1 and ab[0].args == (2,) and "kill" in names
                     and evs == ["EVT_REQUESTED", "EVT_ACCEPTED", "EVT_ABORTED"]
                     and any(e.name == "setattr" and e.args[1] == "is_aborted" and e.args[2] is True for e in tr))
        else:
            I.ob(f"{P}/only-an-accepted-response-establishes-the-association", not established and "negotiate_as_requestor" not in names
                 and "EVT_ESTABLISHED" not in evs and "EVT_ACCEPTED" not in evs, detail=kind)
            flag = {"rejected": "is_rejected", "invalid-result": "is_aborted", "A_ABORT": "is_aborted", "A_P_ABORT": "is_aborted"}.get(kind)
            last = {"rejected": "EVT_REJECTED", "invalid-result": "EVT_ABORTED", "A_ABORT": "EVT_ABORTED", "A_P_ABORT": "EVT_ABORTED"}.get(kind)
            if flag:
                I.ob(f"{P}/a-refused-request-sets-its-flag-notifies-once-and-stops-the-provider",
                     any(e.name == "setattr" and e.args[1] == flag and e.args[2] is True for e in tr) and evs == ["EVT_REQUESTED", last]
                     and (("kill_dul" in names) or ("kill" in names)), detail=kind)
            else:
                I.ob(f"{P}/no-response-or-an-unexpected-primitive-ends-the-association",
                     ("abort" in names) if kind == "none" else ("kill_dul" in names), detail=kind)


# =============================================================================================
# acceptor side (after the acceptance policy passed)
# =============================================================================================
class AddRepliesLoop(LoopSpec):
    def __init__(self, task, target):
        self.task, self.target = task, target

    def after_body(self, I, fr):
        g = I.ghost
        adds = [e for e in I.trace[g["loop_mark"]:] if e.name == "add_item"]
        item = fr.locals[self.target]
        I.ob(f"{self.task.P}/every-role-reply-of-the-negotiation-is-added-to-the-A-ASSOCIATE-AC",
             len(adds) == 1 and adds[0].args[0] is item and getattr(item, "path", "").startswith("reply["), detail=repr(adds))

    def havoc(self, I, fr):
        I.ghost["loop_mark"] = len(I.trace)
        I.ghost["reply_loop_over"] = self.seq


class AcceptorSiteTask(Task):
    name = "ACSE._negotiate_as_acceptor/negotiation-mode-arguments-replies"
    functions = [NEG_AC_SITE]
    shard = True

    def __init__(self, prefix="C10/"):
        self.prefix = prefix
        self.P = f"{prefix}{NEG_AC_SITE}"

    def config(self, repo):
        c = neg_config(self.prefix)
        fi = repo.func(NEG_AC_SITE)
        allloops = sorted([n for n in ast.walk(fi.node) if isinstance(n, (ast.For, ast.While))], key=lambda n: (n.lineno, n.col_offset))
        # the loop over the negotiation's role replies (the other for-loop, over the SOP Class Extended Negotiation responses,
        # iterates over a call result; its callee is summarised as returning no items)
        fors = [n for n in allloops if isinstance(n, ast.For) and isinstance(n.target, ast.Name) and
                not (isinstance(n.iter, ast.Call) and isinstance(n.iter.func, ast.Attribute) and n.iter.func.attr == "_check_sop_class_extended")]
        if len(fors) != 1:
            raise Unsupported(f"_negotiate_as_acceptor: expected one for-loop besides the one over _check_sop_class_extended(), found {len(fors)}")
        c.loop_specs[(NEG_AC_SITE, allloops.index(fors[0]))] = AddRepliesLoop(self, fors[0].target.id)
        c.summaries["pynetdicom.events:trigger"] = _trigger
        c.summaries[f"{AC}:ACSE._check_sop_class_extended"] = lambda I, a, k: []
        c.summaries[f"{AC}:ACSE._check_sop_class_common_extended"] = lambda I, a, k: {}
        c.summaries[f"{AC}:ACSE._check_async_ops"] = lambda I, a, k: None
        c.summaries[f"{AC}:ACSE.send_reject"] = lambda I, a, k: I.trace.append(Ev("send_reject", tuple(a[1:])))
        c.summaries[f"{AC}:ACSE.send_accept"] = lambda I, a, k: I.trace.append(Ev("send_accept"))
        c.module_consts[("pynetdicom._config", "UNRESTRICTED_STORAGE_SERVICE")] = lambda I: I.ghost["unrestricted"]

        def mk(which):
            def neg(I, args, kw):
                g = I.ghost
                seq, n, cid, res = _results(I, "result")
                nrep = I.fresh("int", "n_replies").e
                I.assume(nrep >= 0)
                memo = {}

                def rep(i):
                    k = str(z3.simplify(i))
                    if k not in memo:
                        memo[k] = Env(f"reply[{k}]")
                    return memo[k]
                replies = SymSeq("replies", nrep, rep)
                g["neg_call"] = (which, args, seq, n, cid, res, replies)
                I.trace.append(Ev("negotiate", (which,)))
                return (seq, replies)
            return neg
        c.summaries[f"{PR}:negotiate_as_acceptor"] = mk("negotiate_as_acceptor")
        c.summaries[f"{PR}:negotiate_unrestricted"] = mk("negotiate_unrestricted")

        def env_call(I, env, method, args, kw):
            if env.path == "acse.assoc" and method == "kill":
                I.trace.append(Ev("kill"))
                return None
            if env.path == "acse.acceptor" and method == "add_negotiation_item":
                I.trace.append(Ev("add_item", (args[0],)))
                return None
            return NotImplemented
        c.env_call = env_call
        return c

    def body(self, I):
        P = self.P
        g = I.ghost
        g["unrestricted"] = I.choose(2, "UNRESTRICTED_STORAGE_SERVICE") == 0
        me = Env("acse", cls=I.repo.cls(f"{AC}:ACSE"))
        assoc, requestor, acceptor, ae = Env("acse.assoc"), Env("acse.requestor"), Env("acse.acceptor"), Env("acse.assoc.ae")
        me.attrs.update(_assoc=assoc, assoc=assoc, requestor=requestor, acceptor=acceptor)
        assoc.attrs["ae"] = ae
        rq = Env("assoc_rq")
        rq.attrs.update(calling_ae_title="CALLING", called_ae_title="CALLED", presentation_context_definition_list=Env("proposed_contexts"))
        requestor.attrs.update(primitive=rq, user_identity=None, asynchronous_operations=(1, 1))
        nro = I.input("int", "n_requestor_role_items").e
        I.assume(nro >= 0)
        rs, rs_key, rs_item = _role_items(I, "rq_roles", nro)
        requestor.attrs["role_selection"] = rs
        acceptor.attrs.update(ae_title="CALLED", supported_contexts=Env("supported_contexts"))
        # the acceptance policy lets this request through (its decisions are the subject of acse_accept.py)
        ae.attrs.update(require_calling_aet=[], require_called_aet=False, active_associations=[], maximum_associations=10)
        kind, val = I.run_function(I.repo.func(NEG_AC_SITE), [me])
        I.ob(f"{P}/no-exception", kind == "return", detail=f"{kind}:{val!r}")
        if kind != "return":
            return
        tr = I.trace
        names = [e.name for e in tr]
        call = g.get("neg_call")
        I.ob(f"{P}/the-negotiation-runs-exactly-once-for-a-request-that-passed-the-policy", names.count("negotiate") == 1 and call is not None)
        if call is None:
            return
        which, args, seq, n, cid, res, replies = call
        I.ob(f"{P}/negotiate_unrestricted-iff-UNRESTRICTED_STORAGE_SERVICE",
             which == ("negotiate_unrestricted" if g["unrestricted"] else "negotiate_as_acceptor"))
        I.ob(f"{P}/negotiation-gets-the-proposed-contexts-of-the-request-and-the-supported-contexts",
             len(args) == 3 and getattr(args[0], "path", None) == "proposed_contexts" and getattr(args[1], "path", None) == "supported_contexts")
        I.ob(f"{P}/negotiation-gets-the-requestor's-role-proposals-as-uid->(scu,scp)", _is_pair_map_of(I, args[2], rs_key, rs_item))
        _split_obligations(I, P, tr, seq, n, cid, res, "acse.assoc")
        I.ob(f"{P}/the-loop-that-adds-the-role-replies-ranges-over-all-replies-of-the-negotiation", g.get("reply_loop_over") is replies,
             detail=repr(getattr(g.get("reply_loop_over"), "name", None)))
        sa = [i for i, e in enumerate(tr) if e.name == "send_accept"]
        I.ob(f"{P}/the-accept-is-sent-once-after-the-negotiation", len(sa) == 1 and names.index("negotiate") < sa[0])


# =============================================================================================
# what ACSE.send_request / send_accept put into the A-ASSOCIATE primitive (C12)
# =============================================================================================
SEND_RQ = f"{AC}:ACSE.send_request"
SEND_AC = f"{AC}:ACSE.send_accept"
APP_CTX = "1.2.840.10008.3.1.1.1"


class SendAssociateTask(Task):
    """effect-trace contract: the primitive handed to the provider is a fresh A_ASSOCIATE whose parameters are exactly the
    ones the property talks about - the DICOM application context name, the titles, the requestor's requested contexts /
    all negotiated results (accepted followed by rejected), and the service user's user-information list (whose
    multiplicities are C12's user-information invariant) - and it is sent exactly once."""
    shard = False

    def __init__(self, which, prefix="C12/"):
        self.which, self.prefix = which, prefix
        self.fn = SEND_RQ if which == "request" else SEND_AC
        self.name = f"ACSE.send_{which}"
        self.functions = [self.fn]
        self.P = f"{prefix}{self.fn}"

    def config(self, repo):
        c = Config()
        c.ob_prefix = self.prefix
        c.summaries["pynetdicom.pdu_primitives:A_ASSOCIATE"] = lambda I, a, k: I.ghost["new_primitive"](I)
        c.ext_models["pydicom.uid.UID"] = lambda I, a, k: ("UID", a[0])
        c.summaries["pynetdicom.events:trigger"] = _trigger

        def env_call(I, env, method, args, kw):
            if env.path == "acse.dul" and method == "send_pdu":
                I.trace.append(Ev("send_pdu", (args[0],)))
                return None
            return NotImplemented
        c.env_call = env_call
        return c

    def body(self, I):
        P, g = self.P, I.ghost
        made = []

        def new_primitive(I_):
            p = Env(f"primitive{len(made)}")
            made.append(p)
            return p
        g["new_primitive"] = new_primitive
        me = Env("acse", cls=I.repo.cls(f"{AC}:ACSE"))
        assoc, requestor, acceptor, dul = Env("acse.assoc"), Env("acse.requestor"), Env("acse.acceptor"), Env("acse.dul")
        me.attrs.update(_assoc=assoc, assoc=assoc, requestor=requestor, acceptor=acceptor, dul=dul)
        vals = {}
        for owner, o in (("requestor", requestor), ("acceptor", acceptor)):
            for nm in ("ae_title", "address_info", "user_information", "requested_contexts"):
                vals[(owner, nm)] = Env(f"{owner}.{nm}")
                o.attrs[nm] = vals[(owner, nm)]
        rq_prim = Env("request_primitive")
        rq_prim.attrs.update(calling_ae_title=Env("rq.calling"), called_ae_title=Env("rq.called"))
        if self.which == "accept":
            requestor.attrs["primitive"] = rq_prim
        nacc, nrej = I.fresh("int", "n_accepted").e, I.fresh("int", "n_rejected").e
        I.assume(z3.And(nacc >= 0, nrej >= 0))
        acc = SymSeq("accepted_contexts", nacc, lambda i: Env("accepted_cx"))
        rej = SymSeq("rejected_contexts", nrej, lambda i: Env("rejected_cx"))
        assoc.attrs.update(accepted_contexts=acc, rejected_contexts=rej)
        kind, val = I.run_function(I.repo.func(self.fn), [me])
        I.ob(f"{P}/no-exception", kind == "return", detail=f"{kind}:{val!r}")
        if kind != "return":
            return
        sent = [e for e in I.trace if e.name == "send_pdu"]
        I.ob(f"{P}/exactly-one-fresh-A-ASSOCIATE-primitive-is-sent", len(sent) == 1 and len(made) == 1 and sent[0].args[0] is made[0],
             detail=f"{len(sent)} sent, {len(made)} constructed")
        if len(made) != 1:
            return
        prim = made[0]
        sets = {}
        for e in I.trace[:I.trace.index(sent[0])] if sent else I.trace:
            if e.name == "setattr" and e.args[0] == prim.path:
                sets.setdefault(e.args[1], []).append(e.args[2])
        one = lambda k: sets.get(k, [None])[-1] if len(sets.get(k, [])) == 1 else "<not set exactly once before sending>"
        I.ob(f"{P}/application-context-name-is-the-DICOM-application-context", one("application_context_name") == ("UID", APP_CTX),
             detail=repr(one("application_context_name")))
        if self.which == "request":
            I.ob(f"{P}/calling-title-is-the-requestor's-and-called-title-the-acceptor's",
                 one("calling_ae_title") is vals[("requestor", "ae_title")] and one("called_ae_title") is vals[("acceptor", "ae_title")])
            I.ob(f"{P}/proposes-exactly-the-requestor's-requested-contexts",
                 one("presentation_context_definition_list") is vals[("requestor", "requested_contexts")])
            I.ob(f"{P}/user-information-is-the-requestor's-user-information-list", one("user_information") is vals[("requestor", "user_information")])
            I.ob(f"{P}/the-request-primitive-is-kept-as-the-requestor's-primitive",
                 any(e.name == "setattr" and e.args[0] == "acse.requestor" and e.args[1] == "primitive" and e.args[2] is prim for e in I.trace))
        else:
            I.ob(f"{P}/titles-are-echoed-from-the-request", one("calling_ae_title") is rq_prim.attrs["calling_ae_title"]
                 and one("called_ae_title") is rq_prim.attrs["called_ae_title"])
            I.ob(f"{P}/result-is-accepted-by-the-service-user", one("result") == 0 and one("result_source") == 1)
            from pyvc.symcoll import ConcatSeq
            res = one("presentation_context_definition_results_list")
            I.ob(f"{P}/one-result-item-per-negotiated-context:accepted-followed-by-rejected",
                 isinstance(res, ConcatSeq) and len(res.parts) == 2 and res.parts[0] is acc and res.parts[1] is rej, detail=repr(res))
            I.ob(f"{P}/user-information-is-the-acceptor's-user-information-list", one("user_information") is vals[("acceptor", "user_information")])


class SendRejectTask(Task):
    """ACSE.send_reject on its real body for ARBITRARY integers: the triples of PS3.8 Table 9-21 (result 1/2; source 1 with
    reason 1,2,3,7; source 2 or 3 with reason 1,2) leave as ONE fresh A-ASSOCIATE primitive carrying exactly the three values it
    was called with, the association is marked rejected and not established; every other triple is refused with ValueError
    before anything is sent or marked.  (The acceptance policy's contract says WHICH triple each refusal uses; this one says the
    triple reaches the provider unchanged.)"""
    shard = False
    name = "ACSE.send_reject"
    functions = [f"{AC}:ACSE.send_reject"]

    def __init__(self, prefix="C13/"):
        self.prefix = prefix
        self.P = f"{prefix}{AC}:ACSE.send_reject"

    def config(self, repo):
        c = Config()
        c.ob_prefix = self.prefix
        c.summaries["pynetdicom.pdu_primitives:A_ASSOCIATE"] = lambda I, a, k: I.ghost["new_primitive"](I)

        def env_call(I, env, method, args, kw):
            if env.path == "acse.dul" and method == "send_pdu":
                I.trace.append(Ev("send_pdu", (args[0],)))
                return None
            return NotImplemented
        c.env_call = env_call
        return c

    def body(self, I):
        P, g = self.P, I.ghost
        made = []

        def new_primitive(I_):
            p = Env(f"primitive{len(made)}")
            made.append(p)
            return p
        g["new_primitive"] = new_primitive
        me = Env("acse", cls=I.repo.cls(f"{AC}:ACSE"))
        assoc, acceptor, dul = Env("acse.assoc"), Env("acse.acceptor"), Env("acse.dul")
        me.attrs.update(_assoc=assoc, assoc=assoc, acceptor=acceptor, dul=dul)
        assoc.attrs["acceptor"] = acceptor
        res, src, dia = I.input("int", "result"), I.input("int", "source"), I.input("int", "diagnostic")
        kind, val = I.run_function(I.repo.func(f"{AC}:ACSE.send_reject"), [me, res, src, dia])
        valid = z3.And(z3.Or(res.e == 1, res.e == 2),
                       z3.Or(z3.And(src.e == 1, z3.Or(dia.e == 1, dia.e == 2, dia.e == 3, dia.e == 7)),
                             z3.And(z3.Or(src.e == 2, src.e == 3), z3.Or(dia.e == 1, dia.e == 2))))
        sent = [e for e in I.trace if e.name == "send_pdu"]
        flags = [e for e in I.trace if e.name == "setattr" and e.args[0] == "acse.assoc"]
        if kind == "raise":
            I.ob(f"{P}/only-a-triple-outside-PS3.8-Table-9-21-is-refused-and-with-ValueError", z3.Not(valid) if val.cls_name == "ValueError" else False,
                 detail=repr(val))
            I.ob(f"{P}/a-refused-triple-sends-nothing-and-marks-nothing", not sent and not flags, detail=repr([e.name for e in I.trace]))
            return
        I.ob(f"{P}/only-triples-of-PS3.8-Table-9-21-are-sent", valid)
        I.ob(f"{P}/exactly-one-fresh-A-ASSOCIATE-primitive-is-sent", len(sent) == 1 and len(made) == 1 and sent[0].args[0] is made[0],
             detail=f"{len(sent)} sent, {len(made)} constructed")
        if len(made) != 1 or len(sent) != 1:
            return
        prim = made[0]
        sets = {}
        for e in I.trace[:I.trace.index(sent[0])]:
            if e.name == "setattr" and e.args[0] == prim.path:
                sets.setdefault(e.args[1], []).append(e.args[2])
        same = lambda k, v: len(sets.get(k, [])) == 1 and sets[k][0] is v
        I.ob(f"{P}/the-primitive-carries-exactly-the-result-source-and-reason-it-was-called-with",
             same("result", res) and same("result_source", src) and same("diagnostic", dia) and set(sets) == {"result", "result_source", "diagnostic"},
             detail=repr(sets))
        fl = {e.args[1]: e.args[2] for e in flags}
        I.ob(f"{P}/the-association-is-marked-rejected-and-not-established", fl.get("is_rejected") is True and fl.get("is_established") is False
             and set(fl) == {"is_rejected", "is_established"}, detail=repr(fl))


class SendAbortTask(Task):
    """ACSE.send_abort / send_ap_abort on their real bodies for arbitrary integers: the sources 0 and 2 (reasons 0,1,2,4,5,6) leave
    as one fresh A-ABORT / A-P-ABORT primitive carrying that value, the association is marked aborted and not established;
    anything else is ValueError before anything is sent or marked."""
    shard = False

    def __init__(self, which, prefix="C11/"):
        self.which, self.prefix = which, prefix
        self.fn = f"{AC}:ACSE.send_abort" if which == "abort" else f"{AC}:ACSE.send_ap_abort"
        self.name = f"ACSE.send_{'abort' if which == 'abort' else 'ap_abort'}"
        self.functions = [self.fn]
        self.P = f"{prefix}{self.fn}"

    def config(self, repo):
        c = Config()
        c.ob_prefix = self.prefix
        cls = "A_ABORT" if self.which == "abort" else "A_P_ABORT"
        c.summaries[f"pynetdicom.pdu_primitives:{cls}"] = lambda I, a, k: I.ghost["new_primitive"](I)

        def env_call(I, env, method, args, kw):
            if env.path == "acse.dul" and method == "send_pdu":
                I.trace.append(Ev("send_pdu", (args[0],)))
                return None
            return NotImplemented
        c.env_call = env_call
        return c

    def body(self, I):
        P, g = self.P, I.ghost
        made = []

        def new_primitive(I_):
            p = Env(f"primitive{len(made)}")
            made.append(p)
            return p
        g["new_primitive"] = new_primitive
        me = Env("acse", cls=I.repo.cls(f"{AC}:ACSE"))
        assoc, dul = Env("acse.assoc"), Env("acse.dul")
        me.attrs.update(_assoc=assoc, assoc=assoc, dul=dul)
        v = I.input("int", "source" if self.which == "abort" else "reason")
        kind, val = I.run_function(I.repo.func(self.fn), [me, v])
        legal = [0, 2] if self.which == "abort" else [0, 1, 2, 4, 5, 6]
        valid = z3.Or(*[v.e == k for k in legal])
        sent = [e for e in I.trace if e.name == "send_pdu"]
        flags = [e for e in I.trace if e.name == "setattr" and e.args[0] == "acse.assoc"]
        if kind == "raise":
            I.ob(f"{P}/only-a-value-PS3.8-does-not-define-is-refused-and-with-ValueError", z3.Not(valid) if val.cls_name == "ValueError" else False,
                 detail=repr(val))
            I.ob(f"{P}/a-refused-value-sends-nothing-and-marks-nothing", not sent and not flags)
            return
        I.ob(f"{P}/only-values-PS3.8-defines-are-sent", valid)
        I.ob(f"{P}/exactly-one-fresh-abort-primitive-is-sent", len(sent) == 1 and len(made) == 1 and sent[0].args[0] is made[0],
             detail=f"{len(sent)} sent, {len(made)} constructed")
        if len(made) != 1 or len(sent) != 1:
            return
        sets = {}
        for e in I.trace[:I.trace.index(sent[0])]:
            if e.name == "setattr" and e.args[0] == made[0].path:
                sets.setdefault(e.args[1], []).append(e.args[2])
        attr = "abort_source" if self.which == "abort" else "provider_reason"
        I.ob(f"{P}/the-primitive-carries-exactly-the-value-it-was-called-with", set(sets) == {attr} and len(sets[attr]) == 1 and sets[attr][0] is v,
             detail=repr(sets))
        fl = {e.args[1]: e.args[2] for e in flags}
        I.ob(f"{P}/the-association-is-marked-aborted-and-not-established", fl.get("is_aborted") is True and fl.get("is_established") is False
             and set(fl) == {"is_aborted", "is_established"}, detail=repr(fl))


class RequestorSiteFamilyTask(FiniteTask):
    """bounded stand-in (labelled bounded, never counted as proved): the REAL _negotiate_as_requestor executed on every list of
    1..3 requested contexts over two abstract syntaxes (repeated abstract syntaxes included) x every set of role items for those
    abstract syntaxes with roles from {None, True, False}^2 (a representative 4) - concrete loops, no loop contract needed, so
    it also decides restructured code; what is compared is the role pair of every requested context at the moment the
    negotiation function is called.  A disagreement is a concrete input, replayed natively."""
    name = "bounded/_negotiate_as_requestor/roles-applied-for-up-to-3-contexts-over-2-abstract-syntaxes"
    functions = [NEG_RQ_SITE]
    backend = "bounded-exhaustive"
    ROLES = [(None, None), (True, False), (None, True), (True, True)]

    def __init__(self, prefix="C11/"):
        self.prefix = prefix

    def check(self, repo, emit):
        import itertools
        from pyvc.interp import Interp
        P = f"{self.prefix}bounded:{NEG_RQ_SITE}"
        site = RequestorSiteTask(self.prefix)
        cfg = site.config(repo, with_loop_contract=False)
        snap = {}

        def neg(I, args, kw):
            snap["roles"] = [(c.fields.get("_scu_role"), c.fields.get("_scp_role")) for c in args[0]]
            return []
        cfg.summaries[f"{PR}:negotiate_as_requestor"] = neg
        I = Interp(repo, cfg)
        cls = repo.cls(f"{PR}:PresentationContext")
        PP = "pynetdicom.pdu_primitives"
        AB = ["1.2.840.10008.5.1.4.1.1.2", "1.2.840.10008.5.1.4.1.1.4"]
        bad, n = None, 0
        role_maps = [{}]
        for a in self.ROLES:
            role_maps += [{AB[0]: a}, {AB[1]: a}]
            role_maps += [{AB[0]: a, AB[1]: b} for b in self.ROLES]
        for k in (1, 2, 3):
            for abs_ in itertools.product(AB, repeat=k):
                for rmap in role_maps:
                    n += 1
                    I.begin_path([])
                    snap.clear()
                    cxs = []
                    for i, ab in enumerate(abs_):
                        o = Obj(cls, tag=f"rq[{i}]")
                        o.fields.update(_context_id=2 * i + 1, _abstract_syntax=ab, _scu_role=None, _scp_role=None, result=None,
                                        _as_scu=None, _as_scp=None)
                        cxs.append(o)
                    me = Env("acse", cls=repo.cls(f"{AC}:ACSE"))
                    assoc, requestor, acceptor, dul, sock = (Env("acse.assoc"), Env("acse.requestor"), Env("acse.acceptor"),
                                                             Env("acse.dul"), Env("acse.socket"))
                    me.attrs.update(_assoc=assoc, assoc=assoc, requestor=requestor, acceptor=acceptor, dul=dul, socket=sock, acse_timeout=5)
                    sock.attrs.update(_ready=Env("acse.socket._ready"), _is_connected=True)
                    requestor.attrs["requested_contexts"] = cxs
                    items = {}
                    for ab, (scu, scp) in rmap.items():
                        it = Env(f"role_item[{ab}]")
                        it.attrs.update(scu_role=scu, scp_role=scp)
                        items[ab] = it
                    requestor.attrs["role_selection"] = items
                    acceptor.attrs["role_selection"] = {}
                    rsp = Env("rsp", cls=repo.cls(f"{PP}:A_ASSOCIATE"))
                    rsp.attrs.update(result=0, presentation_context_definition_results_list=Env("rsp.results"))
                    I.ghost["rsp"] = rsp
                    try:
                        kind, val = I.run_function(repo.func(NEG_RQ_SITE), [me])
                    except PathEnd:
                        kind, val = "return", None
                    want = [((rmap[ab][0] or False, rmap[ab][1] or False) if ab in rmap else (None, None)) for ab in abs_]
                    got = snap.get("roles")
                    if kind != "return" or got != want:
                        bad = {"requested contexts (abstract syntaxes)": list(abs_), "role items (abstract syntax -> (scu, scp))": {k_: list(v) for k_, v in rmap.items()},
                               "roles of the requested contexts at the negotiation": got, "expected": want,
                               "outcome": f"{kind}:{val!r}" if kind != "return" else "returned"}
                        break
                if bad:
                    break
            if bad:
                break
        emit(f"{P}/every-requested-context-carries-the-roles-proposed-for-its-abstract-syntax[bounded:{n}-configurations]",
             bad is None, detail=bad, model=bad)

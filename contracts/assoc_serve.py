"""Contracts on the association's request dispatch and C-CANCEL bookkeeping:
Association._serve_request (C19, C23), ServiceClass.is_cancelled (C23), DIMSEServiceProvider.receive_primitive
(C23, cancel branch).  Dicts owned by the environment (accepted contexts, pending cancels) are abstract maps
(pyvc.symcoll.AbsMap): unknown content, membership = the truth value of `k in d`."""
import z3

from pyvc.task import Task
from pyvc.interp import Interp, Config
from pyvc.values import SV, Obj, Env, Ev, ExcVal, PyRaise, Unsupported, SymSeq
from pyvc.symcoll import AbsMap

ASSOC = "pynetdicom.association"
SERVE = f"{ASSOC}:Association._serve_request"
ISC = "pynetdicom.service_class:ServiceClass.is_cancelled"
RECVP = "pynetdicom.dimse:DIMSEServiceProvider.receive_primitive"
DP = "pynetdicom.dimse_primitives"


def trigger_summary(I, args, kw):
    ev = args[1]
    name = ev.fields.get("name") if isinstance(ev, Obj) else repr(ev)
    I.trace.append(Ev("evt", (name, args[2] if len(args) > 2 else None)))
    return None


class ServeTask(Task):
    name = "Association._serve_request"
    functions = [SERVE]

    def config(self, repo):
        c = Config()
        c.ob_prefix = "C19/"
        c.summaries["pynetdicom.events:trigger"] = trigger_summary

        def uid_to_sc(I, args, kw):
            I.trace.append(Ev("uid_to_service_class", (args[0],)))
            f = Env("service_class_type")
            return f
        c.summaries["pynetdicom.sop_class:uid_to_service_class"] = uid_to_sc
        c.module_consts[("pynetdicom._config", "UNRESTRICTED_STORAGE_SERVICE")] = lambda I: I.fresh("bool", "unrestricted")

        def env_call(I, env, method, args, kw):
            g = I.ghost
            if env.path == "service_class_type" and method == "__call__":
                return Env("service_class")
            if env.path == "service_class" and method == "SCP":
                I.trace.append(Ev("SCP", (args[0], args[1])))
                k = I.choose(3, "SCP outcome")
                g["scp_outcome"] = k
                if k == 1:
                    raise PyRaise(ExcVal("NotImplementedError"))
                if k == 2:
                    raise PyRaise(ExcVal("RuntimeError", ("handler machinery failed",)))
                return None
            if env.path == "assoc" and method == "abort":
                I.trace.append(Ev("abort"))
                return None
            if env.path == "assoc.dimse" and method == "send_msg":
                I.trace.append(Ev("send_msg", tuple(args)))
                return None
            return NotImplemented
        c.env_call = env_call
        # `self` is an Association: private helpers of the class that _serve_request may call are executed (real code); the
        # methods that leave the function's scope are summarised by their effect
        c.summaries["pynetdicom.association:Association.abort"] = lambda I, a, k: I.trace.append(Ev("abort"))

        def gvc(I, args, kw):
            # Association._get_valid_context by its contract (C18): SOME accepted context that suits the abstract syntax and
            # role, or ValueError.  The context id argument is only a hint: the result may belong to a different id.
            if I.choose(2, "_get_valid_context finds a context") == 1:
                raise PyRaise(ExcVal("ValueError", ("no suitable presentation context",)))
            I.trace.append(Ev("get_valid_context", tuple(args[1:]), dict(kw)))
            return Env("some_accepted_context")
        c.summaries["pynetdicom.association:Association._get_valid_context"] = gvc
        return c

    def body(self, I):
        g = I.ghost
        me = Env("assoc", cls=I.repo.cls("pynetdicom.association:Association"))
        me.attrs["_sent_release"] = I.input("bool", "_sent_release")
        dimse = Env("assoc.dimse")
        me.attrs["dimse"] = dimse
        dimse.attrs["cancel_req"] = AbsMap(I, "cancel_req")       # pending C-CANCELs received so far: any content
        acceptor = Env("assoc.acceptor")
        acceptor.attrs["accepted_common_extended"] = AbsMap(I, "accepted_common_extended", lambda I_, k: (Env("service_class_uid"), Env("x")))
        me.attrs["acceptor"] = acceptor
        acc = AbsMap(I, "_accepted_cx", lambda I_, k: Env("accepted_context"))
        me.attrs["_accepted_cx"] = acc
        msg = Env("msg", cls=I.repo.cls(f"{DP}:{['C_STORE', 'C_FIND', 'N_GET'][I.choose(3, 'request type')]}"))
        msg.attrs["is_valid_request"] = I.input("bool", "is_valid_request")
        msg.attrs["msg_type"] = "X-RQ"
        mid = I.input("int", "MessageID")
        I.assume(z3.And(mid.e >= 0, mid.e <= 65535))
        msg.attrs["MessageID"] = mid
        which = I.choose(3, "SOP class attribute")
        msg.attrs["AffectedSOPClassUID"] = Env("affected_uid") if which == 0 else None
        msg.attrs["RequestedSOPClassUID"] = Env("requested_uid") if which == 1 else None
        cid = I.input("int", "context_id")
        I.assume(z3.And(cid.e >= 0, cid.e <= 255))
        kind, val = I.run_function(I.repo.func(SERVE), [me, msg, cid])
        tr = I.trace
        scp = [e for e in tr if e.name == "SCP"]
        aborts = [e for e in tr if e.name == "abort"]
        sends = [e for e in tr if e.name == "send_msg"]
        I.ob(f"C19/{SERVE}/no-exception-escapes", kind == "return", detail=f"{kind}:{val!r}")
        # C20 (composition): every DIMSE response to a request comes from the service class the request was handed to -
        # the dispatch itself sends none, hands the request over at most once, and passes on the request's own context
        I.ob(f"C20/{SERVE}/the-dispatch-itself-sends-no-DIMSE-response", not sends)
        I.ob(f"C20/{SERVE}/a-request-is-handed-to-a-service-class-at-most-once", len(scp) <= 1)
        ent = next((e for e in acc.q if I.valid(I.eq(e[0], cid)) is True or (not isinstance(I.eq(e[0], cid), bool) and I.valid(I.eq(e[0], cid)))), None)
        if scp:
            I.ob(f"C19/{SERVE}/handler-dispatch-only-for-an-accepted-context-id", ent is not None and I.valid(ent[1] if not isinstance(ent[1], bool) else z3.BoolVal(ent[1])))
            I.ob(f"C19/{SERVE}/the-context-handed-to-the-service-class-is-the-accepted-one-for-that-id",
                 ent is not None and scp[0].args[1] is ent[2] and scp[0].args[0] is msg)
            I.ob(f"C19/{SERVE}/dispatch-at-most-once", len(scp) == 1)
            # C23: pending cancels are dropped immediately before the operation starts (and after it ends normally)
            i = tr.index(scp[0])
            # the pending cancels are dropped either by binding a new empty map or by emptying the map in place
            before = [e for e in tr[:i] if (e.name == "setattr" and e.args[0] == "assoc.dimse" and e.args[1] == "cancel_req") or
                      (e.name == "cancel_req.clear")]
            I.ob(f"C23/{SERVE}/pending-cancels-are-dropped-before-the-operation-starts",
                 bool(before) and _is_empty_map(I, before[-1].args[2]) and all(e.name in ("setattr", "cancel_req.clear") for e in tr[tr.index(before[-1]):i]),
                 detail=repr(before[-1].args[2]) if before else "cancel_req is not reset")
            if g.get("scp_outcome") == 0:
                after = [e for e in tr[i:] if (e.name == "setattr" and e.args[0] == "assoc.dimse" and e.args[1] == "cancel_req") or
                         (e.name == "cancel_req.clear")]
                I.ob(f"C23/{SERVE}/pending-cancels-are-dropped-when-the-operation-ends", bool(after) and _is_empty_map(I, after[-1].args[2]))
            else:
                I.ob(f"C19/{SERVE}/a-failing-service-class-aborts-the-association", len(aborts) == 1)
        else:
            valid = I.valid(z3.And(z3.Not(me.attrs["_sent_release"].e), msg.attrs["is_valid_request"].e))
            if valid:
                # a valid request during an established association that did not reach a handler: unknown context id
                I.ob(f"C19/{SERVE}/request-on-an-unaccepted-context-id:association-aborted-nothing-answered",
                     ent is not None and I.valid(z3.Not(ent[1]) if not isinstance(ent[1], bool) else z3.BoolVal(not ent[1]))
                     and len(aborts) == 1 and not sends)
            else:
                I.ob(f"C19/{SERVE}/ignored-message:no-handler-no-answer", not sends and not aborts)


def _is_empty_map(I, v):
    """the value stored as the pending-cancel map holds no entry (for every content the old map may have had)"""
    if v == "cleared-in-place":
        return True
    if isinstance(v, dict):
        return len(v) == 0
    if hasattr(v, "sym_len"):
        n = v.sym_len(I)
        return I.valid(I._num(n, "int") == 0)
    return False


class IsCancelledTask(Task):
    name = "ServiceClass.is_cancelled"
    functions = [ISC]

    def config(self, repo):
        c = Config()
        c.ob_prefix = "C23/"
        return c

    def body(self, I):
        P = f"C23/{ISC}"
        me = Env("service_class", cls=I.repo.cls("pynetdicom.service_class:ServiceClass"))
        dimse = Env("service_class.dimse")
        me.attrs["dimse"] = dimse
        cm = AbsMap(I, "cancel_req")
        dimse.attrs["cancel_req"] = cm
        n0 = cm.n
        mid = I.input("int", "msg_id")
        other = I.input("int", "other_id")
        I.assume(other.e != mid.e)
        oent = cm._find(I, other)
        o_member0 = oent[1]
        kind, val = I.run_function(I.repo.func(ISC), [me, mid])
        I.ob(f"{P}/no-exception", kind == "return", detail=f"{kind}:{val!r}")
        if kind != "return":
            return
        val = I.as_bool(val)
        ent = cm._find(I, mid)
        was_member = len(cm.deletes) == 1
        I.ob(f"{P}/reports-cancelled-exactly-when-a-cancel-for-this-message-id-is-pending",
             (val is True and was_member) or (val is False and not cm.deletes), detail=f"{val!r} deletes={cm.deletes!r}")
        if val is True:
            I.ob(f"{P}/consumes-only-the-matching-cancel", len(cm.deletes) == 1 and I.valid(I.eq(cm.deletes[0], mid)) and
                 I.valid(cm.n == n0 - 1))
        else:
            I.ob(f"{P}/no-cancel-consumed-when-none-matches", not cm.deletes and I.valid(cm.n == n0))
        I.ob(f"{P}/cancels-for-other-message-ids-are-untouched", oent[1] is o_member0 or (not isinstance(oent[1], bool) and oent[1].eq(o_member0)))
        I.ob(f"{P}/nothing-is-stored", not cm.stores)


class ReceiveCancelTask(Task):
    """receive_primitive when the completed message is a C-CANCEL: it is recorded under the message id it names"""
    name = "DIMSEServiceProvider.receive_primitive/C-CANCEL"
    functions = [RECVP]

    def config(self, repo):
        c = Config()
        c.ob_prefix = "C23/"
        c.summaries["pynetdicom.events:trigger"] = trigger_summary

        def env_call(I, env, method, args, kw):
            if env.path == "dimse.message" and method == "decode_msg":
                return True
            if env.path == "dimse.message" and method == "message_to_primitive":
                return I.ghost["primitive"]
            if env.path == "dimse.msg_queue" and method == "put":
                I.trace.append(Ev("msg_queue.put", tuple(args)))
                return None
            if env.path == "dimse.dul.event_queue" and method == "put":
                I.trace.append(Ev("event", tuple(args)))
                return None
            return NotImplemented
        c.env_call = env_call
        c.ext_models["io.BytesIO"] = lambda I, a, k: Env("BytesIO")
        return c

    def body(self, I):
        P = f"C23/{RECVP}"
        g = I.ghost
        me = Env("dimse", cls=I.repo.cls("pynetdicom.dimse:DIMSEServiceProvider"))
        m = Env("dimse.message")
        m.attrs["context_id"] = I.input("int", "context_id")
        me.attrs["message"] = m
        me.attrs["assoc"] = Env("dimse.assoc")
        me.attrs["dul"] = Env("dimse.dul")
        cm = AbsMap(I, "cancel_req")
        me.attrs["cancel_req"] = cm
        n0 = cm.n
        prim = Env("c_cancel", cls=I.repo.cls(f"{DP}:C_CANCEL"))
        mid = I.input("int", "MessageIDBeingRespondedTo")
        prim.attrs["MessageIDBeingRespondedTo"] = mid
        g["primitive"] = prim
        kind, val = I.run_function(I.repo.func(RECVP), [me, Env("pdata")])
        I.ob(f"{P}/no-exception", kind == "return", detail=f"{kind}:{val!r}")
        recorded = [s for s in cm.stores if I.valid(I.eq(s[0], mid)) and s[1] is prim]
        I.ob(f"{P}/a-cancel-is-recorded-under-the-message-id-it-names:up-to-10-pending",
             z3.Implies(n0 < 10, z3.BoolVal(len(recorded) == 1 and len(cm.stores) == 1)), detail=f"stores={len(cm.stores)}")
        I.ob(f"{P}/a-cancel-is-recorded-under-the-message-id-it-names:more-than-10-pending",
             z3.Implies(n0 >= 10, z3.BoolVal(len(recorded) == 1)), detail=f"stores={len(cm.stores)} queued={[e.name for e in I.trace]}")
        I.ob(f"{P}/a-recorded-cancel-is-not-also-queued-as-a-request", not (recorded and any(e.name == "msg_queue.put" for e in I.trace)))


class DimseInitTask(Task):
    """every DIMSE provider (one per association) gets ITS OWN pending-cancel map, message under reassembly and message queue:
    the constructor binds fresh ones on the instance - state shared between associations (a class attribute, a module-level
    object, a default argument) would let a C-CANCEL received on one association reach an operation of another"""
    name = "DIMSEServiceProvider.__init__/per-association-state"
    INIT = "pynetdicom.dimse:DIMSEServiceProvider.__init__"
    functions = [INIT]

    def config(self, repo):
        c = Config()
        c.ob_prefix = "C23/"
        c.ext_models["queue.Queue"] = lambda I, a, k: I.ghost.setdefault("queues", []).append(Env("new-queue")) or I.ghost["queues"][-1]
        return c

    def body(self, I):
        P = f"C23/{self.INIT}"
        ci = I.repo.cls("pynetdicom.dimse:DIMSEServiceProvider")
        me = Obj(ci, tag="dimse")
        kind, val = I.run_function(I.repo.func(self.INIT), [me, Env("assoc")])
        I.ob(f"{P}/no-exception", kind == "return", detail=f"{kind}:{val!r}")
        cm = me.fields.get("cancel_req", "<not bound on the instance>")
        I.ob(f"{P}/the-pending-cancel-map-is-a-new-empty-dict-bound-on-the-instance", isinstance(cm, dict) and len(cm) == 0,
             detail=repr(cm))
        # a mutable class-level default would be shared by every instance that does not rebind it
        shared = []
        for nm in ("cancel_req", "message", "msg_queue"):
            m = ci.find(I.repo, nm)
            if m is not None and m[0] == "attr" and nm not in me.fields:
                shared.append(nm)
        I.ob(f"{P}/no-per-association-state-is-left-to-a-class-level-default", not shared, detail=repr(shared))
        I.ob(f"{P}/no-message-is-under-reassembly-at-the-start", "message" in me.fields and me.fields["message"] is None)
        I.ob(f"{P}/the-message-queue-is-a-new-queue-of-this-instance", isinstance(me.fields.get("msg_queue"), Env) and
             me.fields["msg_queue"].path == "new-queue")

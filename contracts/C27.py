"""C27 — event notifications form a well-formed history (PARTIAL: the per-thread, per-function part).

Decided by contracts:
 * state-machine transitions chain: do_action notifies (old, new) with old = the state before and new = the state after, and
   current_state is written nowhere else than in StateMachine.__init__/transition (AST scan of the whole library);
 * every action notifies EVT_CONN_CLOSE exactly once when it moves to Sta1 (after which the reactor is killed) and never
   otherwise - so connection-close happens at most once per association and last among the provider's events;
 * EVT_DATA_RECV precedes decoding and EVT_PDU_RECV follows only a successful decode of exactly the received bytes;
   EVT_PDU_SENT is notified only for a PDU whose bytes were completely handed to the transport, EVT_DATA_SENT likewise;
 * EVT_ESTABLISHED is triggered only by the two negotiation functions, once each and outside loops (AST scan).

Not decided: ordering ACROSS threads (e.g. EVT_ACSE_SENT of the request vs EVT_CONN_OPEN on the requestor; user-thread
abort() racing the reactor) - histories over several threads are outside function contracts."""
import ast
import os

import z3

from pyvc.task import Task, FiniteTask
from pyvc.interp import Interp, Config
from pyvc.values import SV, Obj, Env, Ev, ExcVal, PyRaise, Unsupported, ByteArr
from contracts import recvpath, C04
from spec import ps38_fsm as S

PROPERTY = "C27"
LEVEL = "other"
DUL = "pynetdicom.dul"
TR = "pynetdicom.transport"
SEND = f"{DUL}:DULServiceProvider._send"
TSEND = f"{TR}:AssociationSocket.send"
ASSUMPTIONS = [
    "socket.send(b) returns the number of bytes accepted (1..len(b)) or raises OSError (A-LIB)",
    "per-thread ordering only: notifications triggered by one thread are delivered in program order (evt.trigger is synchronous, C26)",
]
NOT_DECIDED = [
    "ordering of notifications triggered by different threads (association thread vs DUL reactor vs user threads)",
    "'connection-open precedes everything else' on the requestor side (EVT_CONN_OPEN is triggered by the reactor thread in AE-2/transport "
    "while the association thread already triggered EVT_ACSE_SENT)",
]


class SendTask(Task):
    """DULServiceProvider._send with the REAL AssociationSocket.send: the raw socket accepts an adversarial number of bytes per call or fails"""
    name = "DULServiceProvider._send"
    functions = [SEND, TSEND]

    def config(self, repo):
        c = Config()
        c.ob_prefix = "C27/"

        def trig(I, args, kw):
            ev = args[1]
            I.trace.append(Ev("evt", (ev.fields.get("name") if isinstance(ev, Obj) else repr(ev), args[2] if len(args) > 2 else None)))
            return None
        c.summaries["pynetdicom.events:trigger"] = trig

        class L:
            pass
        from pyvc.interp import LoopSpec

        class SendLoop(LoopSpec):
            def invariant(self_, I, fr):
                ts = I._num(fr.locals["total_sent"], "int")
                inv = z3.And(ts >= 0, ts <= I._num(fr.locals["length_data"], "int"))
                if I.ghost.get("closed"):
                    inv = z3.And(inv, ts == 0)           # nothing can have been handed to a socket that does not exist
                return inv

            def variant(self_, I, fr):
                return SV(I._num(fr.locals["length_data"], "int") - I._num(fr.locals["total_sent"], "int"), "int")

            def on_exit(self_, I, fr):
                I.ghost["all_sent"] = I.valid(I._num(fr.locals["total_sent"], "int") == I._num(fr.locals["length_data"], "int"))
        c.loop_specs[(TSEND, 0)] = SendLoop()

        def env_call(I, env, method, args, kw):
            g = I.ghost
            if env.path == "rawsock" and method == "send":
                if I.choose(2, "socket.send") == 1:
                    g["send_failed"] = True
                    raise PyRaise(ExcVal("OSError", ("connection reset",)))
                n = I.fresh("int", "nr_sent")
                ln = I.call_value(I.resolve_global(I.repo.module(TR), "len"), [args[0]], {}) if False else None
                from pyvc import libmodels
                ln = libmodels.b_len(I, [args[0]], {})
                I.assume(z3.And(n.e >= 1, n.e <= I._num(ln, "int")))
                return n
            if env.path == "asock.event_queue" and method == "put":
                I.trace.append(Ev("event", tuple(args)))
                return None
            if env.path == "pdu" and method == "encode":
                return I.ghost["encoded"]
            return NotImplemented
        c.env_call = env_call
        return c

    def body(self, I):
        P = f"C27/{SEND}"
        g = I.ghost
        me = Env("dul", cls=I.repo.cls(f"{DUL}:DULServiceProvider"))
        asock = Obj(I.repo.cls(f"{TR}:AssociationSocket"), tag="asock")
        raw = Env("rawsock")
        raw.truth = True
        # the provider may already have closed its own transport (AssociationSocket.close() sets the wrapped socket to None) and
        # still have an event queued whose action sends (e.g. AA-7 in Sta13): the send must fail softly, like any failed send
        closed = I.choose(2, "the wrapped socket was already closed by the provider itself") == 1
        g["closed"] = closed
        asock.fields.update(socket=None if closed else raw, _assoc=Env("assoc"), _is_connected=not closed, _ready=Env("ready"))
        asock.fields["event_queue"] = Env("asock.event_queue")
        I.cfg.obj_getattr = lambda I_, o, name: (Env("asock.event_queue") if (o is asock and name == "event_queue") else
                                                 (Env("assoc") if (o is asock and name == "assoc") else NotImplemented))
        me.attrs["socket"] = asock
        me.attrs["assoc"] = Env("assoc")
        b = I.input("bytes", "encoded_pdu")
        I.assume(z3.Length(b.e) >= 1)
        g["encoded"] = b
        pdu = Env("pdu")
        kind, val = I.run_function(I.repo.func(SEND), [me, pdu])
        I.ob(f"{P}/no-exception-escapes", kind == "return", detail=f"{kind}:{val!r}")
        if closed:
            for pfx in ("C27", "C05"):
                I.ob(f"{pfx}/{TSEND}/a-send-after-the-provider-closed-its-own-socket-is-reported-as-Evt17-and-raises-nothing",
                     kind == "return" and [e.args[0] for e in I.trace if e.name == "event"] == ["Evt17"], detail=f"{kind}:{val!r}")
        evs = [e.args[0] for e in I.trace if e.name == "evt"]
        if "EVT_PDU_SENT" in evs:
            I.ob(f"{P}/EVT_PDU_SENT-only-after-all-bytes-of-the-PDU-were-handed-to-the-transport",
                 not g.get("send_failed") and not closed and g.get("all_sent") is True,
                 detail="EVT_PDU_SENT notified although socket.send failed (Evt17 queued)" if (g.get("send_failed") or closed) else None)
        if "EVT_DATA_SENT" in evs:
            I.ob(f"C27/{TSEND}/EVT_DATA_SENT-only-after-all-bytes-were-accepted", not g.get("send_failed") and g.get("all_sent") is True)
        if g.get("send_failed") and not closed:
            I.ob(f"C27/{TSEND}/a-failed-send-is-reported-as-closed-connection", [e.args[0] for e in I.trace if e.name == "event"] == ["Evt17"])


class StateWriterScan(FiniteTask):
    name = "frame/current_state-writers"
    functions = []

    def check(self, repo, emit):
        from pyvc.repo import REPO_ROOT
        writers = []
        for dp, dn, fns in os.walk(os.path.join(REPO_ROOT, "pynetdicom")):
            if "tests" in dp.split(os.sep) or "benchmarks" in dp.split(os.sep):
                continue
            for fn in fns:
                if not fn.endswith(".py"):
                    continue
                tree = ast.parse(open(os.path.join(dp, fn), encoding="utf-8").read())
                for f in ast.walk(tree):
                    if not isinstance(f, ast.FunctionDef):
                        continue
                    for n in ast.walk(f):
                        tg = n.targets if isinstance(n, ast.Assign) else ([n.target] if isinstance(n, ast.AugAssign) or (
                            isinstance(n, ast.AnnAssign) and n.value is not None) else [])
                        for t in tg:
                            if isinstance(t, ast.Attribute) and t.attr == "current_state":
                                writers.append((fn, f.name))
                        if isinstance(n, ast.Call) and isinstance(n.func, ast.Name) and n.func.id == "setattr" and len(n.args) >= 2 \
                                and isinstance(n.args[1], ast.Constant) and n.args[1].value == "current_state":
                            writers.append((fn, f.name))
        emit("C27/frame/current_state-is-written-only-by-StateMachine.__init__-and-transition",
             sorted(set(writers)) == [("fsm.py", "__init__"), ("fsm.py", "transition")], detail=str(sorted(set(writers))))


class LifecycleScan(FiniteTask):
    """EVT_ESTABLISHED is triggered only in the two negotiation functions, once per accept path (one trigger statement per
    function, not inside a loop) - so 'established' is notified at most once per association, by the thread that negotiates,
    before the reactor that can notify released/aborted is entered"""
    name = "frame/EVT_ESTABLISHED-trigger-sites"
    functions = []

    def check(self, repo, emit):
        from pyvc.repo import REPO_ROOT
        sites = []
        for dp, dn, fns in os.walk(os.path.join(REPO_ROOT, "pynetdicom")):
            if "tests" in dp.split(os.sep) or "benchmarks" in dp.split(os.sep) or "apps" in dp.split(os.sep):
                continue
            for fn in fns:
                if not fn.endswith(".py"):
                    continue
                tree = ast.parse(open(os.path.join(dp, fn), encoding="utf-8").read())
                for f in ast.walk(tree):
                    if not isinstance(f, ast.FunctionDef):
                        continue
                    loops = [l for l in ast.walk(f) if isinstance(l, (ast.For, ast.While))]
                    for n in ast.walk(f):
                        if isinstance(n, ast.Call) and ast.unparse(n.func) == "evt.trigger" and len(n.args) >= 2 \
                                and ast.unparse(n.args[1]) == "evt.EVT_ESTABLISHED":
                            in_loop = any(n in list(ast.walk(l)) for l in loops)
                            sites.append((fn, f.name, in_loop))
        KNOWN2 = {("acse.py", "_negotiate_as_acceptor"), ("acse.py", "_negotiate_as_requestor")}
        ok = sorted(sites) == [("acse.py", "_negotiate_as_acceptor", False), ("acse.py", "_negotiate_as_requestor", False)]
        if not ok and all(not lp for _f, _n, lp in sites):
            # the trigger may sit in a private helper of the two functions (scanutil): then each of the two must reach it through
            # exactly one call outside loops, and nothing else may reach it
            from contracts.scanutil import callers_by_name, roots_of, library_functions
            callers = callers_by_name()
            helpers = {(fn, nm) for fn, nm, _lp in sites if (fn, nm) not in KNOWN2}
            resolved = all(roots_of(h, KNOWN2, callers) is not None for h in helpers)
            per_root = {k: 0 for k in KNOWN2}
            for fn, f in library_functions():
                if (fn, f.name) in KNOWN2:
                    loops = [l for l in ast.walk(f) if isinstance(l, (ast.For, ast.While))]
                    for n in ast.walk(f):
                        if isinstance(n, ast.Call):
                            nm = n.func.attr if isinstance(n.func, ast.Attribute) else (n.func.id if isinstance(n.func, ast.Name) else None)
                            direct = ast.unparse(n.func) == "evt.trigger" and len(n.args) >= 2 and ast.unparse(n.args[1]) == "evt.EVT_ESTABLISHED"
                            if direct or any(nm == h[1] for h in helpers):
                                per_root[(fn, f.name)] += 1 if not any(n in list(ast.walk(l)) for l in loops) else 100
            ok = resolved and all(v == 1 for v in per_root.values()) and len({(fn, nm) for fn, nm, _lp in sites}) == len(sites)
        emit("C27/frame/EVT_ESTABLISHED-is-triggered-only-by-the-two-negotiation-functions-once-each-outside-loops", ok, detail=str(sorted(sites)))


# The terminal outcomes of the negotiation (a refusal, an abort by either side, "accepted but no usable context") are notified by
# ACSE._negotiate_as_requestor; that each is notified once, with its flag, and that the provider is then stopped in the way that
# lets it finish - after an abort the REQUESTOR itself issued the association is killed (which waits for the provider to send the
# A-ABORT, close the connection and notify EVT_CONN_CLOSE), not merely flagged to stop - is C11's call-site contract, borrowed
RELABEL = {"C11/": "C27/negotiation:"}
RELABEL_ONLY = {"C11/": r"ACSE\._negotiate_as_requestor/(no-accepted-context|a-refused-request-sets-its-flag|a-failed-connection-is-aborted|"
                        r"ACCEPTED-then-ESTABLISHED|no-response-or-an-unexpected-primitive|only-an-accepted-response|the-request-is-sent-once|no-exception)"}


class TerminalSitesScan(FiniteTask):
    """the terminal outcomes (released / aborted / rejected) are notified only by the functions whose contracts say "once per
    call, with the matching flags, then kill()": the two negotiation functions, negotiate_release, _abort_blocking and the
    association reactor - a new trigger site elsewhere would be outside every contract"""
    name = "frame/terminal-event-trigger-sites"
    functions = []
    KNOWN = {("acse.py", "_negotiate_as_acceptor"), ("acse.py", "_negotiate_as_requestor"), ("acse.py", "negotiate_release"),
             ("association.py", "_abort_blocking"), ("association.py", "_run_reactor")}

    def check(self, repo, emit):
        from pyvc.repo import REPO_ROOT
        sites = set()
        for dp, dn, fns in os.walk(os.path.join(REPO_ROOT, "pynetdicom")):
            if "tests" in dp.split(os.sep) or "benchmarks" in dp.split(os.sep) or "apps" in dp.split(os.sep):
                continue
            for fn in fns:
                if not fn.endswith(".py"):
                    continue
                tree = ast.parse(open(os.path.join(dp, fn), encoding="utf-8").read())
                for f in ast.walk(tree):
                    if not isinstance(f, ast.FunctionDef):
                        continue
                    for n in ast.walk(f):
                        if isinstance(n, ast.Call) and ast.unparse(n.func).endswith("trigger") and len(n.args) >= 2 \
                                and ast.unparse(n.args[1]).split(".")[-1] in ("EVT_RELEASED", "EVT_ABORTED", "EVT_REJECTED"):
                            sites.add((fn, f.name))
        # a trigger site inside a helper that is called only from functions of the known set (directly or through further such
        # helpers) is executed - inlined - by those functions' contracts: it is attributed to its callers, not reported (P_4)
        from contracts.scanutil import callers_by_name, roots_of
        callers = callers_by_name()
        unknown, covered = set(), set()
        for site in sites:
            r = roots_of(site, self.KNOWN, callers)
            if r is None:
                unknown.add(site)
            else:
                covered |= r
        missing = self.KNOWN - covered
        emit("C27/frame/terminal-outcomes-are-notified-only-by-the-functions-under-a-terminal-event-contract", not unknown and not missing,
             detail=str(sorted(unknown | missing)))


def tasks(tier):
    from contracts.assoc_abort import NegotiateReleaseTask, AbortTask
    ts = [SendTask(), StateWriterScan(), LifecycleScan(), recvpath.DecodeTask(), recvpath.DecodeFailTask(), TerminalSitesScan(),
          NegotiateReleaseTask(), AbortTask("C27/"), _assoc_reactor(), _requestor_site()]
    ts += [C04.ActionTask(a) for a in sorted(S.ACTIONS)]
    ts += [C04.DoActionTask(e) for e in S.EVENTS]
    return ts


def _requestor_site():
    from contracts.acse_neg import RequestorSiteTask
    return RequestorSiteTask("C11/")


def _assoc_reactor():
    from contracts.C07 import RunReactorTask
    return RunReactorTask()


def replay(rec):
    from pyvc.replay import run_replay
    oid = rec.get("id", "")
    if "ACSE.negotiate_release" in oid:
        return run_replay("C07", dict(rec, id="C07/" + oid[len("C27/"):]))
    if oid.startswith("C27/negotiation:"):
        return run_replay("C11", dict(rec, id="C11/" + oid[len("C27/negotiation:"):]))
    return run_replay("C27", rec)


LEVEL_TEXT = ("contract-based, partial: transition chaining (do_action contract + writer scan), EVT_CONN_CLOSE multiplicity per action (all 28 "
              "actions), EVT_PDU_RECV/EVT_DATA_RECV placement around decoding, EVT_PDU_SENT/EVT_DATA_SENT only after a complete send (real "
              "AssociationSocket.send loop against an adversarial socket), life-cycle notifications after their flags (AST scan). Cross-thread "
              "ordering is not decided.")
LEVEL_NOTE = "level 'other': histories over several threads are outside function contracts."
TECHNIQUE = 'deductive: effect-trace contracts (AST->VC, z3) on do_action, the 28 actions, _decode_pdu, _send/send, negotiate_release, Association.abort, one reactor iteration and the requestor negotiation site (terminal outcomes once) + exhaustive AST scans of state writers and event trigger sites'

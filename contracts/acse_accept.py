"""Contracts on the acceptor's acceptance policy (C13, the per-call part of C14):
acse.ACSE._negotiate_as_acceptor and ACSE._check_user_identity as effect-trace contracts.

Strings are z3 Strings; str.strip is an uninterpreted function STRIP (only equalities between stripped
titles matter).  `x in [strip(s) for s in required]` is the membership Boolean of that list; the list of live
acceptor associations is a filter-comprehension whose length `count` is a symbolic integer."""
import ast

import z3

from pyvc.task import Task
from pyvc.interp import Interp, Config
from pyvc.values import SV, Obj, Env, Ev, ExcVal, PyRaise, Unsupported, SymSeq, FuncRef

AC = "pynetdicom.acse"
NEG = f"{AC}:ACSE._negotiate_as_acceptor"
CHK = f"{AC}:ACSE._check_user_identity"
STRIP = z3.Function("strip", z3.StringSort(), z3.StringSort())
REQ = z3.Function("required_calling_aet", z3.IntSort(), z3.StringSort())
MEMBER = z3.Function("calling_in_required", z3.StringSort(), z3.BoolSort())


def base_config(prefix):
    c = Config()
    c.ob_prefix = prefix

    def sv_method(I, v, name, args, kw):
        if v.k == "str" and name == "strip" and not args:
            return SV(STRIP(v.e), "str")
        return NotImplemented
    c.sv_method = sv_method

    def trigger(I, args, kw):
        ev = args[1]
        name = ev.fields.get("name") if isinstance(ev, Obj) else repr(ev)
        I.trace.append(Ev("evt", (name, args[2] if len(args) > 2 else None)))
        h = I.ghost.get("handlers", {}).get(name)
        if h is not None:
            return h(I, args[2] if len(args) > 2 else None)
        return None
    c.summaries["pynetdicom.events:trigger"] = trigger
    return c


class NegAcceptTask(Task):
    name = "ACSE._negotiate_as_acceptor/policy"
    functions = [NEG]

    def __init__(self, prefix="C13/"):
        self.prefix = prefix

    def config(self, repo):
        c = base_config(self.prefix)
        g_ = {}

        def chk_identity(I, args, kw):
            g = I.ghost
            I.trace.append(Ev("check_user_identity"))
            v = I.choose(2, "identity verdict") == 0
            g["identity_ok"] = v
            rsp = Env("id_response") if (v and I.choose(2, "id response") == 0) else None
            return (v, rsp)
        c.summaries[CHK] = chk_identity
        c.summaries[f"{AC}:ACSE._check_sop_class_extended"] = lambda I, a, k: []
        c.summaries[f"{AC}:ACSE._check_sop_class_common_extended"] = lambda I, a, k: {}
        c.summaries[f"{AC}:ACSE._check_async_ops"] = lambda I, a, k: None

        def neg(I, args, kw):
            I.trace.append(Ev("negotiate", (args[0], args[1], args[2])))
            cls = I.repo.cls("pynetdicom.presentation:PresentationContext")
            out = []
            for i in range(2):
                o = Obj(cls)
                r = I.input("int", f"result{i}")
                I.assume(z3.And(r.e >= 0, r.e <= 4))
                o.fields.update(_context_id=2 * i + 1, result=r)
                out.append(o)
            I.ghost["neg_results"] = out
            return (out, [])
        c.summaries["pynetdicom.presentation:negotiate_as_acceptor"] = neg
        c.summaries["pynetdicom.presentation:negotiate_unrestricted"] = neg

        def send_reject(I, args, kw):
            I.trace.append(Ev("send_reject", tuple(args[1:])))
        c.summaries[f"{AC}:ACSE.send_reject"] = send_reject
        c.summaries[f"{AC}:ACSE.send_accept"] = lambda I, a, k: I.trace.append(Ev("send_accept"))
        c.module_consts[("pynetdicom._config", "UNRESTRICTED_STORAGE_SERVICE")] = lambda I: I.fresh("bool", "unrestricted")

        def env_call(I, env, method, args, kw):
            if env.path == "acse.assoc" and method == "kill":
                I.trace.append(Ev("kill"))
                return None
            if env.path == "acse.acceptor" and method == "add_negotiation_item":
                I.trace.append(Ev("add_item", (args[0],)))
                return None
            if env.path == "acse.requestor.role_selection" and method == "items":
                return []
            return NotImplemented
        c.env_call = env_call
        return c

    def body(self, I):
        P = f"{self.prefix}{NEG}"
        g = I.ghost
        me = Env("acse", cls=I.repo.cls(f"{AC}:ACSE"))
        assoc = Env("acse.assoc")
        me.attrs["_assoc"] = assoc
        me.attrs["assoc"] = assoc
        ae = Env("acse.assoc.ae")
        assoc.attrs["ae"] = ae
        # ---- request
        calling, called = I.input("str", "calling_ae_title"), I.input("str", "called_ae_title")
        rq = Env("assoc_rq")
        rq.attrs.update(calling_ae_title=calling, called_ae_title=called,
                        presentation_context_definition_list=Env("proposed_contexts"))
        requestor = Env("acse.requestor")
        requestor.attrs["primitive"] = rq
        has_identity = I.choose(2, "identity item") == 0
        if has_identity:
            uid_item = Env("user_identity")
            uid_item.truth = True
            requestor.attrs["user_identity"] = uid_item
        else:
            requestor.attrs["user_identity"] = None
        requestor.attrs["asynchronous_operations"] = (1, 1)
        rs = Env("acse.requestor.role_selection")
        requestor.attrs["role_selection"] = rs
        me.attrs["requestor"] = requestor
        acceptor = Env("acse.acceptor")
        own = I.input("str", "own_ae_title")
        acceptor.attrs["ae_title"] = own
        acceptor.attrs["supported_contexts"] = Env("supported_contexts")
        me.attrs["acceptor"] = acceptor
        # ---- policy
        nreq = I.input("int", "n_required_calling")
        I.assume(nreq.e >= 0)
        ae.attrs["require_calling_aet"] = SymSeq("require_calling_aet", nreq.e, lambda i: SV(REQ(i), "str"))
        req_called = I.input("bool", "require_called_aet")
        ae.attrs["require_called_aet"] = req_called
        # live associations: arbitrary list, the filter's count is symbolic
        nact = I.input("int", "n_active")
        I.assume(nact.e >= 0)
        isacc = z3.Function("is_acceptor", z3.IntSort(), z3.BoolSort())

        def act(i):
            e = Env(f"assoc[{i}]")
            e.attrs["is_acceptor"] = SV(isacc(i), "bool")
            return e
        ae.attrs["active_associations"] = SymSeq("active_associations", nact.e, act)
        mx = I.input("int", "maximum_associations")
        I.assume(mx.e >= 1)
        ae.attrs["maximum_associations"] = mx

        # membership of the calling title in [strip(s) for s in required]: via the comprehension's SymSeq
        orig_contains = SymSeq.sym_contains

        def contains(self_, I_, item):
            if self_.name.startswith("comp!"):
                # elements must be strip(required[i]) — checked on a probe index
                j = I.fresh("int", "probe")
                el = self_.elem(j.e)
                g["authorised_elem_ok"] = isinstance(el, SV) and el.k == "str" and I.valid(el.e == STRIP(REQ(j.e)))
                g["membership_item"] = item
                b = I.fresh("bool", "calling_in_required_list")
                g["calling_member"] = b.e
                return b.e
            return orig_contains(self_, I_, item)
        SymSeq.sym_contains = contains
        try:
            kind, val = I.run_function(I.repo.func(NEG), [me])
        finally:
            SymSeq.sym_contains = orig_contains
        I.ob(f"{P}/no-exception", kind == "return", detail=f"{kind}:{val!r}")
        if kind != "return":
            return
        tr = I.trace
        rejects = [e for e in tr if e.name == "send_reject"]
        accepts = [e for e in tr if e.name == "send_accept"]
        est = [e for e in tr if e.name == "setattr" and e.args[0] == "acse.assoc" and e.args[1] == "is_established"]
        established = any(e.args[2] is True for e in est)
        I.ob(f"{P}/exactly-one-of-accept-or-reject", len(rejects) + len(accepts) == 1, detail=f"{len(accepts)} accept, {len(rejects)} reject")
        # ---- the policy, from the property statement
        T = z3.BoolVal(True)
        calling_ok = z3.Or(nreq.e == 0, g["calling_member"]) if "calling_member" in g else (nreq.e == 0)
        called_ok = z3.Or(z3.Not(req_called.e), called.e == STRIP(own.e))
        ident_ok = T if not has_identity else z3.BoolVal(bool(g.get("identity_ok", True)))
        cnt = None
        for e in tr:
            pass
        # the count of live acceptor associations the code compared with the limit
        counts = [v for k, v in I.__dict__.get("_counts", {}).items()]
        limit_ok = g.get("limit_ok")
        if "calling_member" in g:
            I.ob(f"{P}/calling-title-is-compared-with-the-stripped-required-titles", bool(g.get("authorised_elem_ok")) and
                 I.valid(I.z(g["membership_item"]) == calling.e))
        if accepts:
            I.ob(f"{P}/accept-only-if-calling-title-is-in-the-required-list-or-the-list-is-empty", calling_ok)
            I.ob(f"{P}/accept-only-if-called-title-matches-own-title-when-that-check-is-enabled", called_ok)
            I.ob(f"{P}/accept-only-if-the-identity-handler-gave-a-positive-verdict", ident_ok)
            I.ob(f"{P}/accept-establishes-the-association-after-sending-A-ASSOCIATE-AC",
                 established and tr.index(accepts[0]) < tr.index([e for e in est if e.args[2] is True][0]))
            evs = [e.args[0] for e in tr if e.name == "evt"]
            I.ob(f"{P}/accept-notifies-ACCEPTED-then-ESTABLISHED", evs[-2:] == ["EVT_ACCEPTED", "EVT_ESTABLISHED"], detail=repr(evs))
            # accepted/rejected context split
            acc = [e for e in tr if e.name == "setattr" and e.args[1] == "_accepted_cx"]
            okacc = len(acc) == 1 and isinstance(acc[0].args[2], dict)
            I.ob(f"{P}/accepted-contexts-are-exactly-those-with-result-0-keyed-by-id", okacc and all(
                I.valid(o.fields["result"].e == 0) for o in acc[0].args[2].values()) and all(
                (o.fields["_context_id"] in acc[0].args[2]) or I.valid(o.fields["result"].e != 0) for o in g.get("neg_results", [])))
        if rejects:
            triple = rejects[0].args
            I.ob(f"{P}/reject-is-never-followed-by-establishment:killed-and-not-established",
                 not established and not accepts and any(e.name == "kill" for e in tr) and
                 [e.args[0] for e in tr if e.name == "evt"][-1:] == ["EVT_REJECTED"])
            doc = {(1, 1, 3): z3.Not(calling_ok), (1, 1, 7): z3.Not(called_ok), (2, 2, 1): z3.Not(ident_ok)}
            if triple in doc:
                I.ob(f"{P}/reject-triple-is-the-documented-one-for-a-failed-check", doc[triple], detail=repr(triple))
            elif triple == (2, 3, 2):
                I.ob(f"{P}/reject-triple-is-the-documented-one-for-a-failed-check", True, detail="local limit exceeded (C14)")
            else:
                I.ob(f"{P}/reject-triple-is-the-documented-one-for-a-failed-check", False, detail=repr(triple))


class LimitTask(NegAcceptTask):
    """C14, per call: established only if the number of live acceptor associations (which includes the caller) is <= the
    limit at the check; over the limit the rejection is (2, 3, 2)"""
    name = "ACSE._negotiate_as_acceptor/association-limit"

    def __init__(self, prefix="C14/"):
        self.prefix = prefix

    def body(self, I):
        P = f"{self.prefix}{NEG}"
        g = I.ghost
        NegAcceptTask.body(self, I)
        tr = I.trace
        accepts = [e for e in tr if e.name == "send_accept"]
        rejects = [e for e in tr if e.name == "send_reject"]
        # the list whose length the code compares with the limit: the filter-comprehension over active_associations
        flt = [x for x in g.get("filtered", []) if getattr(x.filter_of, "name", "") == "active_associations"]
        ok = len(flt) == 1
        I.ob(f"{P}/the-live-associations-are-filtered-once", ok, detail=f"{len(flt)} filters over active_associations")
        if not ok:
            return
        probe = Env("probe_assoc")
        pa = I.fresh("bool", "probe_is_acceptor")
        probe.attrs["is_acceptor"] = pa
        probe.attrs["is_requestor"] = SV(z3.Not(pa.e), "bool")
        I.ob(f"{P}/counts-exactly-the-live-associations-that-are-acceptors", flt[0].filter_cond(probe) == pa.e)
        cnt_e = flt[0].length
        mx = I.inputs["maximum_associations"]

        class _M:
            e = mx
        mx = _M
        if accepts:
            I.ob(f"{P}/established-only-if-live-acceptor-count-is-at-most-the-limit", cnt_e <= mx.e)
        if rejects and rejects[0].args == (2, 3, 2):
            I.ob(f"{P}/limit-rejection-only-when-over-the-limit", cnt_e > mx.e)
        if rejects:
            I.ob(f"{P}/over-the-limit-is-rejected-with-transient-presentation-local-limit-exceeded",
                 z3.Implies(cnt_e > mx.e, z3.BoolVal(rejects[0].args == (2, 3, 2))))


def exception_partition(fi):
    """How a function can tell exceptions apart is limited to the classes it names (`except X`, `isinstance(e, X)`): one
    representative per named builtin class plus one exception of a class it cannot name (a user-defined subclass of Exception)
    cover every behaviour of the function's own code on 'the handler raises'.  NotImplementedError is listed separately by the
    callers (it has a documented meaning)."""
    import builtins
    names = []
    for n in ast.walk(fi.node):
        cands = []
        if isinstance(n, ast.ExceptHandler) and n.type is not None:
            cands = n.type.elts if isinstance(n.type, ast.Tuple) else [n.type]
        elif isinstance(n, ast.Call) and isinstance(n.func, ast.Name) and n.func.id == "isinstance" and len(n.args) == 2:
            cands = n.args[1].elts if isinstance(n.args[1], ast.Tuple) else [n.args[1]]
        for c in cands:
            nm = c.id if isinstance(c, ast.Name) else (c.attr if isinstance(c, ast.Attribute) else None)
            cls = getattr(builtins, nm, None) if nm else None
            if isinstance(cls, type) and issubclass(cls, Exception) and cls is not Exception and nm != "NotImplementedError" and nm not in names:
                names.append(nm)
    return names + ["RuntimeError"] if "RuntimeError" not in names else names


class CheckIdentityTask(Task):
    name = "ACSE._check_user_identity"
    functions = [CHK]

    def __init__(self, prefix="C13/"):
        self.prefix = prefix

    def config(self, repo):
        return base_config(self.prefix)

    def body(self, I):
        P = f"{self.prefix}{CHK}"
        g = I.ghost
        me = Env("acse", cls=I.repo.cls(f"{AC}:ACSE"))
        assoc = Env("acse.assoc")
        me.attrs["_assoc"] = assoc
        me.attrs["assoc"] = assoc
        requestor = Env("acse.requestor")
        me.attrs["requestor"] = requestor
        has_req = I.choose(2, "identity item") == 0
        if has_req:
            req = Env("identity_request")
            t = I.input("int", "user_identity_type")
            I.assume(z3.And(t.e >= 1, t.e <= 5))
            req.attrs.update(user_identity_type=t, primary_field=Env("primary"), secondary_field=Env("secondary"),
                             positive_response_requested=I.input("bool", "positive_response_requested"))
            requestor.attrs["user_identity"] = req
        else:
            requestor.attrs["user_identity"] = None
        # handler behaviours: 0 absent/default, 1 raises NotImplementedError, 2 raises something else, 3.. returns
        # (verdict, server response) for verdict in {True, False} x response in {None, bytes, neither (str), neither (int)}
        RESP = ["None", "bytes", "str", "int"]
        excs = exception_partition(I.repo.func(CHK))
        behaviour = I.choose(3 + 2 * len(RESP), "handler behaviour") if has_req else 0
        exc_name = excs[I.choose(len(excs), "class of the exception the handler raises")] if behaviour == 2 and len(excs) > 1 else excs[0]
        g["behaviour"] = behaviour
        verdict_in = None if behaviour < 3 else ((behaviour - 3) // len(RESP) == 0)
        resp_kind = None if behaviour < 3 else RESP[(behaviour - 3) % len(RESP)]
        resp_val = {None: None, "None": None, "bytes": I.input("bytes", "server_response") if resp_kind == "bytes" else None,
                    "str": "denied", "int": 401}[resp_kind]

        def handler(I_, attrs):
            if behaviour == 1:
                raise PyRaise(ExcVal("NotImplementedError"))
            if behaviour == 2:
                raise PyRaise(ExcVal(exc_name, ("handler failed",)))
            if behaviour == 0:
                return (True, None)
            return (verdict_in, resp_val)
        g["handlers"] = {"EVT_USER_ID": handler}
        # the REAL UserIdentityNegotiation (constructor and server_response setter, which raises TypeError for a value that is
        # neither bytes nor None) is executed, not summarised
        kind, val = I.run_function(I.repo.func(CHK), [me])
        I.ob(f"{P}/no-exception-whatever-the-handler-does", kind == "return", detail=f"{kind}:{val!r}")
        if kind != "return":
            return
        verdict = I.as_bool(val[0]) if isinstance(val, tuple) and len(val) == 2 else None
        want = True if (not has_req or behaviour in (0, 1)) else (False if behaviour == 2 else verdict_in)
        I.ob(f"{P}/verdict:absent-or-unimplemented-or-positive=>True,exception-or-negative=>False", verdict is want,
             detail=f"behaviour {behaviour} (handler verdict {verdict_in}, server response {resp_kind}, raises {exc_name if behaviour == 2 else None}): {val!r}")
        item = val[1] if isinstance(val, tuple) and len(val) == 2 else "?"
        if want is not True:
            I.ob(f"{P}/a-negative-verdict-carries-no-response-item", item is None, detail=repr(val))
        elif has_req and behaviour >= 3:
            t_ = req.attrs["user_identity_type"].e
            wanted_item = z3.And(z3.Or(t_ == 3, t_ == 4, t_ == 5), req.attrs["positive_response_requested"].e, z3.BoolVal(resp_kind == "bytes"))
            got_item = isinstance(item, Obj) and item.cls.name == "UserIdentityNegotiation"
            I.ob(f"{P}/response-item-iff-type-3-4-5-and-positive-response-requested-and-a-storable-server-response",
                 wanted_item == z3.BoolVal(got_item), detail=f"behaviour {behaviour}: {val!r}")
            if got_item:
                sr = item.fields.get("_server_response")
                I.ob(f"{P}/the-response-item-carries-the-handler's-server-response", sr is resp_val, detail=repr(sr))
            else:
                I.ob(f"{P}/without-a-response-item-None-is-returned", item is None, detail=repr(item))
        sets = [e.args[2] for e in I.trace if e.name == "setattr" and e.args[0] == "acse.assoc" and e.args[1] == "abort"]
        I.ob(f"{P}/assoc.abort-is-restored-to-the-blocking-variant-on-every-path",
             (not has_req and len(sets) == 1) or (len(sets) >= 2 and isinstance(sets[-1], Env) and sets[-1].path.endswith("_abort_blocking")),
             detail=repr([getattr(x, 'path', x) for x in sets]))
        if has_req:
            trig = [e for e in I.trace if e.name == "evt"]
            I.ob(f"{P}/handler-invoked-exactly-once-with-the-identity-fields", len(trig) == 1 and trig[0].args[0] == "EVT_USER_ID"
                 and isinstance(trig[0].args[1], dict) and set(trig[0].args[1]) == {"user_id_type", "primary_field", "secondary_field"})


class CheckExtendedTask(Task):
    """ACSE._check_sop_class_common_extended / _check_sop_class_extended on their real bodies: the two other intervention
    handlers consulted while a request is negotiated.  Whatever the handler does - raises (one representative per exception
    class the function can tell apart), returns something that is not a dict, returns entries of the wrong kind - the function
    returns, never raises, uses only the well-formed entries (an entry the real item setters refuse is left out, the others
    stay), and assoc.abort is the blocking variant again afterwards: a failing handler cannot turn an acceptable request into a
    refusal or an error."""
    shard = False

    def __init__(self, which, prefix="C13/"):
        self.which, self.prefix = which, prefix
        self.fn = f"{AC}:ACSE._check_sop_class_common_extended" if which == "common" else f"{AC}:ACSE._check_sop_class_extended"
        self.name = self.fn.split(":")[1]
        self.functions = [self.fn]

    def config(self, repo):
        c = base_config(self.prefix)
        c.summaries["pynetdicom.utils:set_uid"] = lambda I, a, k: (a[0] if a else k.get("value"))
        return c

    def body(self, I):
        P = f"{self.prefix}{self.fn}"
        g = I.ghost
        me = Env("acse", cls=I.repo.cls(f"{AC}:ACSE"))
        assoc, requestor = Env("acse.assoc"), Env("acse.requestor")
        me.attrs.update(_assoc=assoc, assoc=assoc, requestor=requestor)
        requestor.attrs["sop_class_common_extended"] = Env("requested_common")
        requestor.attrs["sop_class_extended"] = Env("requested_extended")
        excs = exception_partition(I.repo.func(self.fn))
        KINDS = ["raises", "None", "an int", "empty dict", "dict: two good entries", "dict: a bad entry between two good ones"]
        kind_i = I.choose(len(KINDS), "handler behaviour")
        kindn = KINDS[kind_i]
        exc_name = excs[I.choose(len(excs), "class of the exception the handler raises")] if kindn == "raises" and len(excs) > 1 else excs[0]
        u1, u2, u3 = Env("uid1"), Env("uid2"), Env("uid3")
        if self.which == "common":
            cls = I.repo.cls("pynetdicom.pdu_primitives:SOPClassCommonExtendedNegotiation")
            good1, good2, bad = Obj(cls), Obj(cls), "not-an-item"
        else:
            good1, good2, bad = I.input("bytes", "app_info1"), None, "not-bytes"
        ret = {"None": None, "an int": 5, "empty dict": {}, "dict: two good entries": {u1: good1, u3: good2},
               "dict: a bad entry between two good ones": {u1: good1, u2: bad, u3: good2}}.get(kindn)

        def handler(I_, attrs):
            if kindn == "raises":
                raise PyRaise(ExcVal(exc_name, ("handler failed",)))
            return ret
        g["handlers"] = {"EVT_SOP_COMMON" if self.which == "common" else "EVT_SOP_EXTENDED": handler}
        kind, val = I.run_function(I.repo.func(self.fn), [me])
        I.ob(f"{P}/no-exception-whatever-the-handler-does", kind == "return", detail=f"{kindn} ({exc_name}): {kind}:{val!r}")
        if kind != "return":
            return
        sets = [e.args[2] for e in I.trace if e.name == "setattr" and e.args[0] == "acse.assoc" and e.args[1] == "abort"]
        I.ob(f"{P}/assoc.abort-is-restored-to-the-blocking-variant-on-every-path",
             len(sets) >= 2 and isinstance(sets[-1], Env) and sets[-1].path.endswith("_abort_blocking"), detail=repr([getattr(x, 'path', x) for x in sets]))
        trig = [e for e in I.trace if e.name == "evt"]
        I.ob(f"{P}/handler-invoked-exactly-once-with-the-requested-items", len(trig) == 1 and isinstance(trig[0].args[1], dict)
             and list(trig[0].args[1].values()) == [requestor.attrs["sop_class_common_extended" if self.which == "common" else "sop_class_extended"]],
             detail=repr(trig))
        if self.which == "common":
            want = {} if not isinstance(ret, dict) else {k: v for k, v in ret.items() if isinstance(v, Obj)}
            ok = isinstance(val, dict) and list(val.keys()) == list(want.keys()) and all(val[k] is want[k] for k in want)
            I.ob(f"{P}/result-is-exactly-the-handler's-entries-that-are-negotiation-items-and-empty-on-failure", ok, detail=f"{kindn}: {val!r}")
        else:
            want = [] if not isinstance(ret, dict) else [(k, v) for k, v in ret.items() if not isinstance(v, str)]
            got = [(o.fields.get("_sop_class_uid"), o.fields.get("_service_class_application_information")) for o in val] \
                if isinstance(val, list) and all(isinstance(o, Obj) and o.cls.name == "SOPClassExtendedNegotiation" for o in val) else None
            ok = got is not None and len(got) == len(want) and all(a is c and b is d for (a, b), (c, d) in zip(got, want))
            I.ob(f"{P}/one-response-item-per-entry-the-item-setters-accept-in-the-handler's-order-and-none-on-failure", ok, detail=f"{kindn}: {val!r}")


class UserIdentityGetterTask(Task):
    """ServiceUser.user_identity for the peer's side (read from the received A-ASSOCIATE primitive): the User Identity item of the
    user-information list if the list has one - WHATEVER its fields hold (an empty user name is still an identity the handler has
    to judge) - and None only if the list has none.  _negotiate_as_acceptor decides on this value whether the identity handler is
    consulted at all."""
    name = "ServiceUser.user_identity"
    FN = "pynetdicom.association:ServiceUser.user_identity.fget"
    functions = [FN]
    shard = False

    def __init__(self, prefix="C13/"):
        self.prefix = prefix

    def config(self, repo):
        c = Config()
        c.ob_prefix = self.prefix
        return c

    def body(self, I):
        P = f"{self.prefix}pynetdicom.association:ServiceUser.user_identity"
        PP = "pynetdicom.pdu_primitives"
        ci = I.repo.cls("pynetdicom.association:ServiceUser")
        me = Env("peer", cls=ci)
        me.attrs["writeable"] = False
        others = [Obj(I.repo.cls(f"{PP}:MaximumLengthNotification")), Obj(I.repo.cls(f"{PP}:ImplementationClassUIDNotification")),
                  Obj(I.repo.cls(f"{PP}:SCP_SCU_RoleSelectionNegotiation"))]
        ident = Obj(I.repo.cls(f"{PP}:UserIdentityNegotiation"))
        form = I.choose(2, "request or response form")
        ident.fields.update(_user_identity_type=I.input("int", "user_identity_type"), _positive_response_requested=I.input("bool", "positive_response_requested"),
                            _primary_field=I.input("bytes", "primary_field") if form == 0 else None,
                            _secondary_field=I.input("bytes", "secondary_field") if form == 0 else None,
                            _server_response=I.input("bytes", "server_response") if form == 1 else None)
        pos = I.choose(5, "where the identity item stands")      # 0..3: at that position; 4: the list has none
        items = list(others)
        if pos < 4:
            items.insert(pos, ident)
        me.attrs["user_information"] = items
        prim = Env("peer.primitive")
        prim.attrs["user_information"] = items
        me.attrs["primitive"] = prim
        ci_f = ci.props["user_identity"].fget
        kind, val = I.run_function(ci_f, [me])
        I.ob(f"{P}/no-exception", kind == "return", detail=f"{kind}:{val!r}")
        if kind != "return":
            return
        if pos < 4:
            I.ob(f"{P}/the-identity-item-of-the-received-request-is-returned-whatever-its-fields-hold", val is ident, detail=repr(val))
        else:
            I.ob(f"{P}/None-only-when-the-received-request-carries-no-identity-item", val is None, detail=repr(val))


class CheckAsyncOpsTask(Task):
    """ACSE._check_async_ops on its real body: the handler's answer is ignored (asynchronous operations are not supported): the
    result is None when the handler says NotImplementedError and otherwise the fixed window (1, 1) - whatever else the handler
    returns or raises; nothing escapes and assoc.abort is the blocking variant again afterwards."""
    name = "ACSE._check_async_ops"
    FN = f"{AC}:ACSE._check_async_ops"
    functions = [FN]
    shard = False

    def __init__(self, prefix="C13/"):
        self.prefix = prefix

    def config(self, repo):
        return base_config(self.prefix)

    def body(self, I):
        P = f"{self.prefix}{self.FN}"
        g = I.ghost
        me = Env("acse", cls=I.repo.cls(f"{AC}:ACSE"))
        assoc, requestor = Env("acse.assoc"), Env("acse.requestor")
        me.attrs.update(_assoc=assoc, assoc=assoc, requestor=requestor)
        requestor.attrs["asynchronous_operations"] = (I.input("int", "nr_invoked"), I.input("int", "nr_performed"))
        excs = exception_partition(I.repo.func(self.FN))
        KINDS = ["not implemented", "raises", "returns a window", "returns nonsense"]
        kindn = KINDS[I.choose(len(KINDS), "handler behaviour")]
        exc_name = excs[I.choose(len(excs), "class of the exception the handler raises")] if kindn == "raises" and len(excs) > 1 else excs[0]

        def handler(I_, attrs):
            if kindn == "not implemented":
                raise PyRaise(ExcVal("NotImplementedError"))
            if kindn == "raises":
                raise PyRaise(ExcVal(exc_name, ("handler failed",)))
            return (5, 5) if kindn == "returns a window" else "nonsense"
        g["handlers"] = {"EVT_ASYNC_OPS": handler}
        kind, val = I.run_function(I.repo.func(self.FN), [me])
        I.ob(f"{P}/no-exception-whatever-the-handler-does", kind == "return", detail=f"{kindn} ({exc_name}): {kind}:{val!r}")
        if kind != "return":
            return
        if kindn == "not implemented":
            I.ob(f"{P}/no-response-item-when-the-handler-is-not-implemented", val is None, detail=repr(val))
        else:
            ok = isinstance(val, Obj) and val.cls.name == "AsynchronousOperationsWindowNegotiation" and \
                val.fields.get("_maximum_number_operations_invoked") == 1 and val.fields.get("_maximum_number_operations_performed") == 1
            I.ob(f"{P}/the-answer-is-the-fixed-window-1-1-whatever-the-handler-said", ok, detail=f"{kindn}: {val!r} {getattr(val, 'fields', None)}")
        sets = [e.args[2] for e in I.trace if e.name == "setattr" and e.args[0] == "acse.assoc" and e.args[1] == "abort"]
        I.ob(f"{P}/assoc.abort-is-restored-to-the-blocking-variant-on-every-path",
             len(sets) >= 2 and isinstance(sets[-1], Env) and sets[-1].path.endswith("_abort_blocking"), detail=repr([getattr(x, 'path', x) for x in sets]))


class DefaultHandlersTask(Task):
    """"No handler bound" means the library's default handler is called: for the four negotiation events the defaults must
    not refuse anything - the identity and asynchronous-operations defaults raise NotImplementedError (which the call sites
    read as 'not implemented: go on'), the two SOP-class-extended defaults return an empty dict; get_default_handler maps each
    of these events to exactly that default."""
    name = "events.get_default_handler/negotiation-defaults"
    EV = "pynetdicom.events"
    functions = [f"{EV}:get_default_handler", f"{EV}:_user_identity_handler", f"{EV}:_async_ops_handler", f"{EV}:_sop_common_handler",
                 f"{EV}:_sop_extended_handler"]
    shard = False
    WANT = {"EVT_USER_ID": ("_user_identity_handler", "NotImplementedError"), "EVT_ASYNC_OPS": ("_async_ops_handler", "NotImplementedError"),
            "EVT_SOP_COMMON": ("_sop_common_handler", {}), "EVT_SOP_EXTENDED": ("_sop_extended_handler", {})}

    def __init__(self, prefix="C13/"):
        self.prefix = prefix

    def config(self, repo):
        c = Config()
        c.ob_prefix = self.prefix
        return c

    def body(self, I):
        P = f"{self.prefix}{self.EV}:get_default_handler"
        names = sorted(self.WANT)
        evn = names[I.choose(len(names), "event")]
        ns = I.module_ns(I.repo.module(self.EV))
        ev = ns[evn]
        kind, h = I.run_function(I.repo.func(f"{self.EV}:get_default_handler"), [ev])
        I.ob(f"{P}/no-exception", kind == "return", detail=f"{evn}: {kind}:{h!r}")
        if kind != "return":
            return
        fname, outcome = self.WANT[evn]
        fi = getattr(h, "fi", None)
        # (which function it is called is the library's business; what it DOES is checked below)
        I.ob(f"{P}/the-default-of-each-negotiation-event-is-its-own-default-handler", fi is not None and not fi.name.startswith("__"),
             detail=f"{evn}: {getattr(fi, 'qualname', h)!r}")
        if fi is None:
            return
        k2, v2 = I.run_function(fi, [Env("event")])
        if outcome == "NotImplementedError":
            I.ob(f"{P}/the-default-identity-and-async-ops-handlers-say-not-implemented", k2 == "raise" and v2.cls_name == "NotImplementedError",
                 detail=f"{evn}: {k2}:{v2!r}")
        else:
            I.ob(f"{P}/the-default-SOP-class-extended-handlers-answer-nothing", k2 == "return" and v2 == {}, detail=f"{evn}: {k2}:{v2!r}")


class ActiveAssociationsTask(Task):
    """AE.active_associations (what the limit check counts) is exactly the live Association threads of this AE: every thread
    that threading.enumerate() reports, is an Association and belongs to this AE - no further condition (an association that
    is being released, aborted or still negotiating is a live thread and is counted)."""
    name = "AE.active_associations"
    ACT = "pynetdicom.ae:ApplicationEntity.active_associations.fget"
    functions = [ACT]

    def __init__(self, prefix="C14/"):
        self.prefix = prefix

    def config(self, repo):
        c = Config()
        c.ob_prefix = self.prefix

        def enum(I, args, kw):
            g = I.ghost
            n = I.fresh("int", "n_threads").e
            I.assume(n >= 0)
            isa = z3.Function("thread_is_association", z3.IntSort(), z3.BoolSort())
            mine = z3.Function("thread_ae_is_this_ae", z3.IntSort(), z3.BoolSort())
            memo = {}

            def elem(i):
                k = str(z3.simplify(i))
                if k not in memo:
                    memo[k] = self._thread(I, SV(isa(i), "bool"), SV(mine(i), "bool"), f"thread[{k}]")
                return memo[k]
            g["threads"] = SymSeq("threads", n, elem)
            I.trace.append(Ev("threading.enumerate"))
            return g["threads"]
        c.ext_models["threading.enumerate"] = enum
        return c

    def _thread(self, I, is_assoc, is_mine, name):
        t = Env(name)
        t.data[("isinstance", "pynetdicom.association:Association")] = is_assoc.e
        ae = Env(f"{name}.ae")
        ae.eq_to_self_ae = is_mine
        t.attrs["ae"] = ae
        # attributes a (wrong) extra filter could look at: arbitrary
        for nm in ("is_established", "is_released", "is_aborted", "is_rejected", "_sent_release", "_sent_abort", "is_acceptor",
                   "is_requestor", "_is_paused"):
            t.attrs[nm] = I.fresh("bool", f"{name}.{nm}")
        return t

    def body(self, I):
        P = f"{self.prefix}{self.ACT}"
        g = I.ghost
        me = Env("ae", cls=I.repo.cls("pynetdicom.ae:ApplicationEntity"))
        g["me"] = me
        orig_eq = I.eq

        def eq(a, b):
            for x, y in ((a, b), (b, a)):
                if isinstance(x, Env) and hasattr(x, "eq_to_self_ae") and y is me:
                    return x.eq_to_self_ae.e
            return orig_eq(a, b)
        I.eq = eq
        try:
            kind, val = I.run_function(I.repo.func(self.ACT), [me])
        finally:
            I.eq = orig_eq
        I.ob(f"{P}/no-exception", kind == "return", detail=f"{kind}:{val!r}")
        if kind != "return":
            return
        threads = g.get("threads")
        I.ob(f"{P}/reads-the-live-threads-once", [e.name for e in I.trace].count("threading.enumerate") == 1)
        # the result is a chain of filters over the thread list; its combined condition on a generic thread
        conds, cur = [], val
        probe_a, probe_m = I.fresh("bool", "probe_is_association"), I.fresh("bool", "probe_ae_is_this_ae")
        probe = self._thread(I, probe_a, probe_m, "probe_thread")
        I.eq = eq
        try:
            while isinstance(cur, SymSeq) and cur is not threads and getattr(cur, "filter_of", None) is not None:
                conds.append(cur.filter_cond(probe))
                cur = cur.filter_of
        finally:
            I.eq = orig_eq
        ok = cur is threads and bool(conds)
        I.ob(f"{P}/the-result-is-a-selection-of-the-live-threads", ok, detail=repr(getattr(cur, "name", cur)))
        if ok:
            I.ob(f"{P}/selects-exactly-the-Association-threads-of-this-AE-whatever-their-state",
                 z3.And(conds) == z3.And(probe_a.e, probe_m.e))


class WireTitleTask(Task):
    """The titles the acceptance policy compares come from the wire through the A-ASSOCIATE-RQ title setters: the 16 bytes of
    the field are decoded AS THEY ARE, only leading/trailing SPACES are removed from the decoded text (PS3.8 Table 9-11:
    spaces are not significant - nothing else is, not even other white space), the result is validated by set_ae in title mode (C12) and stored; a field of
    spaces only is refused.  So a field that differs from an authorised title by anything but surrounding spaces (NUL padding,
    control characters, ...) is either refused or compares unequal."""
    PDUQ = "pynetdicom.pdu:A_ASSOCIATE_RQ"

    def __init__(self, which, prefix="C13/"):
        self.which, self.prefix = which, prefix
        self.fn = f"{self.PDUQ}.{which}_ae_title.fset"
        self.name = f"A_ASSOCIATE_RQ.{which}_ae_title/from-wire-bytes"
        self.functions = [self.fn]

    def config(self, repo):
        c = Config()
        c.ob_prefix = self.prefix

        def decode_bytes(I, a, k):
            I.trace.append(Ev("decode_bytes", (a[0],)))
            d = Env("decoded_text", cls="str")
            return d
        c.summaries["pynetdicom.utils:decode_bytes"] = decode_bytes

        def set_ae(I, a, k):
            I.trace.append(Ev("set_ae", tuple(a), dict(k)))
            if I.choose(2, "set_ae accepts the title") == 1:
                raise PyRaise(ExcVal("ValueError", ("invalid AE title",)))
            return Env("validated_title", cls="str")
        c.summaries["pynetdicom.utils:set_ae"] = set_ae

        def env_call(I, env, method, args, kw):
            # any method of the field's bytes or of the decoded text gives a DERIVED value (recorded)
            if env.path.startswith(("wire_field", "decoded_text")):
                r = Env(f"{env.path}.{method}({', '.join(map(repr, args))})", cls=env.cls)
                r.derived_from = (env, method, tuple(args), dict(kw))
                if method == "strip" and env.path == "decoded_text":
                    r.truth = I.fresh("bool", "text is not only spaces").e
                return r
            return NotImplemented
        c.env_call = env_call
        return c

    def body(self, I):
        P = f"{self.prefix}{self.fn}"
        me = Env("pdu", cls=I.repo.cls(self.PDUQ))
        field = Env("wire_field", cls="bytes")
        kind, val = I.run_function(I.repo.func(self.fn), [me, field])
        tr = I.trace
        dec = [e for e in tr if e.name == "decode_bytes"]
        sae = [e for e in tr if e.name == "set_ae"]
        I.ob(f"{P}/the-field-is-decoded-exactly-as-received", len(dec) == 1 and dec[0].args[0] is field,
             detail=repr([getattr(e.args[0], "path", e.args[0]) for e in dec]))
        if kind == "raise":
            I.ob(f"{P}/refused-only-with-ValueError", val.cls_name == "ValueError", detail=repr(val))
            return
        ok = len(sae) == 1
        arg = sae[0].args[0] if ok else None
        how = getattr(arg, "derived_from", None)
        # spaces only: str.strip() without an argument would also drop tabs, line feeds and the ASCII separators
        I.ob(f"{P}/only-surrounding-spaces-are-removed-before-validation",
             ok and how is not None and how[0].path == "decoded_text" and how[1] == "strip" and how[2] == (" ",) and how[3] == {},
             detail=repr(getattr(arg, "path", arg)))
        I.ob(f"{P}/validated-in-title-mode:not-empty-not-None", ok and tuple(sae[0].args[2:4]) == (False, False) and not sae[0].kwargs,
             detail=repr(sae[0].args[1:] if ok else None))
        stored = [e for e in tr if e.name == "setattr" and e.args[0] == "pdu" and e.args[1] == f"_{self.which}_aet"]
        I.ob(f"{P}/the-validated-title-is-what-is-stored", len(stored) == 1 and getattr(stored[0].args[2], "path", None) == "validated_title")


class HandlerFn:
    """a user's handler function: compares equal only to itself (functions compare by identity)"""

    def __init__(self, name):
        self.name = name

    def truth(self, I):
        return True

    def sym_eq(self, I, other):
        return other is self

    def __repr__(self):
        return f"<handler {self.name}>"


class UnbindTask(Task):
    """events._remove_handler, behind Association/AssociationServer.unbind(): the acceptance policy (EVT_USER_ID) and every
    other intervention handler stay bound until THEY are unbound - unbinding some other callable changes nothing; unbinding the
    bound handler puts the default back; a notification handler is removed from its list and nothing else is; other events
    are never touched."""
    name = "events._remove_handler"
    FN = "pynetdicom.events:_remove_handler"
    functions = [FN]

    def __init__(self, prefix="C13/"):
        self.prefix = prefix

    def config(self, repo):
        c = Config()
        c.ob_prefix = self.prefix
        c.summaries["pynetdicom.events:get_default_handler"] = lambda I, a, k: I.ghost["default"]
        return c

    def body(self, I):
        P = f"{self.prefix}{self.FN}"
        g = I.ghost
        kind_ev = ["intervention", "notification"][I.choose(2, "kind of event")]
        ci = I.repo.cls("pynetdicom.events:" + ("InterventionEvent" if kind_ev == "intervention" else "NotificationEvent"))
        ev, other_ev = Obj(ci, tag="event"), Obj(ci, tag="another-event")
        ev.fields.update(name="EVT_X", description="x", is_intervention=kind_ev == "intervention", is_notification=kind_ev != "intervention")
        other_ev.fields.update(ev.fields)
        bound, stranger, second = HandlerFn("bound_handler"), HandlerFn("some_other_callable"), HandlerFn("second_bound_handler")
        g["default"] = HandlerFn("default_handler")
        other_value = (HandlerFn("handler_of_another_event"), None) if kind_ev == "intervention" else [(HandlerFn("handler_of_another_event"), None)]
        present = I.choose(2, "event has bindings") == 0
        which = [bound, stranger][I.choose(2, "which callable is unbound")]
        if kind_ev == "intervention":
            value = (bound, Env("args") if I.choose(2, "bound with args") == 0 else None)
        else:
            value = [(bound, None)] + ([(second, None)] if I.choose(2, "a second handler is bound") == 0 else [])
        attr = {other_ev: other_value}
        if present:
            attr[ev] = value
        before = list(value) if isinstance(value, list) else value
        kind, val = I.run_function(I.repo.func(self.FN), [ev, attr, which])
        I.ob(f"{P}/no-exception", kind == "return", detail=f"{kind}:{val!r}")
        if kind != "return":
            return
        I.ob(f"{P}/bindings-of-other-events-are-untouched", attr.get(other_ev) is other_value and set(attr) <= {ev, other_ev})
        if not present:
            I.ob(f"{P}/nothing-happens-for-an-event-without-bindings", ev not in attr)
            return
        now = attr.get(ev, "<removed>")
        if kind_ev == "intervention":
            if which is bound:
                I.ob(f"{P}/unbinding-the-bound-intervention-handler-puts-the-default-back",
                     isinstance(now, tuple) and len(now) == 2 and now[0] is g["default"] and now[1] is None, detail=repr(now))
            else:
                I.ob(f"{P}/unbinding-a-callable-that-is-not-bound-leaves-the-intervention-handler-in-place", now is value,
                     detail=f"bound {value!r}, afterwards {now!r}")
        else:
            left = [h for h in before if h[0] is not which]
            if left:
                I.ob(f"{P}/exactly-the-named-notification-handler-is-removed", isinstance(now, list) and len(now) == len(left)
                     and all(a is b for a, b in zip(now, left)), detail=repr(now))
            else:
                I.ob(f"{P}/an-event-without-handlers-left-is-dropped-from-the-map", ev not in attr, detail=repr(now))

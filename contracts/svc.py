"""Contracts on the service-class SCP implementations (C20, C21, C07, parts of C22/C28).

Handler behaviour is ADVERSARIAL: the bound handler may return / yield any value (int, dataset with or without a
Status element, other types, malformed tuples), any number of results, and raise at any point.  Generator-based
SCPs are verified by induction over the handler's result stream (one arbitrary iteration of the real loop body).
Responses are observed at dimse.send_msg (snapshot of the response primitive's fields at that moment)."""
import ast

import z3

from pyvc.task import Task
from pyvc.interp import Interp, Config, LoopSpec
from pyvc.values import SV, Obj, Env, Ev, ExcVal, PyRaise, Unsupported, StreamV, Volatile, GenObj
from pyvc.layout import LB
from contracts.negotiation import UIDv
from contracts.dsmodel import DatasetV
from contracts.dimse_frag import bytesio_env, ghost_bytes
from spec import ps37_status as ST

SC = "pynetdicom.service_class"
DP = "pynetdicom.dimse_primitives"
WRAP = f"{SC}:ServiceClass._wrap_handler"
VALID = f"{SC}:ServiceClass.validate_status"
FIND = f"{SC}:ServiceClass._c_find_scp"
REPOSITORY_QUERY = "1.2.840.10008.5.1.4.1.1.201.6"


class StatusTableV:
    """a service-class status table used by contract: membership = the code is listed; lookup = (category, text) with the
    category C28 proves equal to code_to_category(code)"""

    def __init__(self, table):
        self.table = table
        self.by_cat = {}
        for code, (cat, _d) in table.items():
            self.by_cat.setdefault(cat, []).append(code)

    @staticmethod
    def in_codes(k, codes):
        """k is one of `codes`, as a disjunction over the maximal runs of consecutive codes"""
        cs = sorted(set(codes))
        if not cs:
            return z3.BoolVal(False)
        runs, lo, prev = [], cs[0], cs[0]
        for c in cs[1:]:
            if c != prev + 1:
                runs.append((lo, prev))
                lo = c
            prev = c
        runs.append((lo, prev))
        return z3.Or(*[(k == a) if a == b else z3.And(k >= a, k <= b) for a, b in runs])

    def listed(self, k):
        return self.in_codes(k, self.table)

    def sym_contains(self, I, k):
        if isinstance(k, int) and not isinstance(k, bool):
            return k in self.table
        return self.listed(I._num(k, "int"))

    def sym_index(self, I, k):
        if isinstance(k, int) and not isinstance(k, bool):
            if k not in self.table:
                raise PyRaise(ExcVal("KeyError", (k,)))
            return self.table[k]
        ke = I._num(k, "int")
        for cat, codes in self.by_cat.items():
            if I.branch(SV(self.in_codes(ke, codes), "bool"), "status category"):
                return (cat, "")
        raise PyRaise(ExcVal("KeyError", (k,)))


STATUS_KINDS = ["int", "dataset-with-Status", "dataset-without-Status", "wrong-type", "dataset-with-Status-and-MessageIDBeingRespondedTo"]


def handler_status_value(I, sk, st):
    """the status a handler supplies, by kind; `st` is ANY integer (also outside the 16-bit range of the Status element)"""
    if sk == 0:
        return st
    if sk == 1:
        return DatasetV([("Status", st)])
    if sk == 2:
        return DatasetV([("ErrorComment", "x")])
    if sk == 3:
        return "bad"
    other = I.input("int", "handler_supplied_message_id")
    return DatasetV([("Status", st), ("MessageIDBeingRespondedTo", other)])


def case_tag(I):
    """obligations of paths where the handler's STATUS DATASET carries a command field of the response are reported under
    their own ids (so a finding recorded for that input does not mask anything else)"""
    g = I.ghost
    t = ""
    if g.get("elem_kind") == "ok" and g.get("ds_kind") == 4 and g.get("phase") == "iteration":
        t += "[Pending-result-whose-dataset-is-not-a-Dataset]"
    return t


def is_pending(s):
    return z3.Or(s == 0xFF00, s == 0xFF01)


def snapshot(I, rsp):
    """fields of a response primitive at the moment it is sent"""
    if not isinstance(rsp, Obj):
        return {"obj": rsp}
    out = {"obj": rsp, "cls": rsp.cls.name}
    for k in ("_status", "_message_id_being_responded_to", "_message_id", "_dataset", "_affected_sop_class_uid",
              "_number_of_remaining_suboperations", "_number_of_completed_suboperations", "_number_of_failed_suboperations",
              "_number_of_warning_suboperations"):
        out[k] = rsp.fields.get(k)
    return out


def svc_config(prefix, table_name="QR_FIND_SERVICE_CLASS_STATUS"):
    c = Config()
    c.ob_prefix = prefix
    c.summaries["pynetdicom.utils:set_uid"] = lambda I, a, k: (a[0] if a else k.get("value"))
    c.ext_models["pydicom.uid.UID"] = lambda I, a, k: a[0]
    c.ext_models["io.BytesIO"] = lambda I, a, k: bytesio_env(I, LB.of(I, a[0]) if a else LB(), "BytesIO")
    c.ext_models["sys.exc_info"] = lambda I, a, k: (Env("exc_type"), Env("exc_value"), Env("exc_tb"))
    c.ext_models["traceback.format_tb"] = lambda I, a, k: []
    c.summaries["pynetdicom.dsutils:pretty_dataset"] = lambda I, a, k: []
    for flag in ("LOG_REQUEST_IDENTIFIERS", "LOG_RESPONSE_IDENTIFIERS"):
        c.module_consts[("pynetdicom._config", flag)] = False

    def truth_hook(I, v):
        if isinstance(v, Env) and v.kind == "BytesIO":
            return True
        return NotImplemented
    c.truth_hook = truth_hook

    def env_attr(I, env, name):
        if env.path == "svc.assoc" and name == "is_established":
            # the association may be aborted/released by the handler or the peer at any time: every read is fresh
            b = I.fresh("bool", "is_established")
            I.ghost.setdefault("established_reads", []).append(b.e)
            return Volatile(b)
        if env.path == "store_assoc" and name == "is_established":
            # the association with the Move Destination may be lost at any time as well: every read is fresh.  (Losing it does
            # NOT excuse the final C-MOVE response: only the requestor's own association counts for that.)
            b = I.fresh("bool", "store_assoc_is_established")
            I.ghost.setdefault("store_established_reads", []).append(b.e)
            return Volatile(b)
        return NotImplemented
    c.env_attr = env_attr

    def env_call(I, env, method, args, kw):
        g = I.ghost
        if env.path == "svc.assoc.dimse" and method == "send_msg":
            I.trace.append(Ev("send_msg", (snapshot(I, args[0]), args[1])))
            return None
        if env.kind == "BytesIO" and method == "getvalue":
            return env.data["content"]
        return NotImplemented
    c.env_call = env_call
    return c


def mk_svc(I, cls_name="ServiceClass", table="QR_FIND_SERVICE_CLASS_STATUS"):
    me = Env("svc", cls=I.repo.cls(f"{SC}:{cls_name}"))
    assoc = Env("svc.assoc")
    dimse = Env("svc.assoc.dimse")
    assoc.truth = dimse.truth = True          # real objects: plain instances are truthy
    assoc.attrs["dimse"] = dimse
    assoc.attrs["acse"] = Env("svc.assoc.acse")
    me.attrs["assoc"] = assoc
    me.attrs["_assoc"] = assoc
    tab = I.module_ns(I.repo.module("pynetdicom.status"))[table]
    me.attrs["statuses"] = StatusTableV(tab)
    return me


def mk_request(I, cls, **extra):
    req = Obj(I.repo.cls(f"{DP}:{cls}"), tag="request")
    mid = I.input("int", "MessageID")
    I.assume(z3.And(mid.e >= 0, mid.e <= 65535))
    req.fields.update(_message_id=mid, _affected_sop_class_uid=UIDv(I.input("int", "sop_class").e), _dataset=Env("request_dataset"),
                      _dataset_file=None)
    req.fields.update(extra)
    return req, mid


def mk_context(I):
    cx = Obj(I.repo.cls("pynetdicom.presentation:PresentationContext"), tag="context")
    cid = I.input("int", "context_id")
    I.assume(z3.And(cid.e >= 1, cid.e <= 255, cid.e % 2 == 1))
    ab = UIDv(I.input("int", "abstract_syntax").e)
    cx.fields.update(_context_id=cid, _abstract_syntax=ab, _transfer_syntax=[UIDv(I.input("int", "transfer_syntax").e)], result=0,
                     _as_scu=True, _as_scp=True)
    return cx, cid


# ---------------------------------------------------------------------------------------------
# response-sequence obligations (C20)
# ---------------------------------------------------------------------------------------------
def check_responses(I, P, mid, cid, how, repo_query=None, allow_no_final=None):
    """how: 'continues' (the SCP keeps running after this path) | 'ended' (the SCP returned)
    allow_no_final: z3 Bool/bool under which a missing final response is legitimate (association no longer established)"""
    T = case_tag(I)
    sends = [e for e in I.trace if e.name == "send_msg"]
    sts = [I._num(e.args[0]["_status"], "int") if e.args[0].get("_status") is not None else None for e in sends]
    I.ob(f"{P}/every-response-has-a-status", all(s is not None for s in sts))
    sts = [s for s in sts if s is not None]
    for s in sts:
        # Status is a 16-bit unsigned element: anything else cannot be encoded, send_msg raises, _serve_request aborts
        I.ob(f"{P}/every-response-status-is-encodable-(0..65535){T}", z3.And(s >= 0, s <= 65535))
    for e in sends:
        I.ob(f"{P}/every-response-carries-the-requests-message-id-and-context{T}",
             z3.And(_b(I.eq(e.args[0].get("_message_id_being_responded_to"), mid)), _b(I.eq(e.args[1], cid))))

    def nonfinal(s):
        lim = (s == 0xB001) if repo_query is None else z3.And(s == 0xB001, repo_query)
        return z3.Or(is_pending(s), lim)
    body = sts[:-1] if how == "ended" else sts
    for s in body:
        I.ob(f"{P}/only-Pending-(or-the-repository-query-limit-warning)-before-the-final-response", nonfinal(s),
             detail=f"{len(sts)} responses on this path, SCP {how}")
    if how == "ended":
        if sts:
            hs = I.ghost.get("handler_status")
            odd = (hs.e == 0xFF01) if (hs is not None and I.ghost.get("elem_kind") == "ok" and I.ghost.get("phase") == "iteration") else z3.BoolVal(False)
            I.ob(f"{P}/the-last-response-is-final", z3.Implies(z3.Not(odd), z3.Not(is_pending(sts[-1]))), detail=f"{len(sts)} responses")
            I.ob(f"{P}/the-last-response-is-final[handler-status-0xFF01]", z3.Implies(odd, z3.Not(is_pending(sts[-1]))), detail=f"{len(sts)} responses")
        else:
            ok = allow_no_final if allow_no_final is not None else False
            I.ob(f"{P}/a-final-response-may-be-missing-only-if-the-association-is-no-longer-established", ok,
                 detail="SCP returned without sending anything")


def _b(t):
    return z3.BoolVal(t) if isinstance(t, bool) else t


def not_established_seen(I):
    """z3: some read of assoc.is_established on this path returned False (handler/peer aborted or released)"""
    reads = I.ghost.get("established_reads", [])
    if not reads:
        return False
    return z3.Or(*[z3.Not(r) for r in reads])


# ---------------------------------------------------------------------------------------------
# _wrap_handler   (C07, C20)
# ---------------------------------------------------------------------------------------------
class WrapHandlerTask(Task):
    name = "ServiceClass._wrap_handler"
    functions = [WRAP]

    def __init__(self, prefix="C20/"):
        self.prefix = prefix

    def config(self, repo):
        c = svc_config(self.prefix)
        fi = repo.func(WRAP)

        class L(LoopSpec):
            def havoc(self_, I, fr):
                I.ghost["in_iter"] = True

            def after_body(self_, I, fr):
                I.ghost["task"].iteration_done(I)
        c.loop_specs[(WRAP, 0)] = L()

        def env_call(I, env, method, args, kw):
            g = I.ghost
            if env.path == "svc.assoc.acse" and method == "is_aborted":
                r = I.choose(2, "aborted?") == 1
                g["aborted"] = r
                return r
            if env.path == "svc.assoc.acse" and method == "is_release_requested":
                r = I.choose(2, "release requested?") == 1
                I.trace.append(Ev("is_release_requested", (r,)))
                if r:
                    g["release_seen"] = True
                    if kw.get("consume", True) is not False:
                        g["release_consumed"] = True      # the consuming mode of ACSE.is_release_requested POPS the indication
                return r
            return NotImplemented
        c.env_call = env_call
        return c

    def iteration_done(self, I):
        # the iteration ended normally: the element was yielded to the SCP
        g = I.ghost
        P = f"{self.prefix}{WRAP}"
        I.ob(f"{P}/each-handler-result-is-passed-on-once-as-(result,None)", len(g["yields"]) == 1 and g["yields"][0][1] is None
             and g["yields"][0][0] is g["elem"], detail=repr(g["yields"]))

    def body(self, I):
        g = I.ghost
        g["task"] = self
        P = f"{self.prefix}{WRAP}"
        me = mk_svc(I)

        def next_elem(I_, i):
            k = I.choose(2, "handler yields or raises")
            if k == 1:
                g["raised"] = True
                raise PyRaise(ExcVal("Exception", ("handler failed",)))
            e = Env("handler_result")
            g["elem"] = e
            g["yields"] = []
            return e
        handler = StreamV("handler", next_elem)
        kind, gen = I.run_function(I.repo.func(WRAP), [me, handler])
        assert isinstance(gen, GenObj)
        g["yields"] = []
        while True:
            try:
                ok, v = I.gen_next(gen)
            except PyRaise as pr:
                I.ob(f"{P}/no-exception-escapes-the-wrapper", False, detail=repr(pr.exc))
                return
            if not ok:
                break
            g["yields"].append(v)
        I.ob(f"{P}/no-exception-escapes-the-wrapper", True)
        ys = g["yields"]
        if g.get("raised"):
            I.ob(f"{P}/a-handler-exception-becomes-one-last-(None,exc_info)-element",
                 len(ys) == 1 and ys[0][0] is None and isinstance(ys[0][1], tuple))
        elif g.get("in_iter") and (g.get("aborted") or g.get("release_seen")):
            I.ob(f"{P}/stops-without-passing-the-result-on-when-the-association-was-aborted-or-release-was-requested", len(ys) == 0)
            # C07: the release indication must still be pending for the reactor to answer it
            I.ob(f"C07/{WRAP}/a-release-request-seen-between-results-is-left-for-the-reactor-to-answer",
                 not g.get("release_consumed"),
                 detail="is_release_requested() consumes the A-RELEASE indication; nobody answers it afterwards")
        else:
            I.ob(f"{P}/ends-when-the-handler-is-exhausted", len(ys) == 0)


# ---------------------------------------------------------------------------------------------
# validate_status  (C21)
# ---------------------------------------------------------------------------------------------
class ValidateStatusTask(Task):
    name = "ServiceClass.validate_status"
    functions = [VALID]

    def __init__(self, prefix="C21/"):
        self.prefix = prefix

    def config(self, repo):
        return svc_config(self.prefix)

    def body(self, I):
        P = f"{self.prefix}{VALID}"
        me = mk_svc(I)
        rsp = I.instantiate(I.repo.cls(f"{DP}:C_FIND"), [], {})
        k = I.choose(5, "handler status kind")
        st = I.input("int", "status_value")
        if k == 0:
            status = st
        elif k == 1:
            status = DatasetV([("Status", st), ("ErrorComment", "some comment"), ("OffendingElement", [0x00100010])])
        elif k == 2:
            status = DatasetV([("ErrorComment", "no status here")])
        elif k == 3:
            status = "0x0000"
        else:
            status = DatasetV([("Status", st), ("PatientName", "not a status element")])
        kind, val = I.run_function(I.repo.func(VALID), [me, status, rsp])
        I.ob(f"{P}/no-exception-for-any-handler-value", kind == "return", detail=f"kind {k}: {kind}:{val!r}")
        if kind != "return":
            return
        I.ob(f"{P}/returns-the-response-it-was-given", val is rsp)
        got = rsp.fields.get("_status")
        if k in (0, 1, 4):
            # the Status element is a 16-bit unsigned value: an integer outside 0..65535 is not a status any response can
            # carry (C20: it could not be encoded); it is answered with the invalid-status failure code
            inr = z3.And(st.e >= 0, st.e <= 65535)
            I.ob(f"{P}/status-is-the-int-or-the-datasets-Status", z3.Implies(inr, _b(I.eq(got, st))))
            I.ob(f"{P}/an-integer-outside-0..65535-gives-0xC002", z3.Implies(z3.Not(inr), _b(I.eq(got, 0xC002))))
        elif k == 2:
            I.ob(f"{P}/dataset-without-Status-gives-0xC001", got == 0xC001, detail=repr(got))
        else:
            I.ob(f"{P}/other-types-give-0xC002", got == 0xC002, detail=repr(got))
        if k == 1:
            I.ob(f"{P}/optional-status-elements-are-copied-to-same-named-attributes",
                 rsp.fields.get("ErrorComment", rsp.fields.get("_error_comment")) == "some comment" or I.getattr(rsp, "ErrorComment") == "some comment")
        if k == 4:
            I.ob(f"{P}/elements-that-are-not-status-attributes-are-ignored", "PatientName" not in rsp.fields)


# ---------------------------------------------------------------------------------------------
# _c_find_scp  (C20, C21, C28 finality)
# ---------------------------------------------------------------------------------------------
class FindLoop(LoopSpec):
    """invariant of the result loop: `rsp` is still THE response primitive built before the loop, it still answers the
    request's message id; its Status / Identifier are whatever the previous iteration left (havocked)"""

    def __init__(self, task, body):
        self.task = task
        self.modifies_locals = [n for n in Interp.assigned_names(body) if n != "rsp"]

    def invariant(self, I, fr):
        g = I.ghost
        ok, rsp = fr.lookup("rsp")
        if "rsp0" not in g:
            g["rsp0"] = rsp
        return z3.And(z3.BoolVal(isinstance(rsp, Obj) and rsp is g["rsp0"]),
                      _b(I.eq(rsp.fields.get("_message_id_being_responded_to"), g["mid"])) if isinstance(rsp, Obj) else z3.BoolVal(False))

    def ob_tag(self, I, fr):
        return case_tag(I)

    def havoc(self, I, fr):
        I.ghost["phase"] = "iteration"
        rsp = I.ghost["rsp0"]
        st = I.fresh("int", "previous_status")
        rsp.fields["_status"] = st
        rsp.fields["_dataset"] = I.opaque("previous_identifier", nonnull=False)

    def after_body(self, I, fr):
        self.task.path_done(I, "continues")

    def on_exit(self, I, fr):
        I.ghost["phase"] = "after-loop"


class FindScpTask(Task):
    name = "ServiceClass._c_find_scp"
    shard = True
    functions = [FIND, VALID]

    def __init__(self, prefix="C20/", table="QR_FIND_SERVICE_CLASS_STATUS"):
        self.prefix = prefix
        self.table = table              # the status table of the service class that dispatches to _c_find_scp
        if table != "QR_FIND_SERVICE_CLASS_STATUS":
            self.name = f"ServiceClass._c_find_scp/{table}"

    def config(self, repo):
        c = svc_config(self.prefix)
        fi = repo.func(FIND)
        loops = sorted([n for n in ast.walk(fi.node) if isinstance(n, (ast.For, ast.While))], key=lambda n: (n.lineno, n.col_offset))
        main = [i for i, n in enumerate(loops) if isinstance(n, ast.For) and "_wrap_handler" in ast.unparse(n.iter)]
        if len(main) != 1:
            raise Unsupported("_c_find_scp: main loop over _wrap_handler(...) not found")
        c.loop_specs[(FIND, main[0])] = FindLoop(self, loops[main[0]].body)
        task = self

        def trigger(I, args, kw):
            g = I.ghost
            I.trace.append(Ev("handler", (args[1].fields.get("name"), args[2])))
            k = I.choose(3, "handler call")
            if k == 1:
                raise PyRaise(ExcVal("Exception", ("handler failed",)))
            if k == 2:
                return None
            return Env("handler_generator")
        c.summaries["pynetdicom.events:trigger"] = trigger

        def wrap(I, args, kw):
            # stream contract of _wrap_handler (WrapHandlerTask): (result, None) per handler result, at most one last
            # (None, exc_info); ends early when abort/release was observed
            g = I.ghost

            def next_elem(I_, i):
                kinds = ["ok", "exception", "not-a-pair"]
                k = kinds[I.choose(3, "handler result")]
                g["elem_kind"] = k
                if k == "exception":
                    return (None, (Env("exc_type"), Env("exc"), Env("tb")))
                if k == "not-a-pair":
                    bad = [None, 7, (1, 2, 3)][I.choose(3, "malformed")]
                    return (bad, None)
                sk = I.choose(len(STATUS_KINDS), "status kind")
                st = I.input("int", "handler_status")
                g["handler_status"] = st
                g["status_kind"] = sk
                status = handler_status_value(I, sk, st)
                dk = I.choose(3, "identifier kind")
                g["ident_kind"] = dk
                ident = [None, Env("identifier_encodable"), Env("identifier_unencodable")][dk]
                return ((status, ident), None)
            return StreamV("_wrap_handler", next_elem)
        c.summaries[WRAP] = wrap
        c.ext_models["iter"] = lambda I, a, k: a[0]

        def enc(I, args, kw):
            d = args[0]
            if isinstance(d, Env) and d.path == "identifier_encodable":
                return ghost_bytes(I, "encoded_identifier", 1)[2]
            return b""
        c.summaries["pynetdicom.dsutils:encode"] = enc
        return c

    def path_done(self, I, how):
        g = I.ghost
        P = f"{self.prefix}{FIND}"
        check_responses(I, P, g["mid"], g["cid"], how, repo_query=g["is_repo"], allow_no_final=not_established_seen(I))
        sends = [e for e in I.trace if e.name == "send_msg"]
        # C21: which status goes out for which handler value
        if g.get("phase") == "iteration" and sends and g.get("elem_kind") == "ok":
            s = I._num(sends[-1].args[0]["_status"], "int")
            sk, dk = g["status_kind"], g["ident_kind"]
            hs = g["handler_status"].e
            if sk in (0, 1, 4):
                pend_unenc = z3.And(is_pending(hs), z3.BoolVal(dk != 1))
                I.ob(f"C21/{FIND}/response-status-is-the-handlers-status-(or-0xC312-for-an-unencodable-pending-identifier)",
                     z3.Implies(z3.And(hs >= 0, hs <= 65535), z3.If(pend_unenc, s == 0xC312, s == hs)),
                     detail=f"status kind {sk} identifier kind {dk}")
                if dk == 1:
                    ident = sends[-1].args[0]["_dataset"]
                    I.ob(f"C21/{FIND}/a-pending-response-carries-the-handlers-identifier-encoded-with-the-contexts-transfer-syntax",
                         z3.Implies(is_pending(hs), z3.BoolVal(isinstance(ident, Env) and ident.kind == "BytesIO")))
            elif sk == 2:
                I.ob(f"C21/{FIND}/dataset-without-Status-gives-0xC001", s == 0xC001)
            else:
                I.ob(f"C21/{FIND}/invalid-status-type-gives-0xC002", s == 0xC002)
        if g.get("phase") == "iteration" and sends and g.get("elem_kind") == "exception":
            I.ob(f"C21/{FIND}/handler-exception-gives-0xC311", I._num(sends[-1].args[0]["_status"], "int") == 0xC311)

    def body(self, I):
        g = I.ghost
        P = f"{self.prefix}{FIND}"
        me = mk_svc(I, "ServiceClass", self.table)
        req, mid = mk_request(I, "C_FIND")
        cx, cid = mk_context(I)
        g["mid"], g["cid"] = mid, cid
        # is this a Repository Query SOP class?  (the only case where 0xB001 is non-final for the SCU, C24)
        g["is_repo"] = _b(I.eq(cx.fields["_abstract_syntax"], REPOSITORY_QUERY))
        g["phase"] = "before-loop"
        kind, val = I.run_function(I.repo.func(FIND), [me, req, cx])
        if kind == "raise":
            # an exception leaving the SCP is caught by _serve_request, which ABORTS: no final response is ever sent
            I.ob(f"{P}/no-exception-escapes-the-SCP-(it-would-end-in-an-abort-without-a-final-response){case_tag(I)}", False,
                 detail=f"{val!r} on handler result kind {g.get('elem_kind')}")
            return
        I.ob(f"{P}/no-exception-escapes-the-SCP-(it-would-end-in-an-abort-without-a-final-response)", True)
        self.path_done(I, "ended")
        hs = [e for e in I.trace if e.name == "handler"]
        I.ob(f"{P}/the-handler-is-invoked-exactly-once-with-the-request", len(hs) == 1 and hs[0].args[0] == "EVT_C_FIND")


# ---------------------------------------------------------------------------------------------
# _get_scp / _move_scp   (C20, C22)
# ---------------------------------------------------------------------------------------------
QR = f"{SC}:QueryRetrieveServiceClass"
GET = f"{QR}._get_scp"
MOVE = f"{QR}._move_scp"
DS_KINDS = ["None", "dataset-with-SOPInstanceUID", "dataset-without-SOPInstanceUID", "empty-dataset", "not-a-dataset",
            "dataset-with-an-empty-FailedSOPInstanceUIDList-and-an-ErrorComment", "dataset-with-a-FailedSOPInstanceUIDList"]
PRIOR = Env("instances-recorded-by-earlier-iterations")


class HandlerGen:
    """the handler's generator as evt.trigger returned it: consumed with next() for the leading yields (destination,
    number of sub-operations), the rest through _wrap_handler"""

    def __init__(self, task):
        self.task = task

    def truth(self, I):
        return True

    def sym_next(self, I, default):
        g = I.ghost
        stage = g.get("next_calls", 0)
        g["next_calls"] = stage + 1
        which = "destination" if (self.task.which == "move" and stage == 0) else "count"
        k = I.choose(3, f"next(generator): {which}")
        if k == 1:
            I.raise_("StopIteration")
        if k == 2:
            raise PyRaise(ExcVal("Exception", ("handler failed",)))
        if which == "destination":
            dk = I.choose(4, "destination kind")
            return [("addr", 104), (None, 104), ("addr", 104, {"ae_title": "X"}), 5][dk]
        if I.choose(2, "count kind") == 1:
            return "not a number"
        n = I.input("int", "announced_suboperations")
        g["N"] = n
        return n


def counters(snap):
    return [snap.get(k) for k in ("_number_of_remaining_suboperations", "_number_of_failed_suboperations",
                                  "_number_of_warning_suboperations", "_number_of_completed_suboperations")]


class GetMoveLoop(LoopSpec):
    """invariant: rsp is THE response primitive and answers the request's message id; store_results = [remaining, failed,
    warning, completed] are non-negative and add up to the announced N; the response's counter fields are unset or equal
    store_results; failed_instances is the one list created before the loop"""

    def __init__(self, task, body):
        self.task = task
        self.modifies_locals = [n for n in Interp.assigned_names(body) if n != "rsp"]

    def ob_tag(self, I, fr):
        return case_tag(I)

    def invariant(self, I, fr):
        g = I.ghost
        ok, rsp = fr.lookup("rsp")
        ok2, sr = fr.lookup("store_results")
        ok3, fi = fr.lookup("failed_instances")
        ok4, n = fr.lookup("nr_suboperations")
        if "rsp0" not in g:
            g["rsp0"], g["sr_list"], g["fi_list"] = rsp, sr, fi
            g["N"] = n
        if not (isinstance(rsp, Obj) and rsp is g["rsp0"] and sr is g["sr_list"] and isinstance(sr, list) and len(sr) == 4
                and fi is g["fi_list"] and isinstance(fi, list)):
            return False
        r, f, w, c = [I._num(x, "int") for x in sr]
        N = I._num(n, "int")
        cs = counters(rsp.fields)
        if all(x is None for x in cs[1:]):
            tied = z3.BoolVal(True)
        elif all(x is not None for x in cs):
            tied = z3.And(*[I._num(a, "int") == b for a, b in zip(cs, (r, f, w, c))])
        else:
            tied = z3.BoolVal(False)
        return z3.And(_b(I.eq(rsp.fields.get("_message_id_being_responded_to"), g["mid"])), _b(I.eq(n, g["N"])),
                      r + f + w + c == N, r >= 0, f >= 0, w >= 0, c >= 0, N >= 1, N <= 65535, tied)

    def havoc(self, I, fr):
        g = I.ghost
        g["phase"] = "iteration"
        rsp = g["rsp0"]
        rsp.fields["_status"] = I.fresh("int", "previous_status")
        rsp.fields["_dataset"] = I.opaque("previous_identifier", nonnull=False)
        sr0 = [I.fresh("int", nm) for nm in ("remaining0", "failed0", "warning0", "completed0")]
        g["sr0"] = sr0
        g["sr_list"][:] = sr0
        g["fi_list"][:] = [PRIOR]
        names = ("_number_of_remaining_suboperations", "_number_of_failed_suboperations", "_number_of_warning_suboperations",
                 "_number_of_completed_suboperations")
        if I.choose(2, "a Pending response was sent before") == 1:
            for nm, v in zip(names, sr0):
                rsp.fields[nm] = v
        else:
            for nm in names:
                rsp.fields[nm] = None

    def after_body(self, I, fr):
        self.task.path_done(I, "continues")

    def on_exit(self, I, fr):
        I.ghost["phase"] = "after-loop"


def bulk_frame_ok(I, node, fr):
    """the repeating-group bulk-data loop only deletes elements from the yielded dataset"""
    for st in ast.walk(node):
        if isinstance(st, (ast.Assign, ast.AugAssign, ast.AnnAssign)):
            tg = st.targets if isinstance(st, ast.Assign) else [st.target]
            if not all(isinstance(t, ast.Name) and t.id in ("tag",) for t in tg):
                return False
        if isinstance(st, ast.Delete) and not all(isinstance(t, ast.Subscript) and isinstance(t.value, ast.Name) and
                                                  t.value.id == "dataset" for t in st.targets):
            return False
        if isinstance(st, ast.Call) and not (isinstance(st.func, ast.Name) and st.func.id in ("range", "Tag")):
            return False
        if isinstance(st, (ast.Return, ast.Raise, ast.Break, ast.Yield)):
            return False
    return True


class GetMoveScpTask(Task):
    shard = True

    def __init__(self, which, prefix="C22/"):
        self.which = which
        self.fn = GET if which == "get" else MOVE
        self.name = f"QueryRetrieveServiceClass._{which}_scp"
        self.functions = [self.fn, VALID]
        self.prefix = prefix

    def config(self, repo):
        task = self
        c = svc_config(self.prefix)
        fi = repo.func(self.fn)
        loops = sorted([n for n in ast.walk(fi.node) if isinstance(n, (ast.For, ast.While))], key=lambda n: (n.lineno, n.col_offset))
        main = [i for i, n in enumerate(loops) if isinstance(n, ast.For) and "_wrap_handler" in ast.unparse(n.iter)]
        if len(main) != 1:
            raise Unsupported("main loop over _wrap_handler(...) not found")
        c.loop_specs[(self.fn, main[0])] = GetMoveLoop(self, loops[main[0]].body)
        for i, n in enumerate(loops):
            if isinstance(n, ast.For) and ast.unparse(n.iter).startswith("range(0, 256"):
                sp = LoopSpec()
                sp.skip, sp.frame_ok, sp.frame_name = True, bulk_frame_ok, "only-deletes-elements-of-the-yielded-dataset"
                c.loop_specs[(self.fn, i)] = sp
        c.module_consts[(SC, "STORAGE_SERVICE_CLASS_STATUS")] = lambda I: StatusTableV(
            I.module_ns(I.repo.module("pynetdicom.status"))["STORAGE_SERVICE_CLASS_STATUS"])

        def trigger(I, args, kw):
            I.trace.append(Ev("handler", (args[1].fields.get("name"), args[2])))
            k = I.choose(3, "handler call")
            if k == 1:
                raise PyRaise(ExcVal("Exception", ("handler failed",)))
            if k == 2:
                return None
            return HandlerGen(task)
        c.summaries["pynetdicom.events:trigger"] = trigger

        def wrap(I, args, kw):
            g = I.ghost

            def next_elem(I_, i):
                kinds = ["ok", "exception", "not-a-pair"]
                k = kinds[I.choose(3, "handler result")]
                g["elem_kind"] = k
                if k == "exception":
                    return (None, (Env("exc_type"), Env("exc"), Env("tb")))
                if k == "not-a-pair":
                    bad = [None, 7, (1, 2, 3)][I.choose(3, "malformed")]
                    return (bad, None)
                sk = I.choose(len(STATUS_KINDS), "status kind")
                st = I.input("int", "handler_status")
                g["handler_status"], g["status_kind"] = st, sk
                status = handler_status_value(I, sk, st)
                dk = I.choose(len(DS_KINDS), "dataset kind")
                g["ds_kind"] = dk
                # the instance UID is whatever string the handler's data set carries (the library's default configuration lets
                # any 1-64 character string through as a UID): an opaque, non-empty text - not a particular well-formed UID
                g["instance_uid"] = Env("the-yielded-instance's-SOPInstanceUID", cls="str")
                g["instance_uid"].truth = True
                ds = [None, DatasetV([("SOPInstanceUID", g["instance_uid"]), ("PatientName", "x")]), DatasetV([("PatientName", "x")]), DatasetV([]),
                      "not a dataset", DatasetV([("FailedSOPInstanceUIDList", []), ("ErrorComment", "archive offline")]),
                      DatasetV([("FailedSOPInstanceUIDList", ["9.9.9"])])][dk]
                g["handler_dataset"] = ds
                return ((status, ds), None)
            return StreamV("_wrap_handler", next_elem)
        c.summaries[WRAP] = wrap
        c.ext_models["pydicom.dataset.Dataset"] = lambda I, a, k: DatasetV([])
        c.ext_models["pydicom.tag.Tag"] = lambda I, a, k: ("tag", ("repeater", a))

        def enc(I, args, kw):
            lb = ghost_bytes(I, "encoded_dataset", 0)[2]
            I.ghost.setdefault("encoded", []).append((lb, args[0]))
            return lb
        c.summaries["pynetdicom.dsutils:encode"] = enc
        base_bio = c.ext_models["io.BytesIO"]

        def bio(I, a, k):
            e = base_bio(I, a, k)
            for lb, ds in I.ghost.get("encoded", []):
                if a and a[0] is lb:
                    e.data["source"] = ds
            return e
        c.ext_models["io.BytesIO"] = bio
        base_call = c.env_call

        def env_call(I, env, method, args, kw):
            g = I.ghost
            if method == "send_c_store" and env.path in ("svc.assoc", "store_assoc"):
                k = I.choose(3, "C-STORE sub-operation")
                I.trace.append(Ev("send_c_store", (env.path, args[0], dict(kw))))
                g["subop"] = k
                if k == 0:
                    raise PyRaise(ExcVal("RuntimeError", ("sub-operation failed",)))
                if k == 1:
                    return DatasetV([])
                s = I.input("int", "store_status")
                g["store_status"] = s
                return DatasetV([("Status", s)])
            if env.path == "svc.assoc.ae" and method == "associate":
                if I.choose(2, "associate") == 1:
                    raise PyRaise(ExcVal("RuntimeError", ("associate failed",)))
                sa = Env("store_assoc")
                sa.truth = True
                return sa
            if env.path.startswith("store_assoc"):
                I.trace.append(Ev(f"{env.path}.{method}", tuple(args)))
                return None
            return base_call(I, env, method, args, kw)
        c.env_call = env_call
        return c

    def path_done(self, I, how):
        g = I.ghost
        P = f"C20/{self.fn}"
        Q = f"{self.prefix}{self.fn}"
        T = case_tag(I)
        check_responses(I, P, g["mid"], g["cid"], how, repo_query=z3.BoolVal(False), allow_no_final=not_established_seen(I))
        sends = [e for e in I.trace if e.name == "send_msg"]
        N = g.get("N")
        in_loop = g.get("phase") in ("iteration", "after-loop")
        if not in_loop or N is None:
            return
        Nz = I._num(N, "int")
        fi = g["fi_list"]
        if g["phase"] == "iteration" and how == "continues":
            # bookkeeping carried into the next iteration (on paths that end the operation only what is SENT matters)
            r0, f0, w0, c0 = [x.e for x in g["sr0"]]
            r, f, w, c = [I._num(x, "int") for x in g["sr_list"]]
            I.ob(f"C22/{self.fn}/tracked-counters:remaining-never-increases-the-others-never-decrease{T}",
                 z3.And(r <= r0, f >= f0, w >= w0, c >= c0))
            # exactly the failed instances are recorded
            appended = len(fi) - 1 if fi and fi[0] is PRIOR else None
            subop = [e for e in I.trace if e.name == "send_c_store"]
            I.ob(f"C22/{self.fn}/at-most-one-sub-operation-per-handler-result{T}", len(subop) <= 1)
            if appended is None:
                I.ob(f"C22/{self.fn}/the-failed-instance-list-is-only-appended-to{T}", False, detail=repr(fi))
            else:
                failed_now = f - f0
                I.ob(f"C22/{self.fn}/failed-counter-grows-by-at-most-one-per-handler-result{T}", z3.And(failed_now >= 0, failed_now <= 1))
                has_uid = g.get("ds_kind") == 1
                if subop:
                    I.ob(f"C22/{self.fn}/an-instance-is-listed-as-failed-exactly-when-its-sub-operation-failed{T}",
                         z3.If(failed_now == 1, z3.BoolVal(appended == (1 if has_uid else 0) and (not has_uid or fi[-1] is g.get("instance_uid"))),
                               z3.BoolVal(appended == 0)), detail=f"appended={appended} ds_kind={g.get('ds_kind')}")
                else:
                    I.ob(f"C22/{self.fn}/nothing-but-an-invalid-dataset-placeholder-is-listed-without-a-sub-operation{T}",
                         z3.If(failed_now == 1, z3.BoolVal(appended == 1 and fi[-1] == ""), z3.BoolVal(appended == 0)),
                         detail=f"appended={appended}")
        for idx, e in enumerate(sends):
            snap = e.args[0]
            st = I._num(snap["_status"], "int")
            cs = counters(snap)
            last = (how == "ended" and idx == len(sends) - 1)
            if not last:
                # a Pending response (C20 proves every non-last response is Pending)
                I.ob(f"C22/{self.fn}/every-Pending-response-reports-all-four-counters{T}", all(x is not None for x in cs))
                if all(x is not None for x in cs):
                    rr, ff, ww, cc = [I._num(x, "int") for x in cs]
                    I.ob(f"C22/{self.fn}/Pending:remaining+completed+failed+warning==N{T}", rr + ff + ww + cc == Nz)
                    if g["phase"] == "iteration":
                        r0, f0, w0, c0 = [x.e for x in g["sr0"]]
                        I.ob(f"C22/{self.fn}/Pending:remaining-never-increases-the-others-never-decrease{T}",
                             z3.And(rr <= r0, ff >= f0, ww >= w0, cc >= c0, rr >= 0))
            else:
                if all(x is not None for x in cs[1:]):
                    ff, ww, cc = [I._num(x, "int") for x in cs[1:]]
                    I.ob(f"C22/{self.fn}/final:completed+failed+warning<=N{T}", z3.And(ff + ww + cc <= Nz, ff >= 0, ww >= 0, cc >= 0))
                    chosen_by_pynetdicom = g["phase"] == "after-loop" or (g.get("elem_kind") == "ok" and g.get("status_kind") in (0, 1, 4))
                    if chosen_by_pynetdicom:
                        cond = z3.BoolVal(True) if g["phase"] == "after-loop" else (g["handler_status"].e == 0)
                        I.ob(f"C22/{self.fn}/final-status:Success-without-failures-or-warnings,all-failed-code-when-all-N-failed,Warning-otherwise{T}",
                             z3.Implies(cond, z3.If(z3.And(ff == 0, ww == 0), st == 0x0000, z3.If(ff == Nz, st == 0xA702, st == 0xB000))))
                ident = snap.get("_dataset")
                if isinstance(ident, Env) and ident.kind == "BytesIO" and "source" in ident.data:
                    src = ident.data["source"]
                    own = isinstance(src, DatasetV) and any(k == "FailedSOPInstanceUIDList" and v is fi for k, v in src.elems)
                    handlers = src is g.get("handler_dataset") and isinstance(src, DatasetV) and src.sym_contains(I, "FailedSOPInstanceUIDList")
                    I.ob(f"C22/{self.fn}/final-identifier-lists-the-recorded-failed-instances-(or-is-the-handlers-own-list){T}", own or handlers)
                    hd = g.get("handler_dataset")
                    if isinstance(hd, DatasetV) and hd.sym_contains(I, "FailedSOPInstanceUIDList") and g.get("phase") == "iteration" \
                            and g.get("status_kind") in (0, 1, 4) and g.get("result_examined"):
                        # C21: for a Cancel / Failure / Warning result the handler's dataset IS the response identifier (documented:
                        # "dataset is a Dataset with a FailedSOPInstanceUIDList element"): it reaches the requestor as supplied
                        hs_ = g["handler_status"].e
                        cfw = z3.Or(*[ST.category_is_z3(hs_, c_) for c_ in (ST.CANCEL, ST.FAILURE, ST.WARNING)])
                        listed = g["table"].listed(hs_)           # a status the service defines (others: validate_status decides)
                        I.ob(f"C21/{self.fn}/a-final-dataset-supplied-by-the-handler-is-the-one-that-is-encoded-and-sent",
                             z3.Implies(z3.And(cfw, listed), z3.BoolVal(src is hd)),
                             detail=f"dataset kind {DS_KINDS[g.get('ds_kind')]}: encoded {src!r}")

    def body(self, I):
        g = I.ghost
        me = mk_svc(I, "QueryRetrieveServiceClass", "QR_GET_SERVICE_CLASS_STATUS" if self.which == "get" else "QR_MOVE_SERVICE_CLASS_STATUS")
        ae = Env("svc.assoc.ae")
        ae.attrs["ae_title"] = "SCP"
        me.attrs["assoc"].attrs["ae"] = ae
        me.attrs["ae"] = ae
        g["table"] = me.attrs["statuses"]
        # whether the handler's result was examined at all on this path (results yielded after the last announced
        # sub-operation are documented to be ignored): validate_status is called exactly for examined results
        orig_call = I.call_func

        def spy(fi, args, kwargs, closure=None):
            if fi.qualname == VALID:
                I.ghost["result_examined"] = True
            return orig_call(fi, args, kwargs, closure)
        I.call_func = spy
        req, mid = mk_request(I, "C_GET" if self.which == "get" else "C_MOVE", _move_destination="DEST")
        cx, cid = mk_context(I)
        g["mid"], g["cid"] = mid, cid
        g["phase"] = "before-loop"
        kind, val = I.run_function(I.repo.func(self.fn), [me, req, cx])
        P = f"C20/{self.fn}"
        if kind == "raise":
            I.ob(f"{P}/no-exception-escapes-the-SCP-(it-would-end-in-an-abort-without-a-final-response){case_tag(I)}", False,
                 detail=f"{val!r} on handler result kind {g.get('elem_kind')}")
            return
        I.ob(f"{P}/no-exception-escapes-the-SCP-(it-would-end-in-an-abort-without-a-final-response)", True)
        self.path_done(I, "ended")
        hs = [e for e in I.trace if e.name == "handler"]
        I.ob(f"{P}/the-handler-is-invoked-exactly-once-with-the-request", len(hs) == 1)


# ---------------------------------------------------------------------------------------------
# single-response SCPs: the six DIMSE-N implementations, Verification, Storage   (C20, C21)
# ---------------------------------------------------------------------------------------------
class AnyStatusTable:
    """`self.statuses` of an arbitrary service class: whether a code is listed is unknown (one Boolean per code expression),
    its category is any of the five (fork) - so the contract holds for every status table of every service class"""
    CATS = ("Success", "Warning", "Failure", "Cancel", "Pending")

    def __init__(self):
        self.known = {}

    def sym_contains(self, I, k):
        key = str(k.e) if isinstance(k, SV) else repr(k)
        if key not in self.known:
            self.known[key] = I.fresh("bool", "status_is_listed").e
        return self.known[key]

    def sym_index(self, I, k):
        # C28 proves, for every *_STATUS table, that the category of each listed code is the PS3.7 category of the code
        # (obligations C28/tables/<name>/category-equals-spec): a listed code has that category, whatever the table
        if isinstance(k, int) and not isinstance(k, bool):
            cat = ST.category(k)
            if cat == ST.UNKNOWN:
                I.assume(False)
            I.ghost["status_category"] = cat
            return (cat, "")
        ke = I._num(k, "int")
        for cat in self.CATS:
            if I.branch(SV(ST.category_is_z3(ke, cat), "bool"), "category of the listed status"):
                I.ghost["status_category"] = cat
                return (cat, "")
        I.assume(False)


SINGLE = {
    # name: (qualname, request class, event, handler returns a pair?, code for a handler exception, reply-data attribute)
    "n_action": (f"{SC}:ServiceClass._n_action_scp", "N_ACTION", "EVT_N_ACTION", True, 0x0110, "ActionReply"),
    "n_create": (f"{SC}:ServiceClass._n_create_scp", "N_CREATE", "EVT_N_CREATE", True, 0x0110, "AttributeList"),
    "n_delete": (f"{SC}:ServiceClass._n_delete_scp", "N_DELETE", "EVT_N_DELETE", False, 0x0110, None),
    "n_event_report": (f"{SC}:ServiceClass._n_event_report_scp", "N_EVENT_REPORT", "EVT_N_EVENT_REPORT", True, 0x0110, "EventReply"),
    "n_get": (f"{SC}:ServiceClass._n_get_scp", "N_GET", "EVT_N_GET", True, 0x0110, "AttributeList"),
    "n_set": (f"{SC}:ServiceClass._n_set_scp", "N_SET", "EVT_N_SET", True, 0x0110, "AttributeList"),
    "c_store": (f"{SC}:StorageServiceClass.SCP", "C_STORE", "EVT_C_STORE", False, 0xC211, None),
    "c_echo": (f"{SC}:VerificationServiceClass.SCP", "C_ECHO", "EVT_C_ECHO", False, 0x0000, None),
}
REPLY_KINDS = ["None", "dataset-encodable", "dataset-unencodable", "empty-dataset", "not-a-dataset"]


class SingleScpTask(Task):
    """an SCP that answers with exactly one response: adversarial handler (raises | returns any value)"""
    shard = True

    def __init__(self, which):
        self.which = which
        self.fn, self.req_cls, self.event, self.pair, self.exc_status, self.reply_attr = SINGLE[which]
        self.name = self.fn.split(":")[1]
        self.functions = [self.fn, VALID, f"{SC}:attempt.__enter__", f"{SC}:attempt.__exit__"]

    def config(self, repo):
        c = svc_config("C20/")
        task = self

        def trigger(I, args, kw):
            g = I.ghost
            I.trace.append(Ev("handler", (args[1].fields.get("name"), args[2])))
            if I.choose(2, "handler returns or raises") == 1:
                g["handler"] = "raised"
                raise PyRaise(ExcVal("Exception", ("handler failed",)))
            g["handler"] = "returned"
            sk = I.choose(len(STATUS_KINDS), "status kind")
            st = I.input("int", "handler_status")
            g["handler_status"], g["status_kind"] = st, sk
            status = handler_status_value(I, sk, st)
            if not task.pair:
                g["shape"] = "status"
                return status
            shape = I.choose(4, "shape of the handler's return value")
            g["shape"] = ["pair", "None", "bare-status", "3-tuple"][shape]
            if shape == 1:
                return None
            if shape == 2:
                return status
            if shape == 3:
                return (status, None, None)
            dk = I.choose(len(REPLY_KINDS), "reply dataset kind")
            g["reply_kind"] = dk
            uid_ = Env("the-reply's-AffectedSOPInstanceUID", cls="str")      # any text the handler put there, not a particular UID
            uid_.truth = True
            ds = [None, DatasetV([("PatientName", "x"), ("AffectedSOPInstanceUID", uid_)]), DatasetV([("PatientID", "y")]), DatasetV([]),
                  "not a dataset"][dk]
            g["reply"] = ds
            return (status, ds)
        c.summaries["pynetdicom.events:trigger"] = trigger

        def enc(I, args, kw):
            I.trace.append(Ev("encode", tuple(args)))
            d = args[0]
            if d is I.ghost.get("reply") and I.ghost.get("reply_kind") == 1:
                lb = ghost_bytes(I, "encoded_reply", 1)[2]
                I.ghost["encoded_lb"] = lb
                return lb
            return None
        c.summaries["pynetdicom.dsutils:encode"] = enc
        base_bio = c.ext_models["io.BytesIO"]

        def bio(I, a, k):
            e = base_bio(I, a, k)
            if a and a[0] is I.ghost.get("encoded_lb"):
                e.data["source"] = I.ghost.get("reply")
            return e
        c.ext_models["io.BytesIO"] = bio
        c.ext_models["os.unlink"] = lambda I, a, k: None
        return c

    def body(self, I):
        g = I.ghost
        P = f"C20/{self.fn}"
        Q = f"C21/{self.fn}"
        cls = {"c_store": "StorageServiceClass", "c_echo": "VerificationServiceClass"}.get(self.which, "ServiceClass")
        me = mk_svc(I, cls)
        if self.which != "c_echo":
            me.attrs["statuses"] = AnyStatusTable()
        else:
            me.attrs["statuses"] = StatusTableV(I.module_ns(I.repo.module("pynetdicom.status"))["VERIFICATION_SERVICE_CLASS_STATUS"])
        req, mid = mk_request(I, self.req_cls)
        has_inst = I.choose(2, "request has an Affected/Requested SOP Instance UID") == 0
        inst = UIDv(I.input("int", "sop_instance").e) if has_inst else None
        req.fields.update(_requested_sop_class_uid=req.fields["_affected_sop_class_uid"], _requested_sop_instance_uid=inst,
                          _affected_sop_instance_uid=inst, _action_type_id=I.input("int", "action_type"),
                          _event_type_id=I.input("int", "event_type"))
        for nm in ("action_type", "event_type"):
            I.assume(z3.And(I.inputs[nm] >= 0, I.inputs[nm] <= 65535))
        cx, cid = mk_context(I)
        g["mid"], g["cid"] = mid, cid
        kind, val = I.run_function(I.repo.func(self.fn), [me, req, cx])
        T = f"[handler-returns-{g.get('shape')}-instead-of-a-(status,dataset)-pair]" if g.get("shape") in ("None", "bare-status", "3-tuple") else ""
        if kind == "raise":
            I.ob(f"{P}/no-exception-escapes-the-SCP-(it-would-end-in-an-abort-without-a-final-response){T}", False, detail=f"{val!r}")
            return
        I.ob(f"{P}/no-exception-escapes-the-SCP-(it-would-end-in-an-abort-without-a-final-response){T}", True)
        sends = [e for e in I.trace if e.name == "send_msg"]
        hs = [e for e in I.trace if e.name == "handler"]
        I.ob(f"{P}/the-handler-is-invoked-exactly-once-with-the-request", len(hs) == 1 and hs[0].args[0] == self.event)
        I.ob(f"{P}/at-most-one-response{T}", len(sends) <= 1, detail=f"{len(sends)} responses")
        if not sends:
            I.ob(f"{P}/the-response-may-be-missing-only-if-the-association-is-no-longer-established{T}", not_established_seen(I))
            return
        snap, sent_cx = sends[0].args
        st = snap.get("_status")
        I.ob(f"{P}/every-response-has-a-status{T}", st is not None)
        if st is None:
            return
        s = I._num(st, "int")
        I.ob(f"{P}/every-response-status-is-encodable-(0..65535){T}", z3.And(s >= 0, s <= 65535))
        I.ob(f"{P}/every-response-carries-the-requests-message-id-and-context{T}",
             z3.And(_b(I.eq(snap.get("_message_id_being_responded_to"), mid)), _b(I.eq(sent_cx, cid))))
        # ---- C21: which status / data goes out for which handler value
        if g.get("handler") == "raised":
            I.ob(f"{Q}/a-handler-exception-gives-the-documented-status-0x{self.exc_status:04X}", s == self.exc_status)
            return
        sk = g.get("status_kind")
        hsv = g["handler_status"].e
        inr = z3.And(hsv >= 0, hsv <= 65535)
        shape = g.get("shape")
        if shape not in ("pair", "status"):
            return          # a malformed return value: C20 requires a response; which failure code it carries is not documented
        if self.which == "c_echo":
            # documented: anything that is not an int / a dataset with Status gives the default Success
            if sk in (0, 1, 4):
                I.ob(f"{Q}/response-status-is-the-handlers-status-(Success-when-it-is-not-a-16-bit-value)", z3.If(inr, s == hsv, s == 0))
            else:
                I.ob(f"{Q}/an-invalid-status-value-gives-the-default-Success", s == 0)
            return
        enc_calls = [e for e in I.trace if e.name == "encode"]
        rk = g.get("reply_kind")
        unenc = bool(enc_calls) and rk != 1
        if sk in (0, 1, 4):
            if unenc:
                I.ob(f"{Q}/an-unencodable-reply-dataset-gives-0x0110", z3.Implies(inr, s == 0x0110))
            elif self.which == "n_create" and not has_inst and rk != 1:
                # N-CREATE without an instance UID in the request and none supplied in the handler's dataset: a Success status
                # (listed in the service's table) is replaced by the documented failure 0x0110; everything else passes through
                unlisted = z3.Or(*[z3.Not(v) for v in me.attrs["statuses"].known.values()]) if me.attrs["statuses"].known else z3.BoolVal(False)
                I.ob(f"{Q}/response-status-is-the-handlers-status-(0x0110-when-a-successful-N-CREATE-names-no-SOP-instance)",
                     z3.Implies(inr, z3.If(hsv == 0, z3.Or(s == 0x0110, z3.And(s == 0, unlisted)), s == hsv)))
            else:
                I.ob(f"{Q}/response-status-is-the-handlers-status", z3.Implies(inr, s == hsv))
            I.ob(f"{Q}/an-integer-outside-0..65535-gives-0xC002", z3.Implies(z3.Not(inr), s == 0xC002))
        elif sk == 2:
            I.ob(f"{Q}/dataset-without-Status-gives-0xC001", s == 0xC001)
        else:
            I.ob(f"{Q}/invalid-status-type-gives-0xC002", s == 0xC002)
        # the data that goes out is the handler's dataset object, encoded with the context's transfer syntax
        if self.reply_attr:
            data = snap.get("_dataset")
            if isinstance(data, Env) and data.kind == "BytesIO":
                I.ob(f"{Q}/reply-data-is-the-handlers-dataset-encoded-with-the-contexts-transfer-syntax",
                     data.data.get("source") is g.get("reply") and len(enc_calls) == 1 and enc_calls[0].args[0] is g.get("reply")
                     and self._flags_of_context(I, enc_calls[0], cx))
            for e in enc_calls:
                I.ob(f"{Q}/only-the-handlers-dataset-is-encoded", e.args[0] is g.get("reply"))

    @staticmethod
    def _flags_of_context(I, ev, cx):
        ts = cx.fields["_transfer_syntax"][0]
        flags = ev.args[1:4]
        want = [I.getattr(ts, n) for n in ("is_implicit_VR", "is_little_endian", "is_deflated")]
        return len(flags) == 3 and all(isinstance(f, SV) and isinstance(w, SV) and f.e.eq(w.e) for f, w in zip(flags, want))


# ---------------------------------------------------------------------------------------------
# Relevant Patient Information Query: its own C-FIND SCP (at most one match)   (C20, C21)
# ---------------------------------------------------------------------------------------------
RPI = f"{SC}:RelevantPatientInformationQueryServiceClass.SCP"


class OneShotGen:
    """the handler's generator, consumed with a single next()"""

    def truth(self, I):
        return True

    def sym_next(self, I, default):
        g = I.ghost
        k = I.choose(4, "next(handler generator)")
        g["elem_kind"] = ["ok", "exhausted", "exception", "not-a-pair"][k]
        if k == 1:
            I.raise_("StopIteration")
        if k == 2:
            raise PyRaise(ExcVal("Exception", ("handler failed",)))
        if k == 3:
            return [None, 7, (1, 2, 3)][I.choose(3, "malformed")]
        sk = I.choose(len(STATUS_KINDS), "status kind")
        st = I.input("int", "handler_status")
        g["handler_status"], g["status_kind"] = st, sk
        dk = I.choose(3, "identifier kind")
        g["ident_kind"] = dk
        ident = [None, Env("identifier_encodable"), Env("identifier_unencodable")][dk]
        return (handler_status_value(I, sk, st), ident)


class RelevantPatientTask(Task):
    name = "RelevantPatientInformationQueryServiceClass.SCP"
    functions = [RPI, VALID]
    shard = True

    def config(self, repo):
        c = svc_config("C20/")

        def trigger(I, args, kw):
            I.trace.append(Ev("handler", (args[1].fields.get("name"), args[2])))
            k = I.choose(4, "handler call")
            if k == 1:
                raise PyRaise(ExcVal("Exception", ("handler failed",)))
            if k == 2:
                return None
            if k == 3:
                return 5
            return OneShotGen()
        c.summaries["pynetdicom.events:trigger"] = trigger

        def enc(I, args, kw):
            d = args[0]
            if isinstance(d, Env) and d.path == "identifier_encodable":
                return ghost_bytes(I, "encoded_identifier", 1)[2]
            return b""
        c.summaries["pynetdicom.dsutils:encode"] = enc
        c.summaries["pynetdicom.dsutils:decode"] = lambda I, a, k: Env("decoded_request_identifier")
        return c

    def body(self, I):
        g = I.ghost
        P = f"C20/{RPI}"
        me = mk_svc(I, "RelevantPatientInformationQueryServiceClass", "RELEVANT_PATIENT_SERVICE_CLASS_STATUS")
        req, mid = mk_request(I, "C_FIND")
        cx, cid = mk_context(I)
        g["mid"], g["cid"] = mid, cid
        kind, val = I.run_function(I.repo.func(RPI), [me, req, cx])
        if kind == "raise":
            I.ob(f"{P}/no-exception-escapes-the-SCP-(it-would-end-in-an-abort-without-a-final-response)", False, detail=f"{val!r}")
            return
        I.ob(f"{P}/no-exception-escapes-the-SCP-(it-would-end-in-an-abort-without-a-final-response)", True)
        g["phase"] = "single"
        check_responses(I, P, mid, cid, "ended", repo_query=z3.BoolVal(False), allow_no_final=not_established_seen(I))
        hs = [e for e in I.trace if e.name == "handler"]
        I.ob(f"{P}/the-handler-is-invoked-exactly-once-with-the-request", len(hs) == 1 and hs[0].args[0] == "EVT_C_FIND")
        sends = [e for e in I.trace if e.name == "send_msg"]
        I.ob(f"{P}/at-most-one-Pending-response-(the-service-returns-at-most-one-match)", len(sends) <= 2)
        # the abort() variant handed to the handler is restored on every path
        sets = [e.args[2] for e in I.trace if e.name == "setattr" and e.args[1] == "abort"]
        I.ob(f"{P}/the-blocking-abort-is-restored-after-the-handler-ran", bool(sets) and getattr(sets[-1], "path", "").endswith("_abort_blocking"),
             detail=repr(sets[-1:]))
        if sends and g.get("elem_kind") == "ok":
            s = I._num(sends[0].args[0]["_status"], "int")
            sk, dk = g["status_kind"], g["ident_kind"]
            hsv = g["handler_status"].e
            if sk in (0, 1, 4):
                # 0xFF01 is of the Pending category but not defined for this service (its table lists 0xFF00 only): it cannot
                # be sent as the last response (C20) and is answered as an invalid status
                pend_unenc = z3.And(hsv == 0xFF00, z3.BoolVal(dk != 1))
                I.ob(f"C21/{RPI}/response-status-is-the-handlers-status-(or-0xC312-for-an-unencodable-pending-identifier)",
                     z3.Implies(z3.And(hsv >= 0, hsv <= 65535, hsv != 0xFF01), z3.If(pend_unenc, s == 0xC312, s == hsv)))
                I.ob(f"C21/{RPI}/a-Pending-status-the-service-does-not-define-gives-0xC002", z3.Implies(hsv == 0xFF01, s == 0xC002))
            elif sk == 2:
                I.ob(f"C21/{RPI}/dataset-without-Status-gives-0xC001", s == 0xC001)
            else:
                I.ob(f"C21/{RPI}/invalid-status-type-gives-0xC002", s == 0xC002)
        if sends and g.get("elem_kind") == "exception":
            I.ob(f"C21/{RPI}/handler-exception-gives-0xC311", I._num(sends[-1].args[0]["_status"], "int") == 0xC311)


# ---------------------------------------------------------------------------------------------
# the dispatching SCP methods of every service class   (C20)
# ---------------------------------------------------------------------------------------------
IMPL_FOR = {"C_FIND": "_c_find_scp", "C_GET": "_get_scp", "C_MOVE": "_move_scp", "N_ACTION": "_n_action_scp", "N_CREATE": "_n_create_scp",
            "N_DELETE": "_n_delete_scp", "N_EVENT_REPORT": "_n_event_report_scp", "N_GET": "_n_get_scp", "N_SET": "_n_set_scp"}
REQ_CLASSES = ["C_ECHO", "C_STORE", "C_FIND", "C_GET", "C_MOVE", "N_ACTION", "N_CREATE", "N_DELETE", "N_EVENT_REPORT", "N_GET", "N_SET"]
QR_TABLE = {"_c_find_scp": "QR_FIND_SERVICE_CLASS_STATUS", "_get_scp": "QR_GET_SERVICE_CLASS_STATUS", "_move_scp": "QR_MOVE_SERVICE_CLASS_STATUS"}


def dispatcher_classes(repo):
    out = []
    for modn in (SC, "pynetdicom.service_class_n"):
        m = repo.module(modn)
        for cn, ci in m.classes.items():
            if "SCP" in ci.methods and cn not in ("ServiceClass", "VerificationServiceClass", "StorageServiceClass",
                                                  "RelevantPatientInformationQueryServiceClass"):
                out.append((modn, cn))
    return out


class DispatchTask(Task):
    """<ServiceClass>.SCP(req, context): hands the request to exactly one implementation - the one for the request's
    DIMSE type - with the request and context unchanged, or raises ValueError (the request type is not valid for the
    service); it sends nothing itself"""

    def __init__(self, modn, cn):
        self.modn, self.cn = modn, cn
        self.fn = f"{modn}:{cn}.SCP"
        self.name = f"{cn}.SCP"
        self.functions = [self.fn]

    def config(self, repo):
        c = svc_config("C20/")
        for impl in IMPL_FOR.values():
            owner = "QueryRetrieveServiceClass" if impl in ("_get_scp", "_move_scp") else "ServiceClass"

            def summary(I, args, kw, impl=impl):
                I.trace.append(Ev("impl", (impl, args[0], args[1], args[2], I.getattr(args[0], "statuses"))))
                return None
            c.summaries[f"{SC}:{owner}.{impl}"] = summary
        return c

    def body(self, I):
        P = f"C20/{self.fn}"
        ci = I.repo.cls(f"{self.modn}:{self.cn}")
        me = Env("svc", cls=ci)
        me.attrs["assoc"] = Env("svc.assoc")
        rc = REQ_CLASSES[I.choose(len(REQ_CLASSES), "request type")]
        req = Obj(I.repo.cls(f"{DP}:{rc}"), tag="request")
        cx, cid = mk_context(I)
        kind, val = I.run_function(I.repo.func(self.fn), [me, req, cx])
        calls = [e for e in I.trace if e.name == "impl"]
        sends = [e for e in I.trace if e.name == "send_msg"]
        I.ob(f"{P}/the-dispatcher-sends-nothing-itself", not sends)
        if kind == "raise":
            I.ob(f"{P}/a-request-it-does-not-serve-raises-ValueError-before-anything-is-invoked",
                 val.cls_name == "ValueError" and not calls, detail=f"{rc}: {val!r}")
            return
        I.ob(f"{P}/exactly-one-implementation-is-invoked-for-a-request-it-serves", len(calls) == 1, detail=f"{rc}: {len(calls)} calls")
        if len(calls) != 1:
            return
        impl, slf, r, c_, table = calls[0].args
        I.ob(f"{P}/the-implementation-matches-the-requests-DIMSE-type", IMPL_FOR.get(rc) == impl, detail=f"{rc} -> {impl}")
        I.ob(f"{P}/request-and-context-are-passed-on-unchanged", slf is me and r is req and c_ is cx)
        if self.cn == "QueryRetrieveServiceClass":
            want = I.module_ns(I.repo.module("pynetdicom.status"))[QR_TABLE[impl]]
            I.ob(f"{P}/the-status-table-of-the-operation-is-selected-before-the-implementation-runs", table is want or table == want)


def find_scp_tables(repo):
    """status tables of the service classes whose SCP dispatches C-FIND requests to ServiceClass._c_find_scp (read from the
    AST: the class attribute `statuses`; QueryRetrieveServiceClass.SCP selects QR_FIND_SERVICE_CLASS_STATUS itself, which
    DispatchTask proves)"""
    out = ["QR_FIND_SERVICE_CLASS_STATUS"]
    for modn, cn in dispatcher_classes(repo):
        ci = repo.cls(f"{modn}:{cn}")
        src = ast.unparse(ci.methods["SCP"].node)
        if "_c_find_scp" in src and cn != "QueryRetrieveServiceClass":
            expr = ci.attrs.get("statuses")
            if expr is None or not isinstance(expr, ast.Name):
                raise Unsupported(f"{cn}.statuses is not a module-level table name")
            if expr.id not in out:
                out.append(expr.id)
    return out

"""C21 — handler results map to response status and data as documented."""
from contracts import svc as S

PROPERTY = "C21"
LEVEL = "proof"
# work in progress: the stream-inductive contracts in contracts/svc.py still leave obligations of this property failing or
# undecided that have not been triaged (replayed on the real code), and a quick run takes 1-8 minutes; the property is
# therefore NOT claimed in MANIFEST.json (tools/gen_manifest.py lists it under not_applicable).  `./check C21` runs it.
CLAIMED = True
NA_REASON = ("contracts for this property (contracts/svc.py) are work in progress: some obligations still fail or are undecided and "
             "have not been triaged by replay on the real code, so the check is not registered; not claimed (DESIGN.md section 10)")
ASSUMPTIONS = [
    "handler values range over: int, dataset with Status (and optional status elements), dataset without Status, other types",
    "dsutils.encode returns the encoding of the dataset in the given transfer syntax or None (pydicom, external)",
]
NOT_DECIDED = ["that the encoded bytes decode to an equal dataset at the requestor (pydicom codec, external)"]


def tasks(tier):
    from contracts.C25 import EncodeFailureTask
    return [EncodeFailureTask("C21/"), S.ValidateStatusTask("C21/"), S.FindScpTask("C20/")] + [S.SingleScpTask(w) for w in S.SINGLE] + [S.RelevantPatientTask()] + [S.GetMoveScpTask('get'), S.GetMoveScpTask('move')]


def replay(rec):
    from pyvc.replay import run_replay
    return run_replay("C21", rec)


LEVEL_TEXT = "contracts on validate_status and on the status/identifier each SCP sends for each kind of handler value"
LEVEL_NOTE = "trusted: pyvc, z3, environment model"
TECHNIQUE = "deductive: postconditions on validate_status and per-response effect-trace contracts on the SCP implementations (AST->VC, z3)"

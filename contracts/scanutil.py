"""Shared by the syntactic site scans ("X happens only in these functions"): a site inside a PRIVATE helper whose every caller is -
directly or through further private helpers - one of the functions the scan knows belongs to those functions: their symbolic
contracts execute the helper.  Without this a harmless "extract a helper" refactoring is a false alarm (refactorings O_5, P_4)."""
import ast
import os


def library_functions(exclude=("tests", "benchmarks", "apps")):
    """yield (file name, FunctionDef) for every function of the library"""
    from pyvc.repo import REPO_ROOT
    for dp, dn, fns in os.walk(os.path.join(REPO_ROOT, "pynetdicom")):
        if any(x in dp.split(os.sep) for x in exclude):
            continue
        for fn in sorted(fns):
            if fn.endswith(".py"):
                tree = ast.parse(open(os.path.join(dp, fn), encoding="utf-8").read())
                for f in ast.walk(tree):
                    if isinstance(f, (ast.FunctionDef, ast.AsyncFunctionDef)):
                        yield fn, f


def callers_by_name(exclude=("tests", "benchmarks", "apps")):
    """callee name -> {(file, calling function)} (calls are matched by name: f(...) or x.f(...); an over-approximation of the callers)"""
    out = {}
    for fn, f in library_functions(exclude):
        for n in ast.walk(f):
            if isinstance(n, ast.Call):
                nm = n.func.attr if isinstance(n.func, ast.Attribute) else (n.func.id if isinstance(n.func, ast.Name) else None)
                if nm:
                    out.setdefault(nm, set()).add((fn, f.name))
    return out


def roots_of(site, known, callers):
    """the known functions a site (file, function) belongs to, or None if some way of reaching it does not start in a known function"""
    seen, todo, roots = set(), [site], set()
    while todo:
        cur = todo.pop()
        if cur in known:
            roots.add(cur)
            continue
        if cur in seen:
            continue
        seen.add(cur)
        cs = {c for c in callers.get(cur[1], set()) if c != cur}
        if not cs or not cur[1].startswith("_") or cur[1].startswith("__"):
            return None
        todo += sorted(cs)
    return roots

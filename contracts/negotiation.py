"""Contracts on presentation-context negotiation (C10, C11, parts of C12/C13).

negotiate_as_acceptor is verified by induction over the proposed contexts: the loop contract of its
main loop states the per-context postcondition for an ARBITRARY proposed context against ARBITRARY
acceptor configuration and role proposals; list lengths (proposed contexts, supported contexts, transfer
syntaxes) are symbolic.  UIDs are abstract identities (only equality is used by the code); role settings
are enumerated exhaustively (5 proposals + none) x 9 acceptor settings and compared with the
PS3.7 D.3.3.4 role FUNCTION of spec/roles.py."""
import ast

import z3

from pyvc.task import Task, FiniteTask
from pyvc.interp import Interp, Config, LoopSpec
from pyvc.values import SV, Obj, Env, Ev, ExcVal, PyRaise, Unsupported, SymSeq
from pyvc.symcoll import SymMap, SortedView
from spec import roles as R

PR = "pynetdicom.presentation"
NEG_AC = f"{PR}:negotiate_as_acceptor"
NEG_RQ = f"{PR}:negotiate_as_requestor"
NEG_UN = f"{PR}:negotiate_unrestricted"


class UIDv:
    """abstract UID: an identity (z3 Int); str-like and UID-like for isinstance"""
    is_uid = True

    def __init__(self, ident):
        self.ident = ident

    def sym_kind(self):
        return "astr"

    def truth(self, I):
        return True

    def sym_eq(self, I, other):
        if isinstance(other, UIDv):
            return self.ident == other.ident
        return False

    def sym_len(self, I):
        n = I.fresh("int", "uidlen")
        I.assume(z3.And(n.e >= 1, n.e <= 64))
        return n

    def sym_getattr(self, I, name):
        if name in ("is_valid", "is_private", "is_transfer_syntax", "is_implicit_VR", "is_little_endian", "is_deflated",
                    "is_compressed"):
            return I.fresh("bool", f"uid.{name}")
        if name in ("name", "keyword"):
            return I.fresh("str", f"uid.{name}")
        return NotImplemented

    def sym_str(self, I):
        return self

    def __repr__(self):
        return f"UIDv({self.ident})"


def neg_config(prefix):
    c = Config()
    c.ob_prefix = prefix

    def set_uid(I, args, kw):
        v = args[0] if args else kw["value"]
        if isinstance(v, UIDv) or v is None:
            return v
        raise Unsupported("set_uid on a non-abstract UID in the negotiation contracts")
    c.summaries["pynetdicom.utils:set_uid"] = set_uid
    c.summaries["pynetdicom.utils:validate_uid"] = lambda I, a, k: True
    c.ext_models["pydicom.uid.UID"] = lambda I, a, k: a[0]
    return c


# ---------------------------------------------------------------------------------------------
# symbolic inputs
# ---------------------------------------------------------------------------------------------
def F(name, *sorts):
    return z3.Function(name, *sorts)


INT, BOOL = z3.IntSort(), z3.BoolSort()


def mk_inputs(I):
    """rq_contexts, ac_contexts (symbolic-length lists of real PresentationContext objects), roles map"""
    g = I.ghost
    cls = I.repo.cls(f"{PR}:PresentationContext")
    nrq = I.input("int", "n_proposed")
    nac = I.input("int", "n_supported")
    I.assume(z3.And(nrq.e >= 0, nrq.e <= 128, nac.e >= 0))
    cid, rq_ab, rq_tn, rq_ts = F("rq_id", INT, INT), F("rq_ab", INT, INT), F("rq_nts", INT, INT), F("rq_ts", INT, INT, INT)
    ac_ab, ac_tn, ac_ts = F("ac_ab", INT, INT), F("ac_nts", INT, INT), F("ac_ts", INT, INT, INT)
    MEM = F("proposed_ts", INT, INT, BOOL)          # MEM(r, t): transfer syntax t is in proposed context r's list
    g.update(nrq=nrq.e, nac=nac.e, cid=cid, rq_ab=rq_ab, rq_tn=rq_tn, rq_ts=rq_ts, ac_ab=ac_ab, ac_tn=ac_tn, ac_ts=ac_ts, MEM=MEM)
    g["ac_role_choice"] = {}
    g["rq_role_choice"] = {}

    def rq_elem(i):
        o = Obj(cls, tag=f"rq[{i}]")
        # requires: odd ids in 1..255, at least one transfer syntax per proposed context
        I.assume(z3.Implies(z3.And(i >= 0, i < nrq.e), z3.And(cid(i) >= 1, cid(i) <= 255, cid(i) % 2 == 1, rq_tn(i) >= 1,
                                                               MEM(i, rq_ts(i, 0)))))
        ts = SymSeq(f"rq[{i}].ts", rq_tn(i), lambda j, i=i: UIDv(rq_ts(i, j)),
                    contains=lambda I_, item, i=i: MEM(i, item.ident) if isinstance(item, UIDv) else False)
        o.fields.update(_context_id=SV(cid(i), "int"), _abstract_syntax=UIDv(rq_ab(i)), _transfer_syntax=ts, result=None,
                        _scu_role=None, _scp_role=None, _as_scp=None, _as_scu=None)
        o.rq_index = i
        return o

    def ac_elem(k):
        o = Obj(cls, tag=f"ac[{k}]")
        I.assume(z3.Implies(z3.And(k >= 0, k < nac.e), ac_tn(k) >= 1))
        ts = SymSeq(f"ac[{k}].ts", ac_tn(k), lambda j, k=k: UIDv(ac_ts(k, j)))
        o.fields.update(_context_id=None, _abstract_syntax=UIDv(ac_ab(k)), _transfer_syntax=ts, result=None,
                        _as_scp=None, _as_scu=None)
        o.ac_index = k
        # acceptor role settings: enumerated (None/True/False)^2, one choice per supported context looked at
        key = str(k)
        if key not in g["ac_role_choice"]:
            g["ac_role_choice"][key] = R.AC_SETTINGS[I.choose(9, "acceptor role setting")]
        o.fields["_scu_role"], o.fields["_scp_role"] = g["ac_role_choice"][key]
        return o
    rq = SymSeq("rq_contexts", nrq.e, rq_elem)
    ac = SymSeq("ac_contexts", nac.e, ac_elem)
    # roles: {abstract syntax: (scu, scp)} proposed by the requestor — a map with arbitrary domain
    has_roles = I.choose(2, "roles given") == 0
    if has_roles:
        nro = I.input("int", "n_roles")
        I.assume(nro.e >= 1)
        ro_ab = F("role_ab", INT, INT)

        def role_val(i):
            key = str(i)
            if key not in g["rq_role_choice"]:
                g["rq_role_choice"][key] = R.RQ_PROPOSALS[1 + I.choose(4, "requestor role proposal")]
            return g["rq_role_choice"][key]
        roles = SymMap(I, "roles", nro.e, lambda i: UIDv(ro_ab(i)), role_val)
    else:
        roles = None
    return rq, ac, roles


# ---------------------------------------------------------------------------------------------
# negotiate_as_acceptor
# ---------------------------------------------------------------------------------------------
def loops_of(fi):
    loops = [n for n in ast.walk(fi.node) if isinstance(n, (ast.For, ast.While))]
    loops.sort(key=lambda n: (n.lineno, n.col_offset))
    return loops


def ctx_var(loop):
    """name bound to `PresentationContext()` at the top of the loop body"""
    for st in loop.body:
        if isinstance(st, ast.Assign) and isinstance(st.value, ast.Call) and isinstance(st.value.func, ast.Name) \
                and st.value.func.id == "PresentationContext" and isinstance(st.targets[0], ast.Name):
            return st.targets[0].id
    raise Unsupported("no `x = PresentationContext()` in the loop body")


def accumulators(loop):
    """lists appended to / dicts stored into inside the loop body"""
    lists, dicts = [], []
    for n in ast.walk(ast.Module(body=loop.body, type_ignores=[])):
        if isinstance(n, ast.Call) and isinstance(n.func, ast.Attribute) and n.func.attr == "append" and isinstance(n.func.value, ast.Name):
            if n.func.value.id not in lists:
                lists.append(n.func.value.id)
        if isinstance(n, ast.Assign) and isinstance(n.targets[0], ast.Subscript) and isinstance(n.targets[0].value, ast.Name):
            if n.targets[0].value.id not in dicts:
                dicts.append(n.targets[0].value.id)
    return lists, dicts


class RejectAllLoop(LoopSpec):
    """acceptor supports nothing: every proposed context is answered with result 3"""

    def __init__(self, loop, P):
        self.loop, self.P = loop, P
        self.cv = ctx_var(loop)
        self.lists, self.dicts = accumulators(loop)
        self.k = None

    def invariant(self, I, fr):
        return True

    def havoc(self, I, fr):
        for nm in self.lists:
            fr.locals[nm] = []        # observe exactly this iteration's appends
        I.ghost["iter"] = "reject-all"

    def after_body(self, I, fr):
        g = I.ghost
        P = self.P
        r = z3.simplify(I._num(fr.locals["__idx0"], "int") - 1)
        res = fr.locals[self.lists[0]]
        ok = len(res) == 1 and isinstance(res[0], Obj)
        I.ob(f"{P}/no-supported-contexts:exactly-one-result-per-proposed-context", ok)
        if ok:
            c = res[0]
            I.ob(f"{P}/no-supported-contexts:result-3-with-proposed-id-and-abstract-syntax",
                 z3.And(_b(I.eq(c.fields["_context_id"], SV(g["cid"](r), "int"))),
                        _b(I.eq(c.fields["_abstract_syntax"], UIDv(g["rq_ab"](r)))), _b(I.eq(c.fields["result"], 3))))

    def on_exit(self, I, fr):
        g = I.ghost
        for nm in self.lists:
            fr.locals[nm] = SymSeq("results", g["nrq"], lambda i: I.opaque("result"))
        g["exit"] = "reject-all"


class MainLoop(LoopSpec):
    def __init__(self, loop, P):
        self.loop, self.P = loop, P
        self.cv = ctx_var(loop)
        self.lists, self.dicts = accumulators(loop)

    def invariant(self, I, fr):
        return True

    def havoc(self, I, fr):
        for nm in self.lists:
            fr.locals[nm] = []
        for nm in self.dicts:
            fr.locals[nm] = {}
        I.ghost["iter"] = "main"
        I.ghost["inner"] = None

    def on_exit(self, I, fr):
        g = I.ghost
        for nm in self.lists:
            fr.locals[nm] = SymSeq("results", g["nrq"], lambda i: I.opaque("result"))
        for nm in self.dicts:
            n = I.fresh("int", "n_replies")
            I.assume(n.e >= 0)
            fr.locals[nm] = SymMap(I, "reply_roles", n.e, lambda i: I.opaque("k"), lambda i: I.opaque("reply"))
        g["exit"] = "main"
        g["acc_names"] = (self.lists, self.dicts)

    def after_body(self, I, fr):
        g = I.ghost
        P = self.P
        r = z3.simplify(I._num(fr.locals["__idx1"], "int") - 1)
        res = fr.locals[self.lists[0]]
        replies = fr.locals[self.dicts[0]] if self.dicts else {}
        ctx = fr.locals.get(self.cv)
        ok = len(res) == 1 and res[0] is ctx and isinstance(ctx, Obj)
        I.ob(f"{P}/exactly-one-result-per-proposed-context", ok, detail=f"{len(res)} appended")
        if not ok:
            return
        f = ctx.fields
        I.ob(f"{P}/result-carries-the-proposed-id-and-abstract-syntax",
             z3.And(_b(I.eq(f["_context_id"], SV(g["cid"](r), "int"))), _b(I.eq(f["_abstract_syntax"], UIDv(g["rq_ab"](r))))))
        result = f.get("result")
        I.ob(f"{P}/result-is-0-1-3-or-4", result in (0, 1, 3, 4), detail=repr(result))
        # which supported context was looked up (membership Boolean b and witness w of the acceptor map)
        amap = g.get("acceptor_map")
        b, w = amap.witness(I, UIDv(g["rq_ab"](r))) if amap is not None else (None, None)
        supported = b.e if b is not None else z3.BoolVal(False)
        first_rq = UIDv(g["rq_ts"](r, 0))
        ts = f.get("_transfer_syntax")
        if result == 3:
            I.ob(f"{P}/result-3-exactly-when-abstract-syntax-not-supported", z3.Not(supported))
        else:
            I.ob(f"{P}/result-3-exactly-when-abstract-syntax-not-supported", supported, detail=f"result {result}")
        if result in (3, 4):
            I.ob(f"{P}/rejected-context-echoes-the-first-proposed-transfer-syntax",
                 isinstance(ts, list) and len(ts) == 1 and _b(I.eq(ts[0], first_rq)))
            I.ob(f"{P}/rejected-context-has-no-role", f.get("_as_scu") is False and f.get("_as_scp") is False)
            I.ob(f"{P}/no-role-reply-for-a-rejected-context", len(replies) == 0)
        inner = g.get("inner")
        if result == 4:
            # inner loop ran to exhaustion: no acceptor transfer syntax was proposed
            I.ob(f"{P}/result-4-exactly-when-no-supported-transfer-syntax-was-proposed", inner == "exhausted")
        if result in (0, 1):
            I.ob(f"{P}/accepted-only-after-a-common-transfer-syntax-was-found", inner == "running")
            if inner == "running":
                k = g["inner_k"]
                wv = w.e
                want = UIDv(g["ac_ts"](wv, k))
                none_before = z3.ForAll([J], z3.Implies(z3.And(J >= 0, J < k), z3.Not(g["MEM"](r, g["ac_ts"](wv, J)))))
                tsok = isinstance(ts, list) and len(ts) == 1
                I.ob(f"{P}/accepted-transfer-syntax-is-the-acceptors-first-preference-among-the-proposed-ones",
                     z3.And(_b(I.eq(ts[0], want)) if tsok else z3.BoolVal(False),
                            g["MEM"](r, g["ac_ts"](wv, k)), k >= 0, k < g["ac_tn"](wv), none_before))
            # roles
            ac_roles = g["ac_role_choice"].get(str(w.e)) if w is not None else None
            rq_prop = g.get("role_lookup", (None, None))
            want_roles = R.outcome(rq_prop, ac_roles)[2:]
            got_roles = (f.get("_as_scu"), f.get("_as_scp"))
            I.ob(f"{P}/roles-are-the-PS3.7-D.3.3.4-outcome", got_roles == want_roles,
                 detail=f"proposal {rq_prop} acceptor {ac_roles}: got {got_roles} want {want_roles}")
            I.ob(f"{P}/never-accepted-without-a-usable-role:result-1-iff-no-role",
                 (result == 1) == (got_roles == (False, False)), detail=f"result {result} roles {got_roles}")
            I.ob(f"{P}/never-grants-a-role-the-requestor-did-not-propose", _roles_within_proposal(got_roles, rq_prop),
                 detail=f"proposal {rq_prop}: acceptor roles {got_roles}")
            # reply item
            want_reply = R.reply(rq_prop, ac_roles) if (result == 0 and g.get("has_role_entry")) else None
            if want_reply is None:
                I.ob(f"{P}/role-reply-only-for-accepted-contexts-with-a-proposal-and-acceptor-roles", len(replies) == 0,
                     detail=f"{len(replies)} replies")
            else:
                okr = len(replies) == 1
                rep = next(iter(replies.values())) if okr else None
                okr = okr and isinstance(rep, Obj)
                I.ob(f"{P}/role-reply-only-for-accepted-contexts-with-a-proposal-and-acceptor-roles", okr)
                if okr:
                    got = (I.getattr(rep, "scu_role"), I.getattr(rep, "scp_role"))
                    I.ob(f"{P}/role-reply-is-proposal-AND-acceptor-setting:never-raised-from-0-to-1",
                         (bool(got[0]), bool(got[1])) == want_reply and _b(I.eq(I.getattr(rep, "sop_class_uid"), UIDv(g["rq_ab"](r)))) is not False,
                         detail=f"got {got} want {want_reply}")


J = z3.Int("J")


def _roles_within_proposal(got, prop):
    """the acceptor acts as SCP only towards a requestor SCU role etc.: acceptor as_scu needs the requestor to have
    proposed SCP, acceptor as_scp beyond the default needs SCU; the default (no negotiation) is (False, True)"""
    as_scu, as_scp = got
    if prop == (None, None):
        return got in ((False, True), (False, False))
    if as_scu and not prop[1]:
        return False
    if as_scp and not prop[0] and got != (False, True):
        return False
    return True


def _b(t):
    return z3.BoolVal(t) if isinstance(t, bool) else t


class InnerLoop(LoopSpec):
    """first-match search: `for ts in acceptor.transfer_syntax: if ts in proposed: ...; break`"""

    def __init__(self, k):
        self.k = k

    def _facts(self, I, fr):
        g = I.ghost
        i = I._num(fr.locals[f"__idx{self.k}"], "int")
        return i

    def invariant(self, I, fr):
        g = I.ghost
        i = self._facts(I, fr)
        r, w = I._num(fr.locals["__idx1"], "int"), g["cur_w"]
        return z3.ForAll([J], z3.Implies(z3.And(J >= 0, J < i), z3.Not(g["MEM"](r, g["ac_ts"](w, J)))))

    def havoc(self, I, fr):
        I.ghost["inner"] = "running"
        I.ghost["inner_k"] = I._num(fr.locals[f"__idx{self.k}"], "int")

    def on_exit(self, I, fr):
        I.ghost["inner"] = "exhausted"


class NegAcceptorTask(Task):
    name = "negotiate_as_acceptor"
    functions = [NEG_AC]

    def __init__(self, prefix="C10/"):
        self.prefix = prefix

    def config(self, repo):
        c = neg_config(self.prefix)
        fi = repo.func(NEG_AC)
        loops = loops_of(fi)
        P = f"{self.prefix}{NEG_AC}"
        # loop 0: reject-all branch; loop 1: main loop over proposed contexts; loop 2: transfer-syntax search
        if len(loops) != 3:
            raise Unsupported(f"negotiate_as_acceptor: expected 3 loops, found {len(loops)}")
        c.loop_specs[(NEG_AC, 0)] = RejectAllLoop(loops[0], P)
        self.main = MainLoop(loops[1], P)
        c.loop_specs[(NEG_AC, 1)] = self.main
        c.loop_specs[(NEG_AC, 2)] = InnerLoop(2)
        return c

    def body(self, I):
        P = f"{self.prefix}{NEG_AC}"
        g = I.ghost
        rq, ac, roles = mk_inputs(I)
        # hooks that record which lookups the body performs
        orig_query = SymMap._query

        def spy_query(self_, I_, k):
            b, w = orig_query(self_, I_, k)
            if self_.name != "roles" and isinstance(k, UIDv):
                g["acceptor_map"] = self_
                g["cur_w"] = w.e
            return b, w
        SymMap._query = spy_query
        orig_index = SymMap.sym_index

        def spy_index(self_, I_, k):
            if self_.name == "roles":
                try:
                    v = orig_index(self_, I_, k)
                except PyRaise:
                    g["has_role_entry"] = False
                    g["role_lookup"] = (None, None)
                    raise
                g["has_role_entry"] = True
                g["role_lookup"] = v
                return v
            return orig_index(self_, I_, k)
        SymMap.sym_index = spy_index
        try:
            g["has_role_entry"] = False
            g["role_lookup"] = (None, None)
            # the outer index of the current proposed context (for the inner loop's invariant)
            orig_elem = rq.elem

            def elem(i):
                o = orig_elem(i)
                g["cur_r"] = i
                return o
            rq.elem = elem
            kind, val = I.run_function(I.repo.func(NEG_AC), [rq, ac, roles])
        finally:
            SymMap._query = orig_query
            SymMap.sym_index = orig_index
        I.ob(f"{P}/no-exception", kind == "return", detail=f"{kind}:{val!r}")
        if kind != "return":
            return
        ok = isinstance(val, tuple) and len(val) == 2
        I.ob(f"{P}/returns-(results,replies)", ok)
        if not ok:
            return
        results, replies = val
        how = g.get("exit")
        if how is None:
            # no loop ran: empty proposal list
            I.ob(f"{P}/empty-proposal-list-gives-empty-results", I.valid(g["nrq"] == 0) and results == [] and replies == [])
        elif how == "reject-all":
            I.ob(f"{P}/no-supported-contexts:returns-the-result-list-and-no-replies",
                 isinstance(results, SymSeq) and results.name == "results" and replies == [])
        else:
            sorted_ok = isinstance(results, SortedView) and isinstance(results.seq, SymSeq) and results.seq.name == "results"
            if sorted_ok:
                probe = Obj(I.repo.cls(f"{PR}:PresentationContext"))
                pid = I.fresh("int", "probe_id")
                probe.fields.update(_context_id=pid)
                keyv = I.call_value(results.key, [probe], {}) if results.key is not None else None
                sorted_ok = keyv is pid
            I.ob(f"{P}/results-are-all-per-context-results-sorted-by-context-id", sorted_ok)
            I.ob(f"{P}/replies-are-the-collected-role-replies", isinstance(replies, SortedView) or replies == [])


# ---------------------------------------------------------------------------------------------
# SCP_SCU_ROLES table vs role function (exhaustive)
# ---------------------------------------------------------------------------------------------
class RoleTableTask(FiniteTask):
    name = "SCP_SCU_ROLES/all-45-cells"
    functions = []

    def __init__(self, prefix="C10/"):
        self.prefix = prefix

    def check(self, repo, emit):
        I = Interp(repo, Config())
        T = I.module_ns(repo.module(PR))["SCP_SCU_ROLES"]
        P = f"{self.prefix}{PR}:SCP_SCU_ROLES"
        emit(f"{P}/has-exactly-the-5x9-cells", sorted(map(repr, T)) == sorted(map(repr, R.RQ_PROPOSALS)) and
             all(sorted(map(repr, row)) == sorted(map(repr, R.AC_SETTINGS)) for row in T.values()))
        for rq in R.RQ_PROPOSALS:
            bad = []
            for ac in R.AC_SETTINGS:
                got = T.get(rq, {}).get(ac)
                if got != R.outcome(rq, ac):
                    bad.append((ac, got, R.outcome(rq, ac)))
            emit(f"{P}/row-{rq}-equals-PS3.7-D.3.3.4-role-function", not bad, detail=bad, model={"bad": bad})
        # complementarity: the requestor may act as SCU exactly when the acceptor may act as SCP, and vice versa
        bad = [(rq, ac, o) for rq, row in T.items() for ac, o in row.items() if not (o[0] == o[3] and o[1] == o[2])]
        emit(f"{P}/every-cell-is-complementary", not bad, detail=bad[:5], model={"bad": bad[:5]})

"""Contracts on presentation-context negotiation (C10, C11, parts of C12/C13).

negotiate_as_acceptor is verified by induction over the proposed contexts: the loop contract of its
main loop states the per-context postcondition for an ARBITRARY proposed context against ARBITRARY
acceptor configuration and role proposals; list lengths (proposed contexts, supported contexts, transfer
syntaxes) are symbolic.  UIDs are abstract identities (only equality is used by the code); role settings
are enumerated exhaustively (5 proposals + none) x 9 acceptor settings and compared with the
PS3.7 D.3.3.4 role FUNCTION of spec/roles.py."""
import ast

import z3

from pyvc.task import Task, FiniteTask
from pyvc.interp import Interp, Config, LoopSpec
from pyvc.values import SV, Obj, Env, Ev, ExcVal, PyRaise, Unsupported, SymSeq
from pyvc.symcoll import SymMap, SortedView
from spec import roles as R

PR = "pynetdicom.presentation"
NEG_AC = f"{PR}:negotiate_as_acceptor"
NEG_RQ = f"{PR}:negotiate_as_requestor"
NEG_UN = f"{PR}:negotiate_unrestricted"


_LIT = {}


def lit_id(s):
    """identity of a literal UID string: distinct integers below -10**6 (symbolic identities range over all integers; the
    contracts' own constant identities are small)"""
    return _LIT.setdefault(s, -1000001 - len(_LIT))


EMPTY_UID = lit_id("")


def ts_uid(I, ident):
    """a transfer syntax held by a PresentationContext.  Class invariant of PresentationContext (requires): the empty UID is
    never in _transfer_syntax - add_transfer_syntax, its only writer, refuses it (TsInvariantTask proves that)."""
    I.assume(ident != EMPTY_UID)
    return UIDv(ident)


class UIDv:
    """abstract UID: an identity (z3 Int); str-like and UID-like for isinstance"""
    is_uid = True

    def __init__(self, ident):
        self.ident = ident

    def sym_kind(self):
        return "astr"

    def truth(self, I):
        return True

    def sym_eq(self, I, other):
        if isinstance(other, UIDv):
            return self.ident == other.ident
        if isinstance(other, str):
            return self.ident == lit_id(other)
        return False

    def sym_len(self, I):
        # a function of the UID value: 0 for the empty UID, 1..64 for every other UID the contracts range over
        n = SV(z3.Function("uid_len", z3.IntSort(), z3.IntSort())(self.ident), "int")
        I.assume(z3.If(self.ident == lit_id(""), n.e == 0, z3.And(n.e >= 1, n.e <= 64)))
        return n

    def sym_getattr(self, I, name):
        if name in ("is_valid", "is_private", "is_transfer_syntax", "is_implicit_VR", "is_little_endian", "is_deflated",
                    "is_compressed"):
            # a property of the UID VALUE: the same UID always answers the same (uninterpreted predicate of the identity)
            p = z3.Function(f"uid_{name}", z3.IntSort(), z3.BoolSort())(self.ident)
            if name == "is_valid":
                # assumed library contract (pydicom.uid.UID.is_valid): the empty string is not a valid UID
                I.assume(z3.Implies(self.ident == lit_id(""), z3.Not(p)))
            return SV(p, "bool")
        if name in ("name", "keyword"):
            return I.fresh("str", f"uid.{name}")
        return NotImplemented

    def sym_str(self, I):
        return self

    def __repr__(self):
        return f"UIDv({self.ident})"


def neg_config(prefix):
    c = Config()
    c.ob_prefix = prefix

    def set_uid(I, args, kw):
        v = args[0] if args else kw["value"]
        if isinstance(v, UIDv) or v is None:
            return v
        raise Unsupported("set_uid on a non-abstract UID in the negotiation contracts")
    c.summaries["pynetdicom.utils:set_uid"] = set_uid
    c.summaries["pynetdicom.utils:validate_uid"] = lambda I, a, k: True
    c.ext_models["pydicom.uid.UID"] = lambda I, a, k: a[0]
    return c


# ---------------------------------------------------------------------------------------------
# class invariant of PresentationContext used as a precondition by the negotiation contracts
# ---------------------------------------------------------------------------------------------
ADD_TS = f"{PR}:PresentationContext.add_transfer_syntax"


class TsInvariantTask(Task):
    """`'' not in self._transfer_syntax` is preserved by add_transfer_syntax (the only function that appends to the list;
    the setter resets it to [] and calls add_transfer_syntax per element, __init__ starts from []).  Two guards keep it: the
    real utils.validate_uid (executed here) rejects the empty UID in both configuration modes, and the `!= ""` test.  The list before the call
    holds 0..2 arbitrary non-empty UIDs (the invariant is per entry; the body reads the list only through `in`)."""
    name = "PresentationContext/transfer-syntax-list-never-holds-the-empty-UID"
    functions = [ADD_TS]

    def __init__(self, prefix="C10/"):
        self.prefix = prefix

    def config(self, repo):
        c = neg_config(self.prefix)
        # the REAL utils.validate_uid is executed here (the negotiation contracts summarise it as True: every UID that reaches
        # them has passed it), under either value of the configuration flag it reads
        del c.summaries["pynetdicom.utils:validate_uid"]
        c.module_consts[("pynetdicom._config", "ENFORCE_UID_CONFORMANCE")] = lambda I: I.ghost["enforce"]
        return c

    def body(self, I):
        P = f"{self.prefix}{ADD_TS}"
        I.ghost["enforce"] = I.choose(2, "_config.ENFORCE_UID_CONFORMANCE") == 1
        o = Obj(I.repo.cls(f"{PR}:PresentationContext"), tag="cx")
        n_old = I.choose(3, "entries already in the list")
        old = [ts_uid(I, I.input("int", f"held_{k}").e) for k in range(n_old)]
        o.fields.update(_context_id=None, _abstract_syntax=None, _transfer_syntax=list(old), result=None,
                        _scu_role=None, _scp_role=None, _as_scp=None, _as_scu=None)
        what = I.choose(3, "argument kind")
        arg = [UIDv(I.input("int", "syntax").e), None, 17][what]       # ANY UID identity (the empty one included), None, a non-str
        kind, val = I.run_function(I.repo.func(ADD_TS), [o, arg])
        lst = o.fields.get("_transfer_syntax")
        # whatever the call did (returned or raised): every entry of the list is a UID that is provably not the empty one
        ok = isinstance(lst, list) and all(isinstance(e, UIDv) and I.valid(e.ident != EMPTY_UID) for e in lst)
        I.ob(f"{P}/invariant:the-empty-UID-is-never-in-the-transfer-syntax-list", ok, detail=repr(lst))


# ---------------------------------------------------------------------------------------------
# symbolic inputs
# ---------------------------------------------------------------------------------------------
def F(name, *sorts):
    return z3.Function(name, *sorts)


INT, BOOL = z3.IntSort(), z3.BoolSort()


def mk_inputs(I):
    """rq_contexts, ac_contexts (symbolic-length lists of real PresentationContext objects), roles map"""
    g = I.ghost
    cls = I.repo.cls(f"{PR}:PresentationContext")
    nrq = I.input("int", "n_proposed")
    nac = I.input("int", "n_supported")
    I.assume(z3.And(nrq.e >= 0, nrq.e <= 128, nac.e >= 0))
    cid, rq_ab, rq_tn, rq_ts = F("rq_id", INT, INT), F("rq_ab", INT, INT), F("rq_nts", INT, INT), F("rq_ts", INT, INT, INT)
    ac_ab, ac_tn, ac_ts = F("ac_ab", INT, INT), F("ac_nts", INT, INT), F("ac_ts", INT, INT, INT)
    MEM = F("proposed_ts", INT, INT, BOOL)          # MEM(r, t): transfer syntax t is in proposed context r's list
    g.update(nrq=nrq.e, nac=nac.e, cid=cid, rq_ab=rq_ab, rq_tn=rq_tn, rq_ts=rq_ts, ac_ab=ac_ab, ac_tn=ac_tn, ac_ts=ac_ts, MEM=MEM)
    g["ac_role_choice"] = {}
    g["rq_role_choice"] = {}

    def rq_elem(i):
        o = Obj(cls, tag=f"rq[{i}]")
        # requires: odd ids in 1..255, at least one transfer syntax per proposed context
        I.assume(z3.Implies(z3.And(i >= 0, i < nrq.e), z3.And(cid(i) >= 1, cid(i) <= 255, cid(i) % 2 == 1, rq_tn(i) >= 1,
                                                               MEM(i, rq_ts(i, 0)))))
        ts = SymSeq(f"rq[{i}].ts", rq_tn(i), lambda j, i=i: ts_uid(I, rq_ts(i, j)),
                    contains=lambda I_, item, i=i: MEM(i, item.ident) if isinstance(item, UIDv) else False)
        o.fields.update(_context_id=SV(cid(i), "int"), _abstract_syntax=UIDv(rq_ab(i)), _transfer_syntax=ts, result=None,
                        _scu_role=None, _scp_role=None, _as_scp=None, _as_scu=None)
        o.rq_index = i
        return o

    def ac_elem(k):
        o = Obj(cls, tag=f"ac[{k}]")
        I.assume(z3.Implies(z3.And(k >= 0, k < nac.e), ac_tn(k) >= 1))
        ts = SymSeq(f"ac[{k}].ts", ac_tn(k), lambda j, k=k: ts_uid(I, ac_ts(k, j)))
        o.fields.update(_context_id=None, _abstract_syntax=UIDv(ac_ab(k)), _transfer_syntax=ts, result=None,
                        _as_scp=None, _as_scu=None)
        o.ac_index = k
        # acceptor role settings: enumerated (None/True/False)^2, one choice per supported context looked at
        key = str(k)
        if key not in g["ac_role_choice"]:
            g["ac_role_choice"][key] = R.AC_SETTINGS[I.choose(9, "acceptor role setting")]
        o.fields["_scu_role"], o.fields["_scp_role"] = g["ac_role_choice"][key]
        return o
    rq = SymSeq("rq_contexts", nrq.e, rq_elem)
    ac = SymSeq("ac_contexts", nac.e, ac_elem)
    # roles: {abstract syntax: (scu, scp)} proposed by the requestor — a map with arbitrary domain
    has_roles = I.choose(2, "roles given") == 0
    if has_roles:
        nro = I.input("int", "n_roles")
        I.assume(nro.e >= 1)
        ro_ab = F("role_ab", INT, INT)

        def role_val(i):
            key = str(i)
            if key not in g["rq_role_choice"]:
                g["rq_role_choice"][key] = R.RQ_PROPOSALS[1 + I.choose(4, "requestor role proposal")]
            return g["rq_role_choice"][key]
        roles = SymMap(I, "roles", nro.e, lambda i: UIDv(ro_ab(i)), role_val)
    else:
        roles = None
    return rq, ac, roles


# ---------------------------------------------------------------------------------------------
# negotiate_as_acceptor
# ---------------------------------------------------------------------------------------------
def loops_of(fi):
    loops = [n for n in ast.walk(fi.node) if isinstance(n, (ast.For, ast.While))]
    loops.sort(key=lambda n: (n.lineno, n.col_offset))
    return loops


def ctx_var(loop):
    """name bound to `PresentationContext()` at the top of the loop body"""
    for st in loop.body:
        if isinstance(st, ast.Assign) and isinstance(st.value, ast.Call) and isinstance(st.value.func, ast.Name) \
                and st.value.func.id == "PresentationContext" and isinstance(st.targets[0], ast.Name):
            return st.targets[0].id
    raise Unsupported("no `x = PresentationContext()` in the loop body")


class PriorDict(dict):
    """a dict accumulator at the head of an ARBITRARY iteration: it holds whatever earlier iterations stored (unknown), and -
    as a Python dict - the entries THIS iteration stores (which is what the per-iteration obligations look at).  Reading it
    must therefore not behave like reading an empty dict: membership of a key is (stored in this iteration) or an unknown
    Boolean 'an earlier iteration stored it' (memoised per key); reading a value of an earlier iteration is outside the
    abstraction."""

    def __init__(self, I, name):
        super().__init__()
        self._I, self._name, self._prior = I, name, []

    def sym_contains(self, I, k):
        now = I.contains(list(self.keys()), k)
        if now is True:
            return True
        for k0, b in self._prior:
            t = I.eq(k0, k)
            if t is True or (not isinstance(t, bool) and I.valid(t)):
                prior = b
                break
        else:
            I._fresh_n += 1
            prior = z3.Bool(f"stored-earlier({self._name})!{I._fresh_n}")
            self._prior.append((k, prior))
        return prior if now is False else z3.Or(now, prior)

    def truth(self, I):
        if len(self):
            return True
        I._fresh_n += 1
        return z3.Bool(f"non-empty({self._name})!{I._fresh_n}")


class PriorList(list):
    """a list accumulator at the head of an arbitrary iteration: the Python list holds what THIS iteration appends; its earlier
    content is unknown, so asking for its length / truth / membership is outside the abstraction"""

    def __init__(self, name):
        super().__init__()
        self._name = name

    def sym_contains(self, I, k):
        raise Unsupported(f"the loop body asks whether something is in the accumulator list `{self._name}` (its earlier content is abstracted)")

    def sym_len(self, I):
        raise Unsupported(f"the loop body reads the length of the accumulator list `{self._name}` (its earlier content is abstracted)")

    def truth(self, I):
        raise Unsupported(f"the loop body tests the accumulator list `{self._name}` (its earlier content is abstracted)")


def accumulators(loop):
    """lists appended to / dicts stored into inside the loop body"""
    lists, dicts = [], []
    for n in ast.walk(ast.Module(body=loop.body, type_ignores=[])):
        if isinstance(n, ast.Call) and isinstance(n.func, ast.Attribute) and n.func.attr == "append" and isinstance(n.func.value, ast.Name):
            if n.func.value.id not in lists:
                lists.append(n.func.value.id)
        if isinstance(n, ast.Assign) and isinstance(n.targets[0], ast.Subscript) and isinstance(n.targets[0].value, ast.Name):
            if n.targets[0].value.id not in dicts:
                dicts.append(n.targets[0].value.id)
    return lists, dicts


class RejectAllLoop(LoopSpec):
    """acceptor supports nothing: every proposed context is answered with result 3"""

    def __init__(self, loop, P):
        self.loop, self.P = loop, P
        self.cv = ctx_var(loop)
        self.lists, self.dicts = accumulators(loop)
        self.k = None

    def invariant(self, I, fr):
        return True

    def havoc(self, I, fr):
        for nm in self.lists:
            fr.locals[nm] = PriorList(nm)        # observe exactly this iteration's appends
        I.ghost["iter"] = "reject-all"

    def after_body(self, I, fr):
        g = I.ghost
        P = self.P
        r = z3.simplify(I._num(fr.locals["__idx0"], "int") - 1)
        res = fr.locals[self.lists[0]]
        ok = len(res) == 1 and isinstance(res[0], Obj)
        I.ob(f"{P}/no-supported-contexts:exactly-one-result-per-proposed-context", ok)
        if ok:
            c = res[0]
            I.ob(f"{P}/no-supported-contexts:result-3-with-proposed-id-and-abstract-syntax",
                 z3.And(_b(I.eq(c.fields["_context_id"], SV(g["cid"](r), "int"))),
                        _b(I.eq(c.fields["_abstract_syntax"], UIDv(g["rq_ab"](r)))), _b(I.eq(c.fields["result"], 3))))

    def on_exit(self, I, fr):
        g = I.ghost
        for nm in self.lists:
            fr.locals[nm] = SymSeq("results", g["nrq"], lambda i: I.opaque("result"))
        g["exit"] = "reject-all"


class MainLoop(LoopSpec):
    def __init__(self, loop, P):
        self.loop, self.P = loop, P
        self.cv = ctx_var(loop)
        self.lists, self.dicts = accumulators(loop)

    def invariant(self, I, fr):
        return True

    def havoc(self, I, fr):
        for nm in self.lists:
            fr.locals[nm] = PriorList(nm)
        for nm in self.dicts:
            fr.locals[nm] = PriorDict(I, nm)
        I.ghost["iter"] = "main"
        I.ghost["inner"] = None

    def on_exit(self, I, fr):
        g = I.ghost
        for nm in self.lists:
            fr.locals[nm] = SymSeq("results", g["nrq"], lambda i: I.opaque("result"))
        for nm in self.dicts:
            n = I.fresh("int", "n_replies")
            I.assume(n.e >= 0)
            fr.locals[nm] = SymMap(I, "reply_roles", n.e, lambda i: I.opaque("k"), lambda i: I.opaque("reply"))
            g["reply_map"] = fr.locals[nm]
        g["exit"] = "main"
        g["acc_names"] = (self.lists, self.dicts)

    def after_body(self, I, fr):
        g = I.ghost
        P = self.P
        r = z3.simplify(I._num(fr.locals["__idx1"], "int") - 1)
        res = fr.locals[self.lists[0]]
        replies = fr.locals[self.dicts[0]] if self.dicts else {}
        ctx = fr.locals.get(self.cv)
        ok = len(res) == 1 and res[0] is ctx and isinstance(ctx, Obj)
        I.ob(f"{P}/exactly-one-result-per-proposed-context", ok, detail=f"{len(res)} appended")
        if not ok:
            return
        f = ctx.fields
        I.ob(f"{P}/result-carries-the-proposed-id-and-abstract-syntax",
             z3.And(_b(I.eq(f["_context_id"], SV(g["cid"](r), "int"))), _b(I.eq(f["_abstract_syntax"], UIDv(g["rq_ab"](r))))))
        result = f.get("result")
        I.ob(f"{P}/result-is-0-1-3-or-4", result in (0, 1, 3, 4), detail=repr(result))
        # which supported context was looked up (membership Boolean b and witness w of the acceptor map)
        amap = g.get("acceptor_map")
        b, w = amap.witness(I, UIDv(g["rq_ab"](r))) if amap is not None else (None, None)
        supported = b.e if b is not None else z3.BoolVal(False)
        first_rq = UIDv(g["rq_ts"](r, 0))
        ts = f.get("_transfer_syntax")
        if result == 3:
            I.ob(f"{P}/result-3-exactly-when-abstract-syntax-not-supported", z3.Not(supported))
        else:
            I.ob(f"{P}/result-3-exactly-when-abstract-syntax-not-supported", supported, detail=f"result {result}")
        if result in (3, 4):
            I.ob(f"{P}/rejected-context-echoes-the-first-proposed-transfer-syntax",
                 isinstance(ts, list) and len(ts) == 1 and _b(I.eq(ts[0], first_rq)))
            I.ob(f"{P}/rejected-context-has-no-role", f.get("_as_scu") is False and f.get("_as_scp") is False)
            I.ob(f"{P}/no-role-reply-for-a-rejected-context", len(replies) == 0)
        inner = g.get("inner")
        if result == 4:
            # inner loop ran to exhaustion: no acceptor transfer syntax was proposed
            I.ob(f"{P}/result-4-exactly-when-no-supported-transfer-syntax-was-proposed", inner == "exhausted")
        if result in (0, 1):
            I.ob(f"{P}/accepted-only-after-a-common-transfer-syntax-was-found", inner == "running")
            if inner == "running":
                k = g["inner_k"]
                wv = w.e
                want = UIDv(g["ac_ts"](wv, k))
                none_before = z3.ForAll([J], z3.Implies(z3.And(J >= 0, J < k), z3.Not(g["MEM"](r, g["ac_ts"](wv, J)))))
                tsok = isinstance(ts, list) and len(ts) == 1
                I.ob(f"{P}/accepted-transfer-syntax-is-the-acceptors-first-preference-among-the-proposed-ones",
                     z3.And(_b(I.eq(ts[0], want)) if tsok else z3.BoolVal(False),
                            g["MEM"](r, g["ac_ts"](wv, k)), k >= 0, k < g["ac_tn"](wv), none_before))
            # roles
            ac_roles = g["ac_role_choice"].get(str(w.e)) if w is not None else None
            rq_prop = g.get("role_lookup", (None, None))
            want_roles = R.outcome(rq_prop, ac_roles)[2:]
            got_roles = (f.get("_as_scu"), f.get("_as_scp"))
            I.ob(f"{P}/roles-are-the-PS3.7-D.3.3.4-outcome", got_roles == want_roles,
                 detail=f"proposal {rq_prop} acceptor {ac_roles}: got {got_roles} want {want_roles}")
            I.ob(f"{P}/never-accepted-without-a-usable-role:result-1-iff-no-role",
                 (result == 1) == (got_roles == (False, False)), detail=f"result {result} roles {got_roles}")
            I.ob(f"{P}/never-grants-a-role-the-requestor-did-not-propose", _roles_within_proposal(got_roles, rq_prop),
                 detail=f"proposal {rq_prop}: acceptor roles {got_roles}")
            # reply item
            want_reply = R.reply(rq_prop, ac_roles) if (result == 0 and g.get("has_role_entry")) else None
            if want_reply is None:
                I.ob(f"{P}/role-reply-only-for-accepted-contexts-with-a-proposal-and-acceptor-roles", len(replies) == 0,
                     detail=f"{len(replies)} replies")
            else:
                okr = len(replies) == 1
                rep = next(iter(replies.values())) if okr else None
                okr = okr and isinstance(rep, Obj)
                I.ob(f"{P}/role-reply-only-for-accepted-contexts-with-a-proposal-and-acceptor-roles", okr)
                if okr:
                    got = (I.getattr(rep, "scu_role"), I.getattr(rep, "scp_role"))
                    I.ob(f"{P}/role-reply-is-proposal-AND-acceptor-setting:never-raised-from-0-to-1",
                         (bool(got[0]), bool(got[1])) == want_reply and _b(I.eq(I.getattr(rep, "sop_class_uid"), UIDv(g["rq_ab"](r)))) is not False,
                         detail=f"got {got} want {want_reply}")


J = z3.Int("J")


def _roles_within_proposal(got, prop):
    """the acceptor acts as SCP only towards a requestor SCU role etc.: acceptor as_scu needs the requestor to have
    proposed SCP, acceptor as_scp beyond the default needs SCU; the default (no negotiation) is (False, True)"""
    as_scu, as_scp = got
    if prop == (None, None):
        return got in ((False, True), (False, False))
    if as_scu and not prop[1]:
        return False
    if as_scp and not prop[0] and got != (False, True):
        return False
    return True


def _b(t):
    return z3.BoolVal(t) if isinstance(t, bool) else t


class InnerLoop(LoopSpec):
    """first-match search: `for ts in acceptor.transfer_syntax: if ts in proposed: ...; break`"""

    def __init__(self, k):
        self.k = k

    def _facts(self, I, fr):
        g = I.ghost
        i = I._num(fr.locals[f"__idx{self.k}"], "int")
        return i

    def invariant(self, I, fr):
        g = I.ghost
        i = self._facts(I, fr)
        r, w = I._num(fr.locals["__idx1"], "int"), g["cur_w"]
        return z3.ForAll([J], z3.Implies(z3.And(J >= 0, J < i), z3.Not(g["MEM"](r, g["ac_ts"](w, J)))))

    def havoc(self, I, fr):
        I.ghost["inner"] = "running"
        I.ghost["inner_k"] = I._num(fr.locals[f"__idx{self.k}"], "int")

    def on_exit(self, I, fr):
        I.ghost["inner"] = "exhausted"


class NegAcceptorTask(Task):
    name = "negotiate_as_acceptor"
    functions = [NEG_AC]

    def __init__(self, prefix="C10/"):
        self.prefix = prefix

    def config(self, repo):
        c = neg_config(self.prefix)
        fi = repo.func(NEG_AC)
        loops = loops_of(fi)
        P = f"{self.prefix}{NEG_AC}"
        # loop 0: reject-all branch; loop 1: main loop over proposed contexts; loop 2: transfer-syntax search
        if len(loops) != 3:
            raise Unsupported(f"negotiate_as_acceptor: expected 3 loops, found {len(loops)}")
        c.loop_specs[(NEG_AC, 0)] = RejectAllLoop(loops[0], P)
        self.main = MainLoop(loops[1], P)
        c.loop_specs[(NEG_AC, 1)] = self.main
        c.loop_specs[(NEG_AC, 2)] = InnerLoop(2)
        return c

    def body(self, I):
        P = f"{self.prefix}{NEG_AC}"
        g = I.ghost
        rq, ac, roles = mk_inputs(I)
        # hooks that record which lookups the body performs
        orig_query = SymMap._query

        def spy_query(self_, I_, k):
            b, w = orig_query(self_, I_, k)
            if self_.name != "roles" and isinstance(k, UIDv):
                g["acceptor_map"] = self_
                g["cur_w"] = w.e
            return b, w
        SymMap._query = spy_query
        orig_index = SymMap.sym_index

        def spy_index(self_, I_, k):
            if self_.name == "roles":
                try:
                    v = orig_index(self_, I_, k)
                except PyRaise:
                    g["has_role_entry"] = False
                    g["role_lookup"] = (None, None)
                    raise
                g["has_role_entry"] = True
                g["role_lookup"] = v
                return v
            return orig_index(self_, I_, k)
        SymMap.sym_index = spy_index
        try:
            g["has_role_entry"] = False
            g["role_lookup"] = (None, None)
            # the outer index of the current proposed context (for the inner loop's invariant)
            orig_elem = rq.elem

            def elem(i):
                o = orig_elem(i)
                g["cur_r"] = i
                return o
            rq.elem = elem
            kind, val = I.run_function(I.repo.func(NEG_AC), [rq, ac, roles])
        finally:
            SymMap._query = orig_query
            SymMap.sym_index = orig_index
        I.ob(f"{P}/no-exception", kind == "return", detail=f"{kind}:{val!r}")
        if kind != "return":
            return
        ok = isinstance(val, tuple) and len(val) == 2
        I.ob(f"{P}/returns-(results,replies)", ok)
        if not ok:
            return
        results, replies = val
        how = g.get("exit")
        if how is None:
            # no loop ran: empty proposal list
            I.ob(f"{P}/empty-proposal-list-gives-empty-results", I.valid(g["nrq"] == 0) and results == [] and replies == [])
        elif how == "reject-all":
            I.ob(f"{P}/no-supported-contexts:returns-the-result-list-and-no-replies",
                 isinstance(results, SymSeq) and results.name == "results" and replies == [])
        else:
            sorted_ok = isinstance(results, SortedView) and isinstance(results.seq, SymSeq) and results.seq.name == "results"
            if sorted_ok:
                probe = Obj(I.repo.cls(f"{PR}:PresentationContext"))
                pid = I.fresh("int", "probe_id")
                probe.fields.update(_context_id=pid)
                keyv = I.call_value(results.key, [probe], {}) if results.key is not None else None
                sorted_ok = keyv is pid
            I.ob(f"{P}/results-are-all-per-context-results-sorted-by-context-id", sorted_ok)
            # ALL the replies collected by the loop are returned (in some order): the returned sequence is a reordering of the
            # values of the loop's reply map - same length, nothing filtered out
            rm = g.get("reply_map")
            all_of_them = isinstance(replies, SortedView) and isinstance(replies.seq, SymSeq) and rm is not None \
                and replies.seq.name == f"{rm.name}.values" and getattr(replies.seq, "filter_of", None) is None \
                and I.valid(replies.seq.length == rm.n)
            I.ob(f"{P}/replies-are-the-collected-role-replies", all_of_them or (rm is None and replies == []),
                 detail=f"returned {getattr(getattr(replies, 'seq', None), 'name', replies)!r}")


# ---------------------------------------------------------------------------------------------
# SCP_SCU_ROLES table vs role function (exhaustive)
# ---------------------------------------------------------------------------------------------
class RoleTableTask(FiniteTask):
    name = "SCP_SCU_ROLES/all-45-cells"
    functions = []

    def __init__(self, prefix="C10/"):
        self.prefix = prefix

    def check(self, repo, emit):
        I = Interp(repo, Config())
        T = I.module_ns(repo.module(PR))["SCP_SCU_ROLES"]
        P = f"{self.prefix}{PR}:SCP_SCU_ROLES"
        emit(f"{P}/has-exactly-the-5x9-cells", sorted(map(repr, T)) == sorted(map(repr, R.RQ_PROPOSALS)) and
             all(sorted(map(repr, row)) == sorted(map(repr, R.AC_SETTINGS)) for row in T.values()))
        for rq in R.RQ_PROPOSALS:
            bad = []
            for ac in R.AC_SETTINGS:
                got = T.get(rq, {}).get(ac)
                if got != R.outcome(rq, ac):
                    bad.append((ac, got, R.outcome(rq, ac)))
            emit(f"{P}/row-{rq}-equals-PS3.7-D.3.3.4-role-function", not bad, detail=bad, model={"bad": bad})
        # complementarity: the requestor may act as SCU exactly when the acceptor may act as SCP, and vice versa
        bad = [(rq, ac, o) for rq, row in T.items() for ac, o in row.items() if not (o[0] == o[3] and o[1] == o[2])]
        emit(f"{P}/every-cell-is-complementary", not bad, detail=bad[:5], model={"bad": bad[:5]})


# ---------------------------------------------------------------------------------------------
# negotiate_unrestricted  (negotiate_as_acceptor by contract)
# ---------------------------------------------------------------------------------------------
class PartitionLoop(LoopSpec):
    """`for cx in rq_contexts: (storage | non_storage).append(cx)`: every proposed context goes to exactly one list"""

    def __init__(self, loop, P):
        self.P = P
        self.lists, _ = accumulators(loop)

    def havoc(self, I, fr):
        for nm in self.lists:
            fr.locals[nm] = PriorList(nm)
        I.ghost["iter"] = "partition"

    def after_body(self, I, fr):
        n = sum(len(fr.locals[nm]) for nm in self.lists)
        I.ob(f"{self.P}/partition:every-proposed-context-goes-to-exactly-one-of-the-two-lists", n == 1 and len(self.lists) == 2)

    def on_exit(self, I, fr):
        g = I.ghost
        # after the loop the two lists are arbitrary sub-sequences of the proposal list
        rq = g["rq_seq"]
        for k, nm in enumerate(self.lists):
            n = I.fresh("int", f"n_{nm}")
            I.assume(z3.And(n.e >= 0, n.e <= g["nrq"]))
            sel = z3.Function(f"sel_{k}", INT, INT)

            def elem(i, sel=sel, n=n):
                I.assume(z3.Implies(z3.And(i >= 0, i < n.e), z3.And(sel(i) >= 0, sel(i) < g["nrq"])))
                return rq.elem(sel(i))
            fr.locals[nm] = SymSeq(nm, n.e, elem)
            g.setdefault("sel", {})[nm] = (sel, n.e)


class StorageLoop(LoopSpec):
    def __init__(self, loop, P):
        self.loop, self.P = loop, P
        self.cv = ctx_var(loop)
        self.lists, self.dicts = accumulators(loop)

    def havoc(self, I, fr):
        for nm in self.lists:
            fr.locals[nm] = PriorList(nm)
        for nm in self.dicts:
            fr.locals[nm] = PriorDict(I, nm)
        I.ghost["iter"] = "storage"

    def on_exit(self, I, fr):
        g = I.ghost
        for nm in self.lists:
            fr.locals[nm] = SymSeq("results", g["nrq"], lambda i: I.opaque("result"))
        for nm in self.dicts:
            n = I.fresh("int", "n_replies")
            I.assume(n.e >= 0)
            fr.locals[nm] = SymMap(I, "reply_roles", n.e, lambda i: I.opaque("k"), lambda i: I.opaque("reply"))
        g["exit"] = "storage"

    def after_body(self, I, fr):
        g = I.ghost
        P = self.P
        res = fr.locals[self.lists[0]]
        replies = fr.locals[self.dicts[0]] if self.dicts else {}
        ctx = fr.locals.get(self.cv)
        src = fr.locals.get(self.loop.target.id) if isinstance(self.loop.target, ast.Name) else None
        ok = len(res) == 1 and res[0] is ctx and isinstance(ctx, Obj) and isinstance(src, Obj)
        I.ob(f"{P}/storage-like:exactly-one-result-per-proposed-context", ok)
        if not ok:
            return
        f, sf = ctx.fields, src.fields
        I.ob(f"{P}/storage-like:result-carries-the-proposed-id-and-abstract-syntax",
             z3.And(_b(I.eq(f["_context_id"], sf["_context_id"])), _b(I.eq(f["_abstract_syntax"], sf["_abstract_syntax"]))))
        ts = f.get("_transfer_syntax")
        first = sf["_transfer_syntax"].elem(z3.IntVal(0))
        I.ob(f"{P}/storage-like:accepted-with-the-first-proposed-transfer-syntax",
             f.get("result") == 0 and isinstance(ts, list) and len(ts) == 1 and _b(I.eq(ts[0], first)) is not False and
             I.valid(_b(I.eq(ts[0], first))))
        prop = g.get("role_lookup", (None, None)) if g.get("has_role_entry") else (None, None)
        want = R.outcome(prop, (True, True))[2:]
        got = (f.get("_as_scu"), f.get("_as_scp"))
        I.ob(f"{P}/storage-like:never-accepted-without-a-usable-role", not (f.get("result") == 0 and got == (False, False)),
             detail=f"proposal {prop}: result {f.get('result')} roles {got}")
        if g.get("has_role_entry"):
            I.ob(f"{P}/storage-like:roles-are-the-PS3.7-outcome-for-an-acceptor-supporting-both-roles", got == want,
                 detail=f"proposal {prop}: got {got} want {want}")
            okr = len(replies) == 1 and isinstance(next(iter(replies.values())), Obj)
            I.ob(f"{P}/storage-like:one-role-reply-for-a-proposal", okr)
            if okr:
                rep = next(iter(replies.values()))
                gr = (bool(I.getattr(rep, "scu_role")), bool(I.getattr(rep, "scp_role")))
                I.ob(f"{P}/storage-like:role-reply-never-raises-a-role", gr == R.reply(prop, (True, True)), detail=f"{gr}")
        else:
            I.ob(f"{P}/storage-like:without-a-role-proposal-the-default-roles-apply(requestor-SCU,acceptor-SCP)", got == want,
                 detail=f"no role proposal: acceptor roles (as_scu, as_scp) = {got}, PS3.7 default = {want}")
            I.ob(f"{P}/storage-like:no-role-reply-without-a-proposal", len(replies) == 0)


class NegUnrestrictedTask(Task):
    name = "negotiate_unrestricted"
    functions = [NEG_UN]

    def __init__(self, prefix="C10/"):
        self.prefix = prefix

    def config(self, repo):
        c = neg_config(self.prefix)
        fi = repo.func(NEG_UN)
        loops = loops_of(fi)
        P = f"{self.prefix}{NEG_UN}"
        if len(loops) != 2:
            raise Unsupported(f"negotiate_unrestricted: expected 2 loops, found {len(loops)}")
        c.loop_specs[(NEG_UN, 0)] = PartitionLoop(loops[0], P)
        c.loop_specs[(NEG_UN, 1)] = StorageLoop(loops[1], P)

        def neg_contract(I, args, kw):
            g = I.ghost
            g["normal_call"] = args
            g["normal_replies"] = [Env("role-reply-of-the-normal-negotiation")]
            return ([], g["normal_replies"])     # result list to append to (observed per iteration), role replies
        c.summaries[NEG_AC] = neg_contract
        # the storage-class test is opaque: any proposed context may be classified either way
        c.module_consts[("pynetdicom.presentation", "_STORAGE_CLASSES")] = lambda I: Env("_STORAGE_CLASSES")
        c.module_consts[("pynetdicom.presentation", "SOP_CLASS_MODULE")] = lambda I: Env("SOP_CLASS_MODULE")
        return c

    def body(self, I):
        P = f"{self.prefix}{NEG_UN}"
        g = I.ghost
        rq, ac, roles = mk_inputs(I)
        g["rq_seq"] = rq
        orig_index = SymMap.sym_index
        orig_contains = SymMap.sym_contains

        def spy_index(self_, I_, k):
            if self_.name == "roles":
                v = orig_index(self_, I_, k)
                g["has_role_entry"] = True
                g["role_lookup"] = v
                return v
            return orig_index(self_, I_, k)

        def spy_contains(self_, I_, k):
            r = orig_contains(self_, I_, k)
            return r
        SymMap.sym_index = spy_index
        try:
            g["has_role_entry"] = False
            kind, val = I.run_function(I.repo.func(NEG_UN), [rq, ac, roles])
        finally:
            SymMap.sym_index = orig_index
        I.ob(f"{P}/no-exception", kind == "return", detail=f"{kind}:{val!r}")
        if kind != "return":
            return
        call = g.get("normal_call")
        ok = call is not None and isinstance(call[0], SymSeq) and call[1] is ac
        I.ob(f"{P}/other-contexts-are-negotiated-normally-against-the-supported-contexts-and-role-proposals", ok)
        results, replies = val
        sorted_ok = isinstance(results, SortedView)
        if sorted_ok and results.key is not None:
            probe = Obj(I.repo.cls(f"{PR}:PresentationContext"))
            pid = I.fresh("int", "probe_id")
            probe.fields.update(_context_id=pid)
            sorted_ok = I.call_value(results.key, [probe], {}) is pid
        I.ob(f"{P}/results-are-all-per-context-results-sorted-by-context-id", sorted_ok)
        # role replies: those of the normally negotiated contexts AND those of the storage-like contexts
        from pyvc.symcoll import ConcatSeq

        def holds(x, marker):
            if isinstance(x, SortedView):
                return holds(x.seq, marker)
            if isinstance(x, ConcatSeq):
                return any(holds(p_, marker) for p_ in x.parts)
            if isinstance(x, (list, tuple)):
                return any(e is marker for e in x)
            return False

        def holds_storage(x):
            if isinstance(x, SortedView):
                return holds_storage(x.seq)
            if isinstance(x, ConcatSeq):
                return any(holds_storage(p_) for p_ in x.parts)
            return isinstance(x, SymSeq) and x.name.startswith("reply_roles")
        I.ob(f"{P}/role-replies-of-the-normally-negotiated-contexts-are-returned", holds(replies, g["normal_replies"][0]),
             detail=repr(replies))
        I.ob(f"{P}/role-replies-of-the-storage-like-contexts-are-returned", holds_storage(replies), detail=repr(replies))


# ---------------------------------------------------------------------------------------------
# negotiate_as_requestor  (C11)
# ---------------------------------------------------------------------------------------------
class RequestorLoop(LoopSpec):
    def __init__(self, loop, P):
        self.loop, self.P = loop, P
        self.cv = ctx_var(loop)
        self.lists, self.dicts = accumulators(loop)

    def havoc(self, I, fr):
        for nm in self.lists:
            fr.locals[nm] = PriorList(nm)
        # a role pair that exists before the loop and is assigned inside it may carry a value from an EARLIER iteration into this
        # one: at the head of an arbitrary iteration it is an arbitrary role pair (not an opaque object - the tables the code
        # looks it up in are total over role pairs, so an opaque value would only produce a spurious KeyError)
        assigned = set(I.assigned_names(self.loop.body))
        for nm in sorted(assigned):
            v = fr.locals.get(nm, self)
            if v is not self and not isinstance(v, PriorList) and (isinstance(v, tuple) and len(v) == 2 and all(x is None or isinstance(x, bool) for x in v)
                                                                 or (isinstance(v, Env) and nm.endswith("roles"))):
                vals = (None, True, False)
                fr.locals[nm] = (vals[I.choose(3, f"{nm}[0] left by an earlier iteration")], vals[I.choose(3, f"{nm}[1] left by an earlier iteration")])
        I.ghost["iter"] = "requestor"

    def on_exit(self, I, fr):
        g = I.ghost
        for nm in self.lists:
            fr.locals[nm] = SymSeq("results", g["nrq"], lambda i: I.opaque("result"))
        g["exit"] = "requestor"

    def after_body(self, I, fr):
        g = I.ghost
        P = self.P
        r = z3.simplify(I._num(fr.locals["__idx0"], "int") - 1)
        res = fr.locals[self.lists[0]]
        ctx = fr.locals.get(self.cv)
        ok = len(res) == 1 and res[0] is ctx and isinstance(ctx, Obj)
        I.ob(f"{P}/every-requested-context-appears-exactly-once", ok)
        if not ok:
            return
        f = ctx.fields
        I.ob(f"{P}/result-carries-the-requested-id-and-abstract-syntax",
             z3.And(_b(I.eq(f["_context_id"], SV(g["cid"](r), "int"))), _b(I.eq(f["_abstract_syntax"], UIDv(g["rq_ab"](r))))))
        amap = g.get("acceptor_map")
        b, w = amap.witness(I, SV(g["cid"](r), "int"))
        answered = I.valid(b.e)
        not_answered = I.valid(z3.Not(b.e))
        I.ob(f"{P}/path-decides-whether-the-acceptor-answered-this-id", answered or not_answered)
        ts = f.get("_transfer_syntax")
        if not_answered:
            I.ob(f"{P}/unanswered-context-is-rejected(provider)-with-its-first-proposed-transfer-syntax",
                 f.get("result") == 2 and isinstance(ts, list) and len(ts) == 1 and I.valid(_b(I.eq(ts[0], UIDv(g["rq_ts"](r, 0))))))
            I.ob(f"{P}/rejected-context-has-no-role", f.get("_as_scu") is False and f.get("_as_scp") is False)
            return
        wv = w.e
        I.ob(f"{P}/result-is-the-acceptors-result-for-this-id", _b(I.eq(f.get("result"), SV(g["ac_res"](wv), "int"))))
        if isinstance(ts, list) and ts:
            I.ob(f"{P}/transfer-syntax-is-the-one-the-acceptor-returned",
                 len(ts) == 1 and I.valid(_b(I.eq(ts[0], UIDv(g["ac_ts"](wv, 0))))))
        # roles
        rq_roles = g["rq_ctx_roles"].get(str(r), (None, None))
        accepted = f.get("result")
        acc = I.valid(_b(I.eq(accepted, 0)))
        rej = I.valid(z3.Not(_b(I.eq(accepted, 0))))
        # the acceptor's role reply for this abstract syntax, read from the map's own (memoised) membership query - the same
        # query whichever way the code asked (`in`, `[...]` inside try/except, `.get(...)`)
        rmap = g.get("roles_map")
        if rmap is None:
            reply = (None, None)
        else:
            rb, rw = rmap.witness(I, f["_abstract_syntax"])
            if I.valid(rb.e):
                reply = rmap.val_at(rw.e)
            elif I.valid(z3.Not(rb.e)):
                reply = (None, None)
            else:
                if acc:
                    I.ob(f"{P}/an-accepted-context-consults-the-acceptor's-role-replies", False,
                         detail="the roles of an accepted context were fixed without looking for a role reply")
                    return
                reply = (None, None)
        got = (f.get("_as_scu"), f.get("_as_scp"))
        if acc and None not in reply:
            want = R.outcome(rq_roles, reply)[:2]
            I.ob(f"{P}/accepted-with-role-reply:roles-are-the-PS3.7-outcome", got == want,
                 detail=f"requested {rq_roles} reply {reply}: got {got} want {want}")
        elif acc or rej:
            I.ob(f"{P}/no-role-reply-or-not-accepted:default-roles(requestor-SCU)", got == (True, False), detail=f"{got}")


def mk_requestor_inputs(I):
    g = I.ghost
    cls = I.repo.cls(f"{PR}:PresentationContext")
    nrq = I.input("int", "n_requested")
    nac = I.input("int", "n_results")
    I.assume(z3.And(nrq.e >= 1, nrq.e <= 128, nac.e >= 0))
    cid, rq_ab, rq_tn, rq_ts = F("rq_id", INT, INT), F("rq_ab", INT, INT), F("rq_nts", INT, INT), F("rq_ts", INT, INT, INT)
    ac_id, ac_res, ac_tn, ac_ts = F("ac_id", INT, INT), F("ac_res", INT, INT), F("ac_nts", INT, INT), F("ac_ts", INT, INT, INT)
    g.update(nrq=nrq.e, nac=nac.e, cid=cid, rq_ab=rq_ab, rq_tn=rq_tn, rq_ts=rq_ts, ac_id=ac_id, ac_res=ac_res, ac_tn=ac_tn, ac_ts=ac_ts)
    g["rq_ctx_roles"] = {}

    def rq_elem(i):
        o = Obj(cls, tag=f"rq[{i}]")
        I.assume(z3.Implies(z3.And(i >= 0, i < nrq.e), z3.And(cid(i) >= 1, cid(i) <= 255, cid(i) % 2 == 1, rq_tn(i) >= 1)))
        ts = SymSeq(f"rq[{i}].ts", rq_tn(i), lambda j, i=i: ts_uid(I, rq_ts(i, j)))
        key = str(z3.simplify(i))
        if key not in g["rq_ctx_roles"]:
            g["rq_ctx_roles"][key] = R.RQ_PROPOSALS[I.choose(5, "requested roles")]
        scu, scp = g["rq_ctx_roles"][key]
        o.fields.update(_context_id=SV(cid(i), "int"), _abstract_syntax=UIDv(rq_ab(i)), _transfer_syntax=ts, result=None,
                        _scu_role=scu, _scp_role=scp, _as_scp=None, _as_scu=None)
        return o

    def ac_elem(k):
        o = Obj(cls, tag=f"ac[{k}]")
        I.assume(z3.Implies(z3.And(k >= 0, k < nac.e), z3.And(ac_tn(k) >= 0, ac_res(k) >= 0, ac_res(k) <= 4)))
        ts = SymSeq(f"ac[{k}].ts", ac_tn(k), lambda j, k=k: ts_uid(I, ac_ts(k, j)))
        o.fields.update(_context_id=SV(ac_id(k), "int"), _abstract_syntax=None, _transfer_syntax=ts, result=SV(ac_res(k), "int"),
                        _scu_role=None, _scp_role=None, _as_scp=None, _as_scu=None)
        return o
    rq = SymSeq("rq_contexts", nrq.e, rq_elem)
    ac = SymSeq("ac_contexts", nac.e, ac_elem)
    if I.choose(2, "role replies given") == 0:
        nro = I.input("int", "n_replies")
        I.assume(nro.e >= 1)
        ro_ab = F("reply_ab", INT, INT)
        g["reply_choice"] = {}

        def val(i):
            key = str(i)
            if key not in g["reply_choice"]:
                g["reply_choice"][key] = [(True, True), (True, False), (False, True), (False, False)][I.choose(4, "role reply")]
            return g["reply_choice"][key]
        roles = SymMap(I, "roles", nro.e, lambda i: UIDv(ro_ab(i)), val)
    else:
        roles = None
    g["roles_map"] = roles
    return rq, ac, roles


class NegRequestorTask(Task):
    name = "negotiate_as_requestor"
    functions = [NEG_RQ]

    def __init__(self, prefix="C11/"):
        self.prefix = prefix

    def config(self, repo):
        c = neg_config(self.prefix)
        loops = loops_of(repo.func(NEG_RQ))
        if len(loops) != 1:
            raise Unsupported(f"negotiate_as_requestor: expected 1 loop, found {len(loops)}")
        c.loop_specs[(NEG_RQ, 0)] = RequestorLoop(loops[0], f"{self.prefix}{NEG_RQ}")
        return c

    def body(self, I):
        P = f"{self.prefix}{NEG_RQ}"
        g = I.ghost
        rq, ac, roles = mk_requestor_inputs(I)
        orig_query, orig_index = SymMap._query, SymMap.sym_index

        def spy_query(self_, I_, k):
            b, w = orig_query(self_, I_, k)
            if self_.name != "roles" and not isinstance(k, UIDv):
                g["acceptor_map"] = self_
            return b, w

        def spy_index(self_, I_, k):
            if self_.name == "roles":
                try:
                    v = orig_index(self_, I_, k)
                except PyRaise:
                    g["has_reply"] = False
                    raise
                g["has_reply"], g["reply_lookup"] = True, v
                return v
            return orig_index(self_, I_, k)
        SymMap._query, SymMap.sym_index = spy_query, spy_index
        try:
            g["has_reply"] = False
            kind, val = I.run_function(I.repo.func(NEG_RQ), [rq, ac, roles])
        finally:
            SymMap._query, SymMap.sym_index = orig_query, orig_index
        I.ob(f"{P}/no-exception-for-a-non-empty-request-list", kind == "return", detail=f"{kind}:{val!r}")
        if kind != "return":
            return
        ok = isinstance(val, SortedView) and isinstance(val.seq, SymSeq) and val.seq.name == "results"
        if ok and val.key is not None:
            probe = Obj(I.repo.cls(f"{PR}:PresentationContext"))
            pid = I.fresh("int", "probe_id")
            probe.fields.update(_context_id=pid)
            ok = I.call_value(val.key, [probe], {}) is pid
        I.ob(f"{P}/returns-all-per-context-results-sorted-by-context-id", ok)


# ---------------------------------------------------------------------------------------------
# composition lemma (C11): acceptor view and requestor view agree — both REAL functions executed on every
# role/transfer-syntax case of a single proposed context, the acceptor's answer handed to the requestor the way the
# A-ASSOCIATE-AC carries it (id, result, one transfer syntax; role reply items by abstract syntax)
# ---------------------------------------------------------------------------------------------
class CompositionTask(FiniteTask):
    name = "lemma/both-sides-hold-the-same-view"
    functions = [NEG_AC, NEG_RQ]

    def __init__(self, prefix="C11/"):
        self.prefix = prefix

    def check(self, repo, emit):
        P = f"{self.prefix}lemma"
        cfg = neg_config(self.prefix)
        I = Interp(repo, cfg)
        cls = repo.cls(f"{PR}:PresentationContext")

        uids = {}

        def uid_of(ab):
            # one object per UID value, so that dicts keyed by abstract syntax behave as they do for equal strings
            if ab not in uids:
                uids[ab] = UIDv(z3.IntVal(ab))
            return uids[ab]

        def cx(cid, ab, ts, scu=None, scp=None, result=None):
            o = Obj(cls)
            o.fields.update(_context_id=cid, _abstract_syntax=uid_of(ab) if ab is not None else None,
                            _transfer_syntax=[UIDv(z3.IntVal(t)) for t in ts], result=result, _scu_role=scu, _scp_role=scp,
                            _as_scp=None, _as_scu=None)
            return o
        bad = {"ids": [], "ts": [], "roles": [], "once": []}
        n = 0
        ts_cases = [([1], [1]), ([1, 2], [2, 1]), ([1], [2]), ([1, 2, 3], [3, 1])]
        # the second proposed context: another SOP class, or the SAME SOP class again (role items are per SOP class, not per
        # context) with transfer syntaxes the acceptor supports / does not support, before or after the first one
        second_cases = [("other", 11, None, 3), ("same-supported", 10, None, 3), ("same-unsupported", 10, [9], 3), ("same-unsupported-first", 10, [9], -1)]
        for prop, ac_set, supported, (rq_ts, ac_ts), (sname, ab2, ts2, id2) in [
                (p_, a_, s_, t_, c_) for p_ in [None] + R.RQ_PROPOSALS[1:] for a_ in R.AC_SETTINGS for s_ in (True, False)
                for t_ in ts_cases for c_ in second_cases]:
            if True:
                if True:
                    if True:
                        n += 1
                        I.begin_path([])
                        uids.clear()
                        # requestor's requested context carries its own proposed roles (ACSE applies them, see AcseRolesTask)
                        rq_scu, rq_scp = (prop if prop else (None, None))
                        first_id, second_id = (1, 3) if id2 == 3 else (3, 1)
                        proposed = [cx(first_id, 10, rq_ts), cx(second_id, ab2, ts2 or rq_ts)]
                        if id2 == -1:
                            proposed.reverse()
                        sup = [cx(None, 10 if supported else 12, ac_ts, *ac_set)]
                        roles = {proposed[0].fields["_abstract_syntax"]: prop} if prop else {}
                        # dict keys must be the same abstract-syntax VALUE: use eq-based lookup through a SymMap-free dict
                        k1, v1 = I.run_function(repo.func(NEG_AC), [proposed, sup, _EqDict(I, roles)])
                        if k1 != "return":
                            bad["once"].append((prop, ac_set, "acceptor raised"))
                            continue
                        results, replies = v1
                        ac_view = {I.concretize(I._num(c.fields["_context_id"], "int")): c for c in results}
                        # what the A-ASSOCIATE-AC carries
                        wire = [cx(c.fields["_context_id"], None, [_ident(t) for t in c.fields["_transfer_syntax"][:1]], result=c.fields["result"])
                                for c in results]
                        reply_map = {I.getattr(r, "sop_class_uid"): (I.getattr(r, "scu_role"), I.getattr(r, "scp_role")) for r in replies}
                        rq_roles_kw = ((rq_scu or False) if prop else None, (rq_scp or False) if prop else None)
                        requested = [cx(first_id, 10, rq_ts, *rq_roles_kw),
                                     cx(second_id, ab2, ts2 or rq_ts, *(rq_roles_kw if ab2 == 10 else (None, None)))]
                        requested.sort(key=lambda c: c.fields["_context_id"])
                        k2, v2 = I.run_function(repo.func(NEG_RQ), [requested, wire, _EqDict(I, reply_map)])
                        if k2 != "return":
                            bad["once"].append((prop, ac_set, "requestor raised"))
                            continue
                        rq_view = {c.fields["_context_id"]: c for c in v2}
                        if sorted(rq_view) != [1, 3] or len(v2) != 2:
                            bad["once"].append((prop, ac_set, sorted(rq_view)))
                        acc_a = sorted(k for k, c in ac_view.items() if c.fields["result"] == 0)
                        acc_r = sorted(k for k, c in rq_view.items() if c.fields["result"] == 0)
                        if acc_a != acc_r:
                            bad["ids"].append((prop, ac_set, supported, acc_a, acc_r))
                        for k in acc_a:
                            if k not in rq_view:
                                continue
                            a, r_ = ac_view[k].fields, rq_view[k].fields
                            ta = [I.concretize(t.ident) for t in a["_transfer_syntax"]]
                            tr = [I.concretize(t.ident) for t in r_["_transfer_syntax"]]
                            if ta != tr or I.concretize(a["_abstract_syntax"].ident) != I.concretize(r_["_abstract_syntax"].ident):
                                bad["ts"].append((prop, ac_set, ta, tr))
                            if not (r_["_as_scu"] == a["_as_scp"] and r_["_as_scp"] == a["_as_scu"]):
                                bad["roles"].append((prop, ac_set, (r_["_as_scu"], r_["_as_scp"]), (a["_as_scu"], a["_as_scp"])))
        emit(f"{P}/every-requested-context-appears-exactly-once-on-the-requestor-side", not bad["once"], detail=bad["once"][:4],
             model={"bad": bad["once"][:4]})
        emit(f"{P}/both-sides-accept-the-same-context-ids", not bad["ids"], detail=f"{n} cases; bad={bad['ids'][:4]}", model={"bad": bad["ids"][:4]})
        emit(f"{P}/accepted-contexts-have-the-same-abstract-and-transfer-syntax-on-both-sides", not bad["ts"], detail=bad["ts"][:4],
             model={"bad": bad["ts"][:4]})
        emit(f"{P}/roles-are-complementary:requestor-SCU-iff-acceptor-SCP-and-vice-versa", not bad["roles"], detail=bad["roles"][:4],
             model={"bad": bad["roles"][:4]})


def _ident(t):
    return t.ident.as_long() if z3.is_int_value(t.ident) else t.ident


class _EqDict:
    """a small dict whose keys are compared with the interpreter's == (abstract UIDs are not hashable by value)"""

    def __init__(self, I, d):
        self.items_ = list(d.items())

    def truth(self, I):
        return len(self.items_) > 0

    def _find(self, I, k):
        for kk, v in self.items_:
            t = I.eq(kk, k)
            if t is True or (not isinstance(t, bool) and I.valid(t)):
                return True, v
        return False, None

    def sym_contains(self, I, k):
        return self._find(I, k)[0]

    def sym_index(self, I, k):
        ok, v = self._find(I, k)
        if not ok:
            raise PyRaise(ExcVal("KeyError", (k,)))
        return v

    def sym_len(self, I):
        return len(self.items_)

    def sym_method(self, I, name, args, kw):
        if name == "get":
            ok, v = self._find(I, args[0])
            return v if ok else (args[1] if len(args) > 1 else kw.get("default"))
        if name == "items":
            return list(self.items_)
        if name == "keys":
            return [k for k, _ in self.items_]
        if name == "values":
            return [v for _, v in self.items_]
        return NotImplemented


# ---------------------------------------------------------------------------------------------
# bounded stand-in (labelled bounded, never counted as proved): the REAL negotiate_as_acceptor executed by the interpreter on
# a finite family of concrete configurations and compared with the independent specification.  Its purpose is refutation when
# the inductive contract above cannot be applied (e.g. the loops were restructured: "undecided"): a disagreement found here is
# a concrete input, replayed natively.
# ---------------------------------------------------------------------------------------------
class NegAcceptorFamilyTask(FiniteTask):
    name = "bounded/negotiate_as_acceptor/all-orderings-of-up-to-3-transfer-syntaxes"
    functions = [NEG_AC]
    backend = "bounded-exhaustive"

    def __init__(self, prefix="C10/"):
        self.prefix = prefix

    def check(self, repo, emit):
        import itertools
        P = f"{self.prefix}bounded:negotiate_as_acceptor"
        I = Interp(repo, neg_config(self.prefix))
        cls = repo.cls(f"{PR}:PresentationContext")
        uids = {}

        def uid_of(v):
            if v not in uids:
                uids[v] = UIDv(z3.IntVal(v))
            return uids[v]

        def cx(cid, ab, ts, scu=None, scp=None):
            o = Obj(cls)
            o.fields.update(_context_id=cid, _abstract_syntax=uid_of(ab), _transfer_syntax=[uid_of(t) for t in ts], result=None,
                            _scu_role=scu, _scp_role=scp, _as_scp=None, _as_scu=None)
            return o
        orders = [list(p) for k in (1, 2, 3) for p in itertools.permutations((1, 2, 3), k)]
        bad_ts, bad_res, bad_n = [], [], []
        n = 0
        for rq_ts in orders:
            for ac_ts in orders:
                for supported in (True, False):
                    n += 1
                    I.begin_path([])
                    uids.clear()
                    proposed = [cx(1, 10, rq_ts), cx(3, 11, [1])]
                    sup = [cx(None, 10 if supported else 12, ac_ts)]
                    k1, v1 = I.run_function(repo.func(NEG_AC), [proposed, sup, _EqDict(I, {})])
                    if k1 != "return":
                        bad_n.append((rq_ts, ac_ts, supported, "raised"))
                        continue
                    results = {I.concretize(I._num(c.fields["_context_id"], "int")): c for c in v1[0]}
                    if sorted(results) != [1, 3] or len(v1[0]) != 2:
                        bad_n.append((rq_ts, ac_ts, supported, sorted(results)))
                        continue
                    c = results[1].fields
                    common = [t for t in ac_ts if t in rq_ts]
                    want_res = 3 if not supported else (0 if common else 4)
                    want_ts = common[0] if (supported and common) else rq_ts[0]
                    got_ts = [I.concretize(t.ident) for t in c["_transfer_syntax"]]
                    if c["result"] != want_res:
                        bad_res.append((rq_ts, ac_ts, supported, c["result"], want_res))
                    elif got_ts != [want_ts]:
                        bad_ts.append({"proposed": rq_ts, "acceptor_preference": ac_ts, "got": got_ts, "want": [want_ts]})
        lab = "[bounded:2-contexts-all-orderings-of-up-to-3-transfer-syntaxes]"
        emit(f"{P}/one-result-per-proposed-context{lab}", not bad_n, detail=f"{n} configurations; bad={bad_n[:3]}", model={"bad": bad_n[:3]})
        emit(f"{P}/result-code-is-0-3-or-4-exactly-under-its-condition{lab}", not bad_res, detail=str(bad_res[:3]), model={"bad": bad_res[:3]})
        emit(f"{P}/accepted-transfer-syntax-is-the-acceptors-first-preference-among-the-proposed-ones{lab}", not bad_ts,
             detail=str(bad_ts[:3]), model={"bad": bad_ts[:3]})

"""Association.abort / _abort_blocking and Association._handle_no_response on their real bodies (effect-trace contracts).

Every place where pynetdicom "aborts the association" (a timeout or an unusable response in an SCU call - C24; a request on a
context that was not accepted - C19; a failing service implementation - C20) goes through these two functions; the callers'
contracts record only that `abort()` was called.  What that call does:

  * at most one A-ABORT is ever sent for an association, none after it was released: a repeated abort() and an abort() on a
    released association do nothing at all;
  * otherwise the `_sent_abort` latch is set first (the reactor may run concurrently), the paused reactor is let go, ONE A-ABORT
    with source 0 (service user) is handed to the ACSE, EVT_ABORTED is notified exactly once after it;
  * block=False returns at that point; block=True then kills the association (which stops the provider) and shuts the socket
    down - a failure of that shutdown does not escape;
  * _handle_no_response aborts exactly when neither the peer nor the provider has already aborted and the association is still
    established, and never raises."""
import z3

from pyvc.task import Task
from pyvc.interp import Config
from pyvc.values import SV, Obj, Env, Ev, ExcVal, PyRaise, Unsupported

ASSOC = "pynetdicom.association"
ABORT = f"{ASSOC}:Association.abort"
ABORT_B = f"{ASSOC}:Association._abort_blocking"
NORSP = f"{ASSOC}:Association._handle_no_response"


def _trigger(I, args, kw):
    ev = args[1]
    name = ev.fields.get("name") if isinstance(ev, Obj) else repr(ev)
    I.trace.append(Ev("evt", (name,)))
    return None


def kills_any(tr):
    # kill() lets the reactor go itself
    return [e for e in tr if e.name == "kill"]


class AbortTask(Task):
    shard = False
    name = "Association.abort"
    functions = [ABORT, ABORT_B]

    def __init__(self, prefix="C24/"):
        self.prefix = prefix
        self.P = f"{prefix}{ABORT}"

    def config(self, repo):
        c = Config()
        c.ob_prefix = self.prefix
        c.summaries["pynetdicom.events:trigger"] = _trigger
        c.summaries[f"{ASSOC}:Association.kill"] = lambda I, a, k: I.trace.append(Ev("kill"))
        c.ext_models["time.sleep"] = lambda I, a, k: I.trace.append(Ev("sleep", (a[0],)))

        def env_call(I, env, method, args, kw):
            p = env.path
            if p == "assoc._reactor_checkpoint" and method == "set":
                I.trace.append(Ev("checkpoint.set"))
                return None
            if p == "assoc.acse" and method == "send_abort":
                I.trace.append(Ev("send_abort", tuple(args)))
                return None
            if p == "assoc.dul.socket" and method == "_shutdown_socket":
                I.trace.append(Ev("shutdown"))
                if I.choose(2, "socket shutdown fails") == 1:
                    raise PyRaise(ExcVal("OSError", ("bad file descriptor",)))
                return None
            return NotImplemented
        c.env_call = env_call
        return c

    def body(self, I):
        P = self.P
        me = Env("assoc", cls=I.repo.cls(f"{ASSOC}:Association"))
        dul = Env("assoc.dul")
        dul.attrs["socket"] = Env("assoc.dul.socket")
        me.attrs.update(_reactor_checkpoint=Env("assoc._reactor_checkpoint"), acse=Env("assoc.acse"), dul=dul)
        already = I.choose(2, "an abort was already sent") == 1
        released = I.choose(2, "the association was released") == 1
        me.attrs["_sent_abort"] = already
        me.attrs["is_released"] = released
        how = I.choose(3, "block")
        args = [me] if how == 0 else [me, how == 1]
        block = how in (0, 1)
        kind, val = I.run_function(I.repo.func(ABORT), args)
        I.ob(f"{P}/no-exception", kind == "return", detail=f"{kind}:{val!r}")
        if kind != "return":
            return
        tr = [e for e in I.trace if e.name in ("checkpoint.set", "send_abort", "evt", "kill", "shutdown", "sleep") or
              (e.name == "setattr" and e.args[0] == "assoc")]
        names = [e.name if e.name != "setattr" else f"set:{e.args[1]}" for e in tr]
        if already or released:
            I.ob(f"{P}/a-second-abort-and-an-abort-after-release-do-nothing", not tr, detail=repr(names))
            return
        sends = [e for e in tr if e.name == "send_abort"]
        I.ob(f"{P}/exactly-one-A-ABORT-with-source-0-service-user-is-sent", len(sends) == 1 and tuple(sends[0].args) == (0,), detail=repr(sends))
        if len(sends) != 1:
            return
        i_send = tr.index(sends[0])
        latch = [i for i, e in enumerate(tr) if e.name == "setattr" and e.args[1] == "_sent_abort"]
        I.ob(f"{P}/the-sent-abort-latch-is-set-before-the-abort-is-sent", len(latch) == 1 and tr[latch[0]].args[2] is True and latch[0] < i_send,
             detail=repr(names))
        I.ob(f"{P}/a-paused-reactor-is-let-go", "checkpoint.set" in names or bool(kills_any(tr)), detail=repr(names))
        evs = [i for i, e in enumerate(tr) if e.name == "evt"]
        I.ob(f"{P}/EVT_ABORTED-is-notified-exactly-once-after-the-abort-was-handed-over",
             len(evs) == 1 and tr[evs[0]].args[0] == "EVT_ABORTED" and evs[0] > i_send, detail=repr([tr[i].args for i in evs]))
        kills = [i for i, e in enumerate(tr) if e.name == "kill"]
        shut = [i for i, e in enumerate(tr) if e.name == "shutdown"]
        if not block:
            I.ob(f"{P}/block=False-returns-without-killing-the-association-or-touching-the-socket", not kills and not shut and "sleep" not in names,
                 detail=repr(names))
        else:
            I.ob(f"{P}/block=True-kills-the-association-after-the-abort-then-shuts-the-socket-down",
                 len(kills) == 1 and kills[0] > i_send and len(shut) == 1 and shut[0] > kills[0], detail=repr(names))


class NoResponseTask(Task):
    shard = False
    name = "Association._handle_no_response"
    functions = [NORSP]

    def __init__(self, prefix="C24/"):
        self.prefix = prefix
        self.P = f"{prefix}{NORSP}"

    def config(self, repo):
        c = Config()
        c.ob_prefix = self.prefix
        c.summaries[f"{ASSOC}:Association.abort"] = lambda I, a, k: I.trace.append(Ev("abort", tuple(a[1:])))

        def env_call(I, env, method, args, kw):
            g = I.ghost
            if env.path == "assoc.acse" and method == "is_aborted":
                what = args[0] if args else kw.get("abort_type")
                if what not in ("a-abort", "a-p-abort"):
                    raise Unsupported(f"is_aborted({what!r})")
                I.trace.append(Ev("is_aborted", (what,)))
                return g[what]
            return NotImplemented
        c.env_call = env_call
        return c

    def body(self, I):
        P, g = self.P, I.ghost
        me = Env("assoc", cls=I.repo.cls(f"{ASSOC}:Association"))
        me.attrs["acse"] = Env("assoc.acse")
        g["a-abort"] = I.choose(2, "the peer has aborted") == 1
        g["a-p-abort"] = I.choose(2, "the provider has aborted") == 1
        est = I.choose(2, "established") == 1
        me.attrs["is_established"] = est
        kind, val = I.run_function(I.repo.func(NORSP), [me])
        I.ob(f"{P}/no-exception", kind == "return", detail=f"{kind}:{val!r}")
        aborts = [e for e in I.trace if e.name == "abort"]
        want = est and not g["a-abort"] and not g["a-p-abort"]
        I.ob(f"{P}/aborts-exactly-when-nobody-has-aborted-yet-and-the-association-is-still-established",
             len(aborts) == (1 if want else 0), detail=f"peer={g['a-abort']} provider={g['a-p-abort']} established={est}: {len(aborts)} abort()")
        I.ob(f"{P}/changes-nothing-itself", not [e for e in I.trace if e.name == "setattr" and e.args[0] == "assoc"])


AC = "pynetdicom.acse"
NREL = f"{AC}:ACSE.negotiate_release"


class ReleaseLoop:
    pass


def _release_loop(task):
    from pyvc.interp import LoopSpec

    class _L(LoopSpec):
        def havoc(self, I, fr):
            g = I.ghost
            g["mark"] = len(I.trace)
            g["in_loop"] = True
            # whether a release collision was seen in an earlier iteration: arbitrary at the head of this one
            c = I.choose(2, "a collision was seen earlier") == 1
            g["collision_before"] = c
            if "is_collision" in fr.locals:
                fr.locals["is_collision"] = c
            else:
                raise Unsupported("negotiate_release: the collision flag is not the local 'is_collision'")

        def after_body(self, I, fr):
            task.iteration_done(I, "continues", fr.locals.get("is_collision"))
    return _L()


class NegotiateReleaseTask(Task):
    """ACSE.negotiate_release (the local user's release) on its real body: the request is sent once, then ONE arbitrary iteration
    of the wait loop, whatever the earlier iterations saw.
      C08  every wait is one receive_pdu(wait=True, timeout=acse_timeout): bounded by the configured ACSE timeout; when it runs
           out the association is aborted (A-ABORT source 2 sent, marked aborted, killed) - the call returns;
      C27  a terminal outcome is reported exactly once per call: EVT_ABORTED (timeout, or the peer/provider aborted) or
           EVT_RELEASED (release response), each with the matching flags, followed by kill(); an iteration that goes on waiting
           (release collision) reports nothing;
      C07  collision (PS3.8 7.2.2.7) - the peer's release request arriving while the local user is releasing too: the requestor answers the peer's request at once and keeps waiting; the acceptor answers only
           after it received the response to its own request."""
    name = "ACSE.negotiate_release"
    functions = [NREL]
    shard = False

    def config(self, repo):
        import ast
        c = Config()
        c.ob_prefix = "C08/"
        fi = repo.func(NREL)
        loops = [n for n in ast.walk(fi.node) if isinstance(n, (ast.For, ast.While))]
        if len(loops) != 1 or not isinstance(loops[0], ast.While):
            raise Unsupported("negotiate_release: expected exactly one while loop")
        c.loop_specs[(NREL, 0)] = _release_loop(self)
        c.summaries["pynetdicom.events:trigger"] = _trigger
        c.summaries[f"{AC}:ACSE.send_release"] = lambda I, a, k: I.trace.append(Ev("send_release", (k.get("is_response", a[1] if len(a) > 1 else False),)))
        c.summaries[f"{AC}:ACSE.send_abort"] = lambda I, a, k: I.trace.append(Ev("send_abort", tuple(a[1:])))

        def env_call(I, env, method, args, kw):
            g = I.ghost
            if env.path == "acse.dul" and method == "receive_pdu":
                wait = kw.get("wait", args[0] if args else False)
                tmo = kw.get("timeout", args[1] if len(args) > 1 else None)
                I.trace.append(Ev("receive_pdu", (wait, tmo)))
                kinds = ["none", "a-abort", "a-p-abort", "release-rq", "release-rp"]
                k = kinds[I.choose(len(kinds), "what arrives")]
                g["arrives"] = k
                if k == "none":
                    return None
                if k == "a-abort":
                    return Obj(I.repo.cls("pynetdicom.pdu_primitives:A_ABORT"))
                if k == "a-p-abort":
                    return Obj(I.repo.cls("pynetdicom.pdu_primitives:A_P_ABORT"))
                o = Obj(I.repo.cls("pynetdicom.pdu_primitives:A_RELEASE"))
                o.fields["_result"] = None if k == "release-rq" else "affirmative"
                o.fields["_reason"] = "normal"
                return o
            if env.path == "acse.assoc" and method == "kill":
                I.trace.append(Ev("kill"))
                return None
            return NotImplemented
        c.env_call = env_call
        return c

    def iteration_done(self, I, how, collision_after=None):
        g = I.ghost
        tr = I.trace[g.get("mark", 0):]
        P8, P27, P7 = f"C08/{NREL}", f"C27/{NREL}", f"C07/{NREL}"
        arrives = g.get("arrives")
        names = [e.name for e in tr if e.name in ("receive_pdu", "send_release", "send_abort", "evt", "kill")]
        waits = [e for e in tr if e.name == "receive_pdu"]
        I.ob(f"{P8}/each-iteration-waits-once-and-for-at-most-the-ACSE-timeout",
             len(waits) == 1 and waits[0].args[0] is True and waits[0].args[1] is g["acse_timeout"], detail=repr([e.args for e in waits]))
        flags = {e.args[1]: e.args[2] for e in tr if e.name == "setattr" and e.args[0] == "acse.assoc"}
        evs = [e.args[0] for e in tr if e.name == "evt"]
        kills = [e for e in tr if e.name == "kill"]
        sends = [e.args for e in tr if e.name in ("send_release", "send_abort")]
        req, coll = g["is_requestor"], g["collision_before"]
        if arrives == "none":
            I.ob(f"{P8}/when-the-ACSE-timeout-runs-out-the-association-is-aborted-and-the-call-returns",
                 how == "returned" and [e.name for e in tr if e.name in ("send_release", "send_abort")] == ["send_abort"] and sends == [(2,)]
                 and flags.get("is_aborted") is True and flags.get("is_established") is False and len(kills) == 1, detail=f"{how}: {names} {flags}")
        if arrives in ("none", "a-abort", "a-p-abort"):
            I.ob(f"{P27}/an-abort-or-a-timeout-during-release-is-reported-once-as-EVT_ABORTED-then-the-association-is-killed",
                 how == "returned" and evs == ["EVT_ABORTED"] and flags.get("is_aborted") is True and flags.get("is_established") is False
                 and "is_released" not in flags and len(kills) == 1 and names.index("evt") < names.index("kill")
                 and (arrives == "none" or not sends), detail=f"{how}: {names} {flags}")
        elif arrives == "release-rp":
            want_send = [(True,)] if (not req and coll) else []
            I.ob(f"{P27}/the-release-response-ends-the-call-released:EVT_RELEASED-once-then-kill",
                 how == "returned" and evs == ["EVT_RELEASED"] and flags.get("is_released") is True and flags.get("is_established") is False
                 and "is_aborted" not in flags and len(kills) == 1 and names.index("evt") < names.index("kill"), detail=f"{how}: {names} {flags}")
            I.ob(f"{P7}/collision:the-acceptor-answers-the-peer's-request-only-after-the-response-to-its-own-arrived", sends == want_send,
                 detail=f"requestor={req} collision={coll}: {sends}")
        elif arrives == "release-rq":
            I.ob(f"{P27}/a-release-collision-reports-nothing-and-keeps-waiting", how == "continues" and not evs and not kills and not flags
                 and I.as_bool(collision_after) is True, detail=f"{how}: {names} {flags} is_collision={collision_after!r}")
            I.ob(f"{P7}/collision:the-requestor-answers-the-peer's-request-at-once-the-acceptor-not-yet", sends == ([(True,)] if req else []),
                 detail=f"requestor={req}: {sends}")

    def body(self, I):
        g = I.ghost
        me = Env("acse", cls=I.repo.cls(f"{AC}:ACSE"))
        assoc, dul = Env("acse.assoc"), Env("acse.dul")
        me.attrs.update(_assoc=assoc, assoc=assoc, dul=dul)
        g["is_requestor"] = I.choose(2, "local side") == 0
        assoc.attrs.update(is_requestor=g["is_requestor"], is_acceptor=not g["is_requestor"])
        g["acse_timeout"] = I.fresh("real", "acse_timeout")
        me.attrs["acse_timeout"] = g["acse_timeout"]
        assoc.attrs["acse_timeout"] = g["acse_timeout"]
        kind, val = I.run_function(I.repo.func(NREL), [me])
        I.ob(f"C08/{NREL}/no-exception", kind == "return", detail=f"{kind}:{val!r}")
        pre = I.trace[:g.get("mark", len(I.trace))]
        I.ob(f"C08/{NREL}/the-release-request-is-sent-exactly-once-before-waiting",
             [e.args for e in pre if e.name == "send_release"] == [(False,)] and not [e for e in pre if e.name in ("receive_pdu", "evt", "kill")],
             detail=repr([e.name for e in pre]))
        if kind == "return" and g.get("in_loop"):
            self.iteration_done(I, "returned")


REL = f"{ASSOC}:Association.release"


class ReleaseCallTask(Task):
    """Association.release (the local user's release) on its real body: on an association that is not established it does nothing;
    otherwise it asks the reactor to pause, waits - polling, each poll a bounded sleep - until the reactor says it is paused,
    runs the release negotiation exactly once while the reactor is paused, and lets the reactor go again afterwards (a reactor
    left paused would block the association thread for ever)."""
    name = "Association.release"
    functions = [REL]
    shard = False

    def __init__(self, prefix="C08/"):
        self.prefix = prefix

    def config(self, repo):
        import ast
        from pyvc.interp import LoopSpec
        c = Config()
        c.ob_prefix = self.prefix
        fi = repo.func(REL)
        loops = [n for n in ast.walk(fi.node) if isinstance(n, (ast.For, ast.While))]
        for i in range(len(loops)):
            c.loop_specs[(REL, i)] = LoopSpec()
        c.ext_models["time.sleep"] = lambda I, a, k: I.trace.append(Ev("sleep", (a[0],)))

        def env_call(I, env, method, args, kw):
            p = env.path
            if p == "assoc._reactor_checkpoint" and method in ("set", "clear"):
                I.trace.append(Ev(f"checkpoint.{method}"))
                return None
            if p == "assoc.acse" and method == "negotiate_release":
                I.trace.append(Ev("negotiate_release", (I.ghost.get("last_paused"),)))
                return None
            return NotImplemented
        c.env_call = env_call

        def env_attr(I, env, name):
            from pyvc.values import Volatile
            if env.path == "assoc" and name == "_is_paused":
                v = I.choose(2, "_is_paused") == 1
                I.ghost["last_paused"] = v
                return Volatile(v)
            return NotImplemented
        c.env_attr = env_attr
        return c

    def body(self, I):
        P = f"{self.prefix}{REL}"
        me = Env("assoc", cls=I.repo.cls(f"{ASSOC}:Association"))
        me.attrs.update(_reactor_checkpoint=Env("assoc._reactor_checkpoint"), acse=Env("assoc.acse"))
        est = I.choose(2, "established") == 1
        me.attrs["is_established"] = est
        kind, val = I.run_function(I.repo.func(REL), [me])
        I.ob(f"{P}/no-exception", kind == "return", detail=f"{kind}:{val!r}")
        if kind != "return":
            return
        names = [e.name for e in I.trace if e.name in ("checkpoint.set", "checkpoint.clear", "negotiate_release")]
        if not est:
            I.ob(f"{P}/nothing-happens-on-an-association-that-is-not-established", not names and not [e for e in I.trace if e.name == "setattr"],
                 detail=repr(names))
            return
        neg = [e for e in I.trace if e.name == "negotiate_release"]
        I.ob(f"{P}/the-release-is-negotiated-exactly-once-and-only-after-the-reactor-said-it-is-paused",
             len(neg) == 1 and neg[0].args[0] is True, detail=repr([e.args for e in neg]))
        I.ob(f"{P}/the-reactor-is-asked-to-pause-before-and-let-go-after-the-negotiation",
             names == ["checkpoint.clear", "negotiate_release", "checkpoint.set"], detail=repr(names))
        I.ob(f"{P}/every-wait-for-the-reactor-is-a-bounded-sleep", all(isinstance(e.args[0], (int, float)) and 0 < e.args[0] <= 1
                                                                     for e in I.trace if e.name == "sleep"))


KILL = f"{ASSOC}:Association.kill"


class KillTask(Task):
    """Association.kill on its real body: the reactor is let go and told to stop (`_kill`), the association is marked not
    established, and the provider is asked to stop until it has stopped or is no longer alive - polling with bounded sleeps; the
    call returns only then (so 'killed' implies the provider thread is gone or going)."""
    name = "Association.kill"
    functions = [KILL]
    shard = False

    def __init__(self, prefix="C08/"):
        self.prefix = prefix

    def config(self, repo):
        import ast
        from pyvc.interp import LoopSpec
        c = Config()
        c.ob_prefix = self.prefix
        fi = repo.func(KILL)
        loops = [n for n in ast.walk(fi.node) if isinstance(n, (ast.For, ast.While))]
        task = self

        class _L(LoopSpec):
            def havoc(self, I, fr):
                I.ghost["loop_mark"] = len(I.trace)
        for i in range(len(loops)):
            c.loop_specs[(KILL, i)] = _L()
        c.ext_models["time.sleep"] = lambda I, a, k: I.trace.append(Ev("sleep", (a[0],)))

        def env_call(I, env, method, args, kw):
            p = env.path
            if p == "assoc._reactor_checkpoint" and method == "set":
                I.trace.append(Ev("checkpoint.set"))
                return None
            if p == "assoc.dul" and method in ("is_alive", "stop_dul"):
                v = I.choose(2, method) == 1
                I.trace.append(Ev(method, (v,)))
                return v
            return NotImplemented
        c.env_call = env_call
        return c

    def body(self, I):
        P = f"{self.prefix}{KILL}"
        me = Env("assoc", cls=I.repo.cls(f"{ASSOC}:Association"))
        me.attrs.update(_reactor_checkpoint=Env("assoc._reactor_checkpoint"), dul=Env("assoc.dul"))
        kind, val = I.run_function(I.repo.func(KILL), [me])
        I.ob(f"{P}/no-exception", kind == "return", detail=f"{kind}:{val!r}")
        if kind != "return":
            return
        flags = {e.args[1]: e.args[2] for e in I.trace if e.name == "setattr" and e.args[0] == "assoc"}
        I.ob(f"{P}/the-reactor-is-let-go-and-told-to-stop-and-the-association-is-not-established",
             flags.get("_kill") is True and flags.get("is_established") is False and any(e.name == "checkpoint.set" for e in I.trace), detail=repr(flags))
        tail = I.trace[I.ghost.get("loop_mark", 0):]
        last = [e for e in tail if e.name in ("is_alive", "stop_dul")]
        I.ob(f"{P}/returns-only-when-the-provider-is-not-alive-or-has-accepted-the-stop",
             bool(last) and ((last[-1].name == "is_alive" and last[-1].args[0] is False) or (last[-1].name == "stop_dul" and last[-1].args[0] is True)),
             detail=repr([(e.name, e.args) for e in last]))
        I.ob(f"{P}/every-wait-for-the-provider-is-a-bounded-sleep", all(isinstance(e.args[0], (int, float)) and 0 < e.args[0] <= 1
                                                                      for e in I.trace if e.name == "sleep"))


SREL = f"{AC}:ACSE.send_release"


class SendReleaseTask(Task):
    """ACSE.send_release on its real body: ONE fresh A-RELEASE primitive is handed to the provider - without a result for a request,
    with the result 'affirmative' for a response (PS3.8 7.2: the only value) - and the association remembers that it has sent one."""
    name = "ACSE.send_release"
    functions = [SREL]
    shard = False

    def __init__(self, prefix="C07/"):
        self.prefix = prefix

    def config(self, repo):
        c = Config()
        c.ob_prefix = self.prefix
        c.summaries["pynetdicom.pdu_primitives:A_RELEASE"] = lambda I, a, k: I.ghost["new_primitive"](I)

        def env_call(I, env, method, args, kw):
            if env.path == "acse.dul" and method == "send_pdu":
                I.trace.append(Ev("send_pdu", (args[0],)))
                return None
            return NotImplemented
        c.env_call = env_call
        return c

    def body(self, I):
        P, g = f"{self.prefix}{SREL}", I.ghost
        made = []

        def new_primitive(I_):
            p = Env(f"primitive{len(made)}")
            made.append(p)
            return p
        g["new_primitive"] = new_primitive
        me = Env("acse", cls=I.repo.cls(f"{AC}:ACSE"))
        assoc, dul = Env("acse.assoc"), Env("acse.dul")
        me.attrs.update(_assoc=assoc, assoc=assoc, dul=dul)
        how = I.choose(3, "is_response")
        args = [me] if how == 0 else [me, how == 2]
        rsp = how == 2
        kind, val = I.run_function(I.repo.func(SREL), args)
        I.ob(f"{P}/no-exception", kind == "return", detail=f"{kind}:{val!r}")
        if kind != "return":
            return
        sent = [e for e in I.trace if e.name == "send_pdu"]
        I.ob(f"{P}/exactly-one-fresh-A-RELEASE-primitive-is-sent", len(sent) == 1 and len(made) == 1 and sent[0].args[0] is made[0],
             detail=f"{len(sent)} sent, {len(made)} constructed")
        if len(made) != 1 or len(sent) != 1:
            return
        sets = {}
        for e in I.trace[:I.trace.index(sent[0])]:
            if e.name == "setattr" and e.args[0] == made[0].path:
                sets.setdefault(e.args[1], []).append(e.args[2])
        I.ob(f"{P}/a-response-carries-the-result-affirmative-a-request-carries-none",
             sets == ({"result": ["affirmative"]} if rsp else {}), detail=f"is_response={rsp}: {sets}")
        fl = [e for e in I.trace[:I.trace.index(sent[0])] if e.name == "setattr" and e.args[0] == "acse.assoc"]
        I.ob(f"{P}/the-association-remembers-that-a-release-primitive-was-sent", [(e.args[1], e.args[2]) for e in fl] == [("_sent_release", True)],
             detail=repr([(e.args[1], e.args[2]) for e in fl]))

"""C01 — every PDU value survives encode/decode and matches the PS3.8 byte layout."""
from contracts import codec

PROPERTY = "C01"
LEVEL = "proof"
ASSUMPTIONS = [
    "spec/ps38_layout.py is a correct transcription of PS3.8 Tables 9-11..9-26 and Annex D (A-SPEC)",
    "well-formed values: AE titles / version names 1-16 printable ASCII characters without backslash and without leading or "
    "trailing space (canonical form); UIDs 1-64 characters of [0-9.]; codes within their field width; identity fields of any "
    "length that fits the 2-byte length field",
    "callee contracts used instead of bodies: utils.set_uid / set_ae / decode_bytes / validate_uid, pydicom.uid.UID (verified in C12)",
    "list multiplicities: containers are checked for 0, 1 and 2 elements of each kind (field values, field lengths and string "
    "lengths are symbolic and unbounded); the container loops themselves (_generate_items, item_length, _wrap_encode_items) carry "
    "inductive contracts in C02",
]


def tasks(tier):
    from contracts import listcodec as LC
    lists = [LC.ListLemmaTask("C01/"), LC.EncodeItemsTask("PDU"), LC.EncodeItemsTask("PDUItem")]
    lists += [LC.SplitFramingTask(k) for k in LC.SPLITTERS]
    lists += [LC.WrapGenerateItemsTask("PDU"), LC.WrapGenerateItemsTask("PDUItem")]
    lists += [LC.LengthTask(fn) for fn in LC.LENGTHS]
    return codec.layout_tasks("C01/") + codec.primitive_tasks("C01/") + lists


def replay(rec):
    from pyvc.replay import run_replay
    return run_replay("C01", rec)


LEVEL_TEXT = ("For each of the 7 PDUs and 17 item/sub-item classes the real encode()/decode() (driven by the _encoders/_decoders "
              "tables, lazy generator decoders included) are executed symbolically on a well-formed symbolic value; the bytes are "
              "proved equal to the PS3.8 layout field by field, every length field to the size of what it covers, and "
              "decode(encode(v)) to restore every field.")
LEVEL_NOTE = ("trusted: pyvc + layout algebra, z3, spec/ps38_layout.py, string-helper contracts (C12). The container tasks execute lists of 0..2 positions (values/lengths "
              "unbounded); the step to ANY number of items is contracts/listcodec.py: the encode, split, decode and length loops "
              "verified by induction with the items abstracted by their per-item contracts (list lemmas MONO/SUB proved by "
              "induction); the composition of the two is an argument, not one machine-checked theorem.")
TECHNIQUE = "deductive: symbolic execution of the real codec tables over a layout algebra, segment-wise VCs vs PS3.8 transcription (z3)"

"""Item lists of ANY length (C01): the loops that encode, split, decode and measure a list of PDU items, verified by
induction with the items abstracted by their own contracts.

The container tasks of codec.py execute the real encoders / decoders on lists of 0..2 concrete positions (values and lengths
symbolic).  What they cannot say is "for every number of items".  That step is taken here, once, for the five loops every
container shares:

  PDU._wrap_encode_items / PDUItem._wrap_encode_items      for item in items: bytestream += item.encode()
  PDU._generate_items / PDUItem._generate_items            while bytestream[offset:offset+1]: ... yield type, data
  P_DATA_TF._generate_items                                the same with a 4-byte length and no type
  PDU._wrap_generate_items / PDUItem._wrap_generate_items  for t, b in self._generate_items(...): PDU_ITEM_TYPES[t]().decode(b)
  pdu_length / item_length of the containers               for item in <list>: length += len(item)

Abstraction: item k (0 <= k < n, n symbolic) encodes to E(k), a byte string of which only what the splitter reads is known:
it is at least a header long and its length field counts the bytes after the header (that IS the per-item contract C01 proves
for every item class: O2 lengths).  PRE(k) = E(0) ++ ... ++ E(k-1), OFF(k) = |PRE(k)|.

  encode      returns PRE(n)                                            (loop invariant bytestream == PRE(i))
  split       on PRE(n) yields exactly (type(E(k)), E(k)) for k = 0..n-1 (loop invariant offset == OFF(k); needs the two list
              lemmas below: SUB is what makes "the stream is PRE(n)" the same as "item k occupies stream[OFF(k):OFF(k+1)]",
              the form the splitting proof uses (byte-array views, linear arithmetic only); MONO bounds every item by the end)
  decode      builds exactly one object per yielded pair, of the class registered for its type, decoded from exactly E(k),
              in order
  lengths     base + OFF(n)

List lemmas (each proved as base + step VCs of an induction on the list length, `ListLemmaTask`):
  MONO  k < m            =>  OFF(k) + |E(k)| <= OFF(m)
  SUB   k < m            =>  PRE(m)[OFF(k) : OFF(k) + |E(k)|] == E(k)
With these, the round trip of a container with n items is: per-item contracts (codec.py, every class) + the list loops here.
The composition of the two is an argument of this file's doc string, not one machine-checked theorem (DESIGN 10.7)."""
import ast

import z3

from pyvc.task import Task, FiniteTask
from pyvc.interp import Interp, Config, LoopSpec
from pyvc.values import SV, Obj, Env, Ev, ExcVal, PyRaise, Unsupported, SymSeq, GenObj, StreamV, BYTES

PDUM = "pynetdicom.pdu"
ITM = "pynetdicom.pdu_items"
INT = z3.IntSort()


def theory(tag=""):
    E = z3.Function(f"E{tag}", INT, BYTES)          # encoding of item k
    PRE = z3.Function(f"PRE{tag}", INT, BYTES)      # concatenation of the first k encodings
    return E, PRE


def OFF(PRE, k):
    return z3.Length(PRE(k))


def defs(E, PRE, k):
    """definition of PRE unfolded at k (k >= 0): PRE(k+1) = PRE(k) ++ E(k); PRE(0) = empty"""
    return z3.And(PRE(0) == z3.Empty(BYTES), z3.Implies(k >= 0, PRE(k + 1) == z3.Concat(PRE(k), E(k))))


# ---------------------------------------------------------------------------------------------
# the two list lemmas, by induction on the list length m (k arbitrary but fixed)
# ---------------------------------------------------------------------------------------------
class ListLemmaTask(FiniteTask):
    name = "lemma/item-lists:MONO-and-SUB-by-induction"
    functions = []
    backend = "z3"

    def __init__(self, prefix="C01/"):
        self.prefix = prefix

    def check(self, repo, emit):
        from pyvc import smt
        E, PRE = theory("_lemma")
        k, m = z3.Ints("k m")
        P = f"{self.prefix}lemma/item-lists"

        def prove(name, hyps, goal):
            s = z3.Solver()
            s.set("timeout", 30000)
            for h in hyps:
                s.add(h)
            s.add(z3.Not(goal))
            r = s.check()
            if r == z3.unknown:
                st, backend, _ = smt.second_opinion(s, {})
                emit(f"{P}/{name}", st == "discharged", detail=f"second opinion: {backend}")
                return
            emit(f"{P}/{name}", r == z3.unsat, detail=None if r == z3.unsat else str(s.model())[:300])
        mono = lambda k_, m_: OFF(PRE, k_) + z3.Length(E(k_)) <= OFF(PRE, m_)
        sub = lambda k_, m_: z3.SubSeq(PRE(m_), OFF(PRE, k_), z3.Length(E(k_))) == E(k_)
        base_h = [k >= 0, defs(E, PRE, k)]
        prove("MONO/base:m=k+1", base_h, mono(k, k + 1))
        prove("MONO/step:m->m+1", [k >= 0, m > k, defs(E, PRE, m), mono(k, m)], mono(k, m + 1))
        prove("SUB/base:m=k+1", base_h, sub(k, k + 1))
        prove("SUB/step:m->m+1", [k >= 0, m > k, defs(E, PRE, m), mono(k, m), sub(k, m)], sub(k, m + 1))


# ---------------------------------------------------------------------------------------------
# encode: for item in items: bytestream += item.encode()
# ---------------------------------------------------------------------------------------------
class EncLoop(LoopSpec):
    def __init__(self, acc):
        self.acc = acc

    def invariant(self, I, fr):
        g = I.ghost
        i = I._num(fr.locals["__idx0"], "int")
        I.assume(defs(g["E"], g["PRE"], i))
        return I.z(fr.locals[self.acc]) == g["PRE"](i)


class EncodeItemsTask(Task):
    def __init__(self, which, prefix="C01/"):
        self.fn = f"{PDUM}:PDU._wrap_encode_items" if which == "PDU" else f"{ITM}:PDUItem._wrap_encode_items"
        self.name = f"{which}._wrap_encode_items/any-number-of-items"
        self.functions = [self.fn]
        self.prefix = prefix

    def config(self, repo):
        c = Config()
        c.ob_prefix = self.prefix
        fi = repo.func(self.fn)
        loops = [n for n in ast.walk(fi.node) if isinstance(n, (ast.For, ast.While))]
        accs = [n.target.id for n in ast.walk(fi.node) if isinstance(n, ast.AugAssign) and isinstance(n.target, ast.Name)]
        if len(loops) != 1 or len(accs) != 1:
            raise Unsupported(f"{self.fn}: expected one loop with one `acc += ...`")
        c.loop_specs[(self.fn, 0)] = EncLoop(accs[0])

        def env_call(I, env, method, args, kw):
            if env.path.startswith("item[") and method == "encode":
                I.trace.append(Ev("encode", (env.index,)))
                return SV(I.ghost["E"](env.index), "bytes")
            return NotImplemented
        c.env_call = env_call
        return c

    def body(self, I):
        g = I.ghost
        E, PRE = theory()
        g["E"], g["PRE"] = E, PRE
        n = I.input("int", "n_items").e
        I.assume(n >= 0)

        def item(i):
            e = Env(f"item[{z3.simplify(i)}]")
            e.index = i
            return e
        items = SymSeq("items", n, item)
        kind, val = I.run_function(I.repo.func(self.fn), [items])
        P = f"{self.prefix}{self.fn}"
        I.ob(f"{P}/no-exception", kind == "return", detail=f"{kind}:{val!r}")
        if kind != "return":
            return
        I.assume(defs(E, PRE, n))
        I.ob(f"{P}/returns-the-concatenation-of-all-item-encodings-in-order", I.z(val) == PRE(n))


# ---------------------------------------------------------------------------------------------
# split: while bytestream[offset:offset+1]: ... yield ...; offset += header + length
# ---------------------------------------------------------------------------------------------
SPLITTERS = {
    # key: (qualname, header size, (length field offset, width), what is yielded)
    "PDU._generate_items": (f"{PDUM}:PDU._generate_items", 4, (2, 2), "type+item"),
    "PDUItem._generate_items": (f"{ITM}:PDUItem._generate_items", 4, (2, 2), "type+item"),
    "P_DATA_TF._generate_items": (f"{PDUM}:P_DATA_TF._generate_items", 4, (0, 4), "pdv"),
}


def be(seq, at, width):
    v = seq[at]
    for j in range(1, width):
        v = v * 256 + seq[at + j]
    return v


def well_formed(Ek, header, lenfield, kind):
    at, width = lenfield
    byte_ok = z3.And(*[z3.And(Ek[j] >= 0, Ek[j] <= 255) for j in range(header + (1 if kind == "pdv" else 0))])
    wf = z3.And(z3.Length(Ek) >= header, byte_ok, be(Ek, at, width) == z3.Length(Ek) - header)
    if kind == "pdv":
        wf = z3.And(wf, z3.Length(Ek) >= header + 1)      # a PDV item holds at least its context id (C01 per-item contract)
    return wf


class SplitLoop(LoopSpec):
    def __init__(self, off, buf, task):
        self.off, self.buf, self.task = off, buf, task

    def havoc(self, I, fr):
        g = I.ghost
        k = I.fresh("int", "k").e
        g["k"] = k
        I.assume(z3.And(k >= 0, k <= g["n"], self.task.item_facts(g, k)))

    def invariant(self, I, fr):
        g = I.ghost
        return I._num(fr.locals[self.off], "int") == g["OFFS"](g.get("k", z3.IntVal(0)))

    def variant(self, I, fr):
        return SV(I.ghost["N"] - I._num(fr.locals[self.off], "int"), "int")

    def on_exit(self, I, fr):
        I.ghost["exit_k"] = I.ghost.get("k", z3.IntVal(0))


class SplitFramingTask(Task):
    """The stream is a ghost byte array `base` of length N that holds n items back to back: item k occupies
    base[OFFS(k) : OFFS(k+1)] (OFFS(0) = 0, OFFS(n) = N) - by lemma SUB that is what the concatenation PRE(n) of the encoder
    is.  Slices of the stream are views (base, lo, hi), so the proof is linear arithmetic over offsets plus reads of single
    header bytes; no sequence reasoning is left to the solver.  MONO (OFFS(k+1) <= N for k < n) is assumed at the current
    index, justified by ListLemmaTask."""

    def __init__(self, key, prefix="C01/"):
        self.key = key
        self.fn, self.header, self.lenfield, self.kind = SPLITTERS[key]
        self.name = f"{key}/well-formed-list-of-any-length"
        self.functions = [self.fn]
        self.prefix = prefix

    def config(self, repo):
        from contracts.C02 import split_roles
        c = Config()
        c.ob_prefix = self.prefix
        off, buf = split_roles(repo.func(self.fn))
        c.loop_specs[(self.fn, 0)] = SplitLoop(off, buf, self)
        return c

    def item_facts(self, g, k):
        base, OFFS, n, N = g["base"], g["OFFS"], g["n"], g["N"]
        o = OFFS(k)
        ln = OFFS(k + 1) - o
        at, width = self.lenfield
        nb = self.header + (1 if self.kind == "pdv" else 0)
        hdr_bytes = z3.And(*[z3.And(base[o + j] >= 0, base[o + j] <= 255) for j in range(nb)])
        lenval = base[o + at]
        for j in range(1, width):
            lenval = lenval * 256 + base[o + at + j]
        wf = z3.And(ln >= nb, hdr_bytes, lenval == ln - self.header)      # the per-item contract (C01 O2) for item k
        return z3.And(OFFS(0) == 0, OFFS(n) == N, z3.Implies(k == n, o == N),
                      z3.Implies(z3.And(k >= 0, k < n), z3.And(wf, o >= 0, OFFS(k + 1) <= N)))

    def body(self, I):
        from pyvc.layout import LB, Slice
        g = I.ghost
        P = f"{self.prefix}{self.fn}"
        n = I.input("int", "n_items").e
        I.assume(n >= 0)
        base = I.input("bytes", "stream").e
        N = z3.Length(base)
        OFFS = z3.Function("OFFS", INT, INT)
        g.update(n=n, base=base, N=N, OFFS=OFFS)
        I.assume(self.item_facts(g, z3.IntVal(0)))
        stream = LB([Slice(base, 0, N)])
        kind, gen = I.run_function(I.repo.func(self.fn), [stream])
        if not isinstance(gen, GenObj):
            I.ob(f"{P}/is-a-generator", False)
            return
        try:
            ok, v = I.gen_next(gen)
        except PyRaise as pr:
            I.ob(f"{P}/a-well-formed-list-is-split-without-an-exception", False, detail=repr(pr.exc))
            return
        if ok:
            k = g["k"]
            o, o1 = OFFS(k), OFFS(k + 1)
            I.ob(f"{P}/an-item-is-yielded-only-while-items-remain", k < n)
            good = isinstance(v, tuple) and len(v) == 2
            if self.kind == "type+item":
                I.ob(f"{P}/the-k-th-yield-is-the-type-byte-and-the-whole-encoding-of-item-k",
                     good and z3.And(I._num(v[0], "int") == base[o], LB.of(I, v[1]).is_slice_of(I, base, o, o1)))
            else:
                I.ob(f"{P}/the-k-th-yield-is-the-context-id-and-the-data-of-PDV-k",
                     good and z3.And(I._num(v[0], "int") == base[o + 4], LB.of(I, v[1]).is_slice_of(I, base, o + 5, o1)))
            g["k"] = k + 1               # ghost: one more item consumed
            try:
                I.gen_next(gen)          # rest of the iteration: invariant re-established, then the path ends
            except PyRaise as pr:
                I.ob(f"{P}/a-well-formed-list-is-split-without-an-exception", False, detail=repr(pr.exc))
            return
        # the generator is exhausted (the loop guard failed, or the body returned): the index it had reached
        I.ob(f"{P}/the-generator-ends-exactly-after-the-last-item", g.get("k", z3.IntVal(0)) == n)


# ---------------------------------------------------------------------------------------------
# decode: for item_type, item_bytes in self._generate_items(b): item = PDU_ITEM_TYPES[item_type](); item.decode(item_bytes)
# ---------------------------------------------------------------------------------------------
class WrapGenLoop(LoopSpec):
    def __init__(self, task, acc):
        self.task, self.acc = task, acc

    def havoc(self, I, fr):
        from contracts.negotiation import PriorList
        fr.locals[self.acc] = PriorList(self.acc)
        I.ghost["mark"] = len(I.trace)

    def after_body(self, I, fr):
        g = I.ghost
        P = self.task.P
        i = z3.simplify(I._num(fr.locals["__idx0"], "int") - 1)
        made = [e for e in I.trace[g["mark"]:] if e.name == "new-item"]
        decs = [e for e in I.trace[g["mark"]:] if e.name == "item.decode"]
        acc = fr.locals[self.acc]
        ok = len(made) == 1 and len(decs) == 1 and decs[0].args[0] is made[0].args[1] and isinstance(acc, list) and len(acc) == 1 \
            and acc[0] is made[0].args[1]
        I.ob(f"{P}/one-object-per-yielded-item-appended-once", ok, detail=f"{len(made)} constructed, {len(decs)} decoded, appended {len(acc) if isinstance(acc, list) else acc!r}")
        if ok:
            I.ob(f"{P}/the-object-is-of-the-class-registered-for-the-item's-type-byte", I._num(made[0].args[0], "int") == g["T"](i))
            I.ob(f"{P}/the-object-is-decoded-from-exactly-the-item's-bytes", I.z(decs[0].args[1]) == g["E"](i))

    def on_exit(self, I, fr):
        g = I.ghost
        n = g["n"]
        fr.locals[self.acc] = SymSeq("decoded_items", n, lambda i: Env(f"decoded[{z3.simplify(i)}]"))
        g["exited"] = True


class WrapGenerateItemsTask(Task):
    def __init__(self, which, prefix="C01/"):
        self.fn = f"{PDUM}:PDU._wrap_generate_items" if which == "PDU" else f"{ITM}:PDUItem._wrap_generate_items"
        self.gen = f"{PDUM}:PDU._generate_items" if which == "PDU" else f"{ITM}:PDUItem._generate_items"
        self.name = f"{which}._wrap_generate_items/any-number-of-items"
        self.functions = [self.fn]
        self.prefix = prefix
        self.P = f"{prefix}{self.fn}"
        self.mod = PDUM if which == "PDU" else ITM

    def config(self, repo):
        c = Config()
        c.ob_prefix = self.prefix
        fi = repo.func(self.fn)
        loops = [n for n in ast.walk(fi.node) if isinstance(n, (ast.For, ast.While))]
        accs = [n.func.value.id for n in ast.walk(fi.node) if isinstance(n, ast.Call) and isinstance(n.func, ast.Attribute)
                and n.func.attr == "append" and isinstance(n.func.value, ast.Name)]
        if len(loops) != 1 or len(set(accs)) != 1:
            raise Unsupported(f"{self.fn}: expected one loop appending to one list")
        c.loop_specs[(self.fn, 0)] = WrapGenLoop(self, accs[0])

        def gen(I, args, kw):
            g = I.ghost
            g["split_arg"] = args[-1]

            # contract of the splitter (SplitFramingTask): on the encoding of n items it yields (type, bytes) of item 0..n-1
            return SymSeq("items-of-the-splitter", g["n"], lambda i: (SV(g["T"](i), "int"), SV(g["E"](i), "bytes")))
        c.summaries[self.gen] = gen

        class Registry:
            """PDU_ITEM_TYPES: type byte -> item class; indexing gives a constructor for that class"""

            def sym_index(self_, I, k):
                ctor = Env("item-class")
                ctor.type_byte = k
                return ctor

            def truth(self_, I):
                return True
        c.module_consts[(self.mod, "PDU_ITEM_TYPES")] = lambda I: Registry()

        def env_call(I, env, method, args, kw):
            if env.path == "item-class" and method == "__call__":
                o = Env("new-item")
                I.trace.append(Ev("new-item", (env.type_byte, o)))
                return o
            if env.path == "new-item" and method == "decode":
                I.trace.append(Ev("item.decode", (env, args[0])))
                return None
            return NotImplemented
        c.env_call = env_call
        return c

    def body(self, I):
        g = I.ghost
        E, PRE = theory()
        T = z3.Function("T", INT, INT)
        n = I.input("int", "n_items").e
        I.assume(n >= 0)
        g.update(E=E, PRE=PRE, T=T, n=n)
        me = Env("self", cls=I.repo.cls(self.fn.rsplit(".", 1)[0]))
        b = I.input("bytes", "bytestream")
        kind, val = I.run_function(I.repo.func(self.fn), [me, b])
        P = self.P
        I.ob(f"{P}/no-exception", kind == "return", detail=f"{kind}:{val!r}")
        if kind != "return":
            return
        I.ob(f"{P}/the-splitter-is-given-the-whole-field", g.get("split_arg") is b)
        I.ob(f"{P}/returns-the-list-of-all-decoded-items", isinstance(val, SymSeq) and val.name == "decoded_items")


# ---------------------------------------------------------------------------------------------
# lengths: length = <fixed part>; for item in <list>: length += len(item)
# ---------------------------------------------------------------------------------------------
LENGTHS = {
    # qualname of the property getter: (list attribute, fixed part of the length field per PS3.8)
    f"{PDUM}:A_ASSOCIATE_RQ.pdu_length.fget": ("variable_items", 68),
    f"{PDUM}:A_ASSOCIATE_AC.pdu_length.fget": ("variable_items", 68),
    f"{PDUM}:P_DATA_TF.pdu_length.fget": ("presentation_data_value_items", 0),
    f"{ITM}:PresentationContextItemRQ.item_length.fget": ("abstract_transfer_syntax_sub_items", 4),
    f"{ITM}:UserInformationItem.item_length.fget": ("user_data", 0),
}


class LenLoop(LoopSpec):
    def __init__(self, acc, fixed):
        self.acc, self.fixed = acc, fixed

    def invariant(self, I, fr):
        g = I.ghost
        i = I._num(fr.locals["__idx0"], "int")
        TOT, LEN = g["TOT"], g["LEN"]
        I.assume(z3.And(TOT(0) == 0, z3.Implies(i >= 0, TOT(i + 1) == TOT(i) + LEN(i))))       # definition of the running total
        return I._num(fr.locals[self.acc], "int") == self.fixed + TOT(i)


class LengthTask(Task):
    """the length field of a container is its fixed part plus the sum of len(item) over ALL its items (any number)"""

    def __init__(self, fn, prefix="C01/"):
        self.fn = fn
        self.attr, self.fixed = LENGTHS[fn]
        self.name = fn.split(":")[1].replace(".fget", "") + "/any-number-of-items"
        self.functions = [fn]
        self.prefix = prefix

    def config(self, repo):
        c = Config()
        c.ob_prefix = self.prefix
        fi = repo.func(self.fn)
        loops = [n for n in ast.walk(fi.node) if isinstance(n, (ast.For, ast.While))]
        accs = sorted({n.target.id for n in ast.walk(fi.node) if isinstance(n, ast.AugAssign) and isinstance(n.target, ast.Name)})
        if len(loops) != 1 or len(accs) != 1:
            raise Unsupported(f"{self.fn}: expected one loop with one `acc += ...`")
        c.loop_specs[(self.fn, 0)] = LenLoop(accs[0], self.fixed)

        def env_call(I, env, method, args, kw):
            if env.path.startswith("item[") and method == "__len__":
                return SV(I.ghost["LEN"](env.index), "int")
            return NotImplemented
        c.env_call = env_call
        return c

    def body(self, I):
        g = I.ghost
        TOT, LEN = z3.Function("TOT", INT, INT), z3.Function("LEN", INT, INT)
        g["TOT"], g["LEN"] = TOT, LEN
        n = I.input("int", "n_items").e
        I.assume(n >= 0)

        def item(i):
            e = Env(f"item[{z3.simplify(i)}]")
            e.index = i
            e.data["len"] = SV(LEN(i), "int")         # len(item): the item's own contract gives it (header + item_length)
            return e
        me = Env("self")
        me.attrs[self.attr] = SymSeq("items", n, item)
        kind, val = I.run_function(I.repo.func(self.fn), [me])
        P = f"{self.prefix}{self.fn}"
        I.ob(f"{P}/no-exception", kind == "return", detail=f"{kind}:{val!r}")
        if kind != "return":
            return
        I.assume(z3.And(TOT(0) == 0))
        I.ob(f"{P}/is-the-fixed-part-plus-the-lengths-of-all-items", I._num(val, "int") == self.fixed + TOT(n))

"""C24 — SCU calls surface each response exactly once and fail cleanly.

Generator contracts on Association._wrap_find_responses / _wrap_get_move_responses.  The `while True` loop is
verified for an ARBITRARY iteration (its iterations only share the cosmetic operation counter): for every kind of
value dimse.get_msg can return, the iteration yields exactly one item to the caller (none for an interleaved C-STORE
sub-operation request), ends the generator at the first non-Pending response with the reactor checkpoint set,
aborts where documented, and never yields while holding the association lock (ghost lock depth)."""
import ast

import z3

from pyvc.task import Task
from pyvc.interp import Interp, Config, LoopSpec
from pyvc.values import SV, Obj, Env, Ev, ExcVal, PyRaise, Unsupported, GenObj, PathEnd
from contracts.negotiation import UIDv
from spec import ps37_status as ST

PROPERTY = "C24"
LEVEL = "proof"
ASSOC = "pynetdicom.association"
FIND = f"{ASSOC}:Association._wrap_find_responses"
GETMOVE = f"{ASSOC}:Association._wrap_get_move_responses"
DP = "pynetdicom.dimse_primitives"
ASSUMPTIONS = [
    "dimse.get_msg returns (context id, primitive) or (None, None) on timeout/abort (C08 bounds the wait); responses arrive in "
    "the order the peer sent them (Queue is FIFO, A-LIB)",
    "code_to_category is used by contract (C28): the category is the PS3.7 category of the status",
    "dsutils.decode either returns a dataset or raises; pydicom reads element values lazily, so an identifier that decode() "
    "accepted may still raise when pretty_dataset() walks it for the log ('-lazy' response kinds); LOGGER calls are pure",
    "iterations of the response loop are independent (they share only the operation counter used for logging)",
]
KINDS_FIND = ["none", "wrong-type", "invalid", "pending-ok", "pending-undecodable", "pending-undecodable-lazy", "final", "repo-limit"]
KINDS_GM = ["none", "wrong-type", "store-request", "invalid", "pending", "final-noid", "final-id-ok", "final-id-undecodable",
            "final-id-undecodable-lazy"]


class RespLoop(LoopSpec):
    def __init__(self, task):
        self.task = task

    def havoc(self, I, fr):
        I.ghost["iteration"] = True

    def after_body(self, I, fr):
        # the iteration ended with `continue`/fall-through: the generator keeps running
        self.task.check_iteration(I, ended=False)


def lock_depth(trace):
    d = 0
    for e in trace:
        if e.name.endswith("lock.__enter__"):
            d += 1
        elif e.name.endswith("lock.__exit__"):
            d -= 1
    return d


class WrapTask(Task):
    def __init__(self, which):
        self.which = which
        self.fn = FIND if which == "find" else GETMOVE
        self.name = f"_wrap_{'find' if which == 'find' else 'get_move'}_responses"
        self.functions = [self.fn]
        self.kinds = KINDS_FIND if which == "find" else KINDS_GM

    def config(self, repo):
        c = Config()
        c.ob_prefix = "C24/"
        fi = repo.func(self.fn)
        loops = [n for n in ast.walk(fi.node) if isinstance(n, ast.While)]
        if len(loops) != 1:
            raise Unsupported("expected exactly one while loop")
        # ordinal of the while loop among all loops of the function
        allloops = sorted([n for n in ast.walk(fi.node) if isinstance(n, (ast.For, ast.While))], key=lambda n: (n.lineno, n.col_offset))
        c.loop_specs[(self.fn, allloops.index(loops[0]))] = RespLoop(self)
        task = self

        def get_msg(I, env, method, args, kw):
            g = I.ghost
            if env.path == "assoc.dimse" and method == "get_msg":
                k = I.choose(len(task.kinds), "response kind")
                kind = task.kinds[k]
                g["kind"] = kind
                g["trace_mark"] = len(I.trace)
                g["yields"] = []
                if kind == "none":
                    return (None, None)
                if kind == "wrong-type":
                    return (SV(z3.Int("cx"), "int"), Env("rsp", cls=I.repo.cls(f"{DP}:C_ECHO")))
                if kind == "store-request":
                    r = Env("store_rq", cls=I.repo.cls(f"{DP}:C_STORE"))
                    return (SV(z3.Int("cx"), "int"), r)
                cls = "C_FIND" if task.which == "find" else ["C_GET", "C_MOVE"][I.choose(2, "get or move")]
                r = Env("rsp", cls=I.repo.cls(f"{DP}:{cls}"))
                r.attrs["is_valid_response"] = kind != "invalid"
                st = I.input("int", "Status")
                I.assume(z3.And(st.e >= 0, st.e <= 0xFFFF))
                r.attrs["Status"] = st
                r.attrs["STATUS_OPTIONAL_KEYWORDS"] = ["ErrorComment"]
                r.attrs["ErrorComment"] = None if I.choose(2, "optional status element") else "x"
                for nm in ("NumberOfRemainingSuboperations", "NumberOfCompletedSuboperations", "NumberOfFailedSuboperations",
                           "NumberOfWarningSuboperations"):
                    r.attrs[nm] = I.fresh("int", nm)
                ident = Env("rsp.Identifier")
                if kind in ("final-noid",):
                    r.attrs["Identifier"] = None
                else:
                    ident.truth = True
                    r.attrs["Identifier"] = ident
                g["rsp"] = r
                pend = z3.Or(st.e == 0xFF00, st.e == 0xFF01)
                if kind.startswith("pending"):
                    I.assume(pend)
                elif kind == "repo-limit":
                    I.assume(st.e == 0xB001)
                elif kind.startswith("final"):
                    I.assume(z3.Not(pend))
                    if g.get("is_repo"):
                        I.assume(st.e != 0xB001)     # under Repository Query that warning is the non-final 'repo-limit' kind
                    if kind in ("final-id-ok", "final-id-undecodable", "final-id-undecodable-lazy"):
                        # identifiers are only decoded for Cancel / Warning / Failure results
                        I.assume(z3.Or(st.e == 0xFE00, z3.And(st.e >= 0xA000, st.e <= 0xCFFF)))
                return (SV(z3.Int("cx"), "int"), r)
            if env.path == "assoc" and method == "abort":
                I.trace.append(Ev("abort"))
                return None
            return NotImplemented
        c.env_call = get_msg

        def cat(I, args, kw):
            s = I._num(args[0], "int")
            for name in ST.CATEGORIES:
                if I.branch(SV(ST.category_z3(s) == z3.StringVal(name), "bool"), "category"):
                    return name
            raise Unsupported("category")
        c.summaries["pynetdicom.status:code_to_category"] = cat

        def dec(I, args, kw):
            g = I.ghost
            I.trace.append(Ev("decode", (args[0],)))
            if g["kind"] in ("pending-undecodable", "final-id-undecodable"):
                raise PyRaise(ExcVal("Exception", ("cannot decode the identifier",)))
            d = Env("decoded_identifier")
            d.truth = True if g["kind"].endswith("-lazy") else I.fresh("bool", "identifier non-empty").e
            return d
        c.summaries["pynetdicom.dsutils:decode"] = dec

        def pretty(I, args, kw):
            g = I.ghost
            I.trace.append(Ev("pretty_dataset", (args[0],)))
            if g.get("kind", "").endswith("-lazy"):
                # the element values are converted only now: the identifier turns out to be undecodable
                raise PyRaise(ExcVal("Exception", ("cannot convert an element value of the identifier",)))
            return []
        c.summaries["pynetdicom.dsutils:pretty_dataset"] = pretty
        c.summaries[f"{ASSOC}:Association._handle_no_response"] = lambda I, a, k: I.trace.append(Ev("handle_no_response"))
        c.summaries[f"{ASSOC}:Association._c_store_scp"] = lambda I, a, k: I.trace.append(Ev("c_store_scp", (a[1],)))
        c.ext_models["pydicom.dataset.Dataset"] = lambda I, a, k: Env("Dataset()")
        c.module_consts[("pynetdicom._config", "LOG_RESPONSE_IDENTIFIERS")] = lambda I: I.fresh("bool", "LOG_RESPONSE_IDENTIFIERS")
        c.module_consts[("pynetdicom.sop_class", "RepositoryQuery")] = lambda I: UIDv(z3.IntVal(-7))
        return c

    # ------------------------------------------------------------------
    def check_iteration(self, I, ended):
        g = I.ghost
        P = f"C24/{self.fn}"
        kind = g.get("kind")
        ys = g.get("yields", [])
        tr = I.trace[g.get("trace_mark", 0):]
        names = [e.name for e in tr]
        want_yields = 0 if kind == "store-request" else 1
        I.ob(f"{P}/exactly-one-item-per-response-surfaced-to-the-caller", len(ys) == want_yields,
             detail=f"{kind}: {len(ys)} yields")
        I.ob(f"{P}/no-lock-held-while-the-iterator-is-suspended", all(d == 0 for (_v, d) in ys),
             detail=f"{kind}: lock depths at yields {[d for _v, d in ys]}")
        I.ob(f"{P}/lock-released-at-the-end-of-the-iteration", lock_depth(tr) == 0)
        final = kind in ("none", "wrong-type", "invalid", "final", "final-noid", "final-id-ok", "final-id-undecodable",
                         "final-id-undecodable-lazy") or \
            (kind == "repo-limit" and not g.get("is_repo"))      # 0xB001 is an ordinary (final) Warning outside Repository Query
        I.ob(f"{P}/iteration-stops-exactly-at-the-first-non-Pending-or-unusable-response", ended == final, detail=f"{kind}: ended={ended}")
        if final:
            I.ob(f"{P}/reactor-checkpoint-is-set-when-the-iterator-ends", any(n.endswith("_reactor_checkpoint.set") for n in names))
            # the caller may stop iterating at the final item (break / an exact number of next() calls): the generator is then
            # never resumed, so the paused association reactor must already have been released when that item is surfaced -
            # otherwise nothing the peer sends afterwards (an A-RELEASE-RQ, C07) is ever answered
            cps = g.get("checkpoint_at_yield", [])
            if ys and cps:
                for pfx in ("C24", "C07"):
                    I.ob(f"{pfx}/{self.fn}/the-reactor-is-released-before-the-final-item-is-surfaced", cps[-1] is True,
                         detail=f"{kind}: reactor checkpoint set before the last yield: {cps[-1]}")
        if kind == "none":
            I.ob(f"{P}/no-response:documented-empty-result-and-timeout-handling",
                 "handle_no_response" in names and len(ys) == 1 and ys[0][0][1] is None)
        if kind in ("wrong-type", "invalid"):
            I.ob(f"{P}/unexpected-or-invalid-response:empty-result-and-abort", "abort" in names and len(ys) == 1 and ys[0][0][1] is None)
        if kind == "store-request":
            I.ob(f"{P}/interleaved-C-STORE-request-goes-to-the-sub-operation-handler-and-the-loop-continues",
                 "c_store_scp" in names and not ended)
        if kind in ("pending-ok",) and len(ys) == 1:
            v = ys[0][0]
            I.ob(f"{P}/pending-response:status-and-decoded-identifier", isinstance(v, tuple) and isinstance(v[1], Env) and v[1].path == "decoded_identifier")
        if kind in ("pending-undecodable", "final-id-undecodable") and len(ys) >= 1:
            I.ob(f"{P}/undecodable-identifier:status-with-None", isinstance(ys[0][0], tuple) and ys[0][0][1] is None)
        if kind.endswith("-lazy") and len(ys) >= 1 and "pretty_dataset" in names:
            # the decode failure was detected (and logged) while the identifier was walked for the log
            I.ob(f"{P}/identifier-found-undecodable-while-logging:status-with-None", isinstance(ys[0][0], tuple) and ys[0][0][1] is None,
                 detail=repr(ys[0][0]))
        if kind in ("pending-ok", "pending-undecodable", "pending-undecodable-lazy", "pending", "repo-limit", "final", "final-noid", "final-id-ok",
                    "final-id-undecodable", "final-id-undecodable-lazy") and ys:
            v = ys[0][0]
            sets = [e for e in tr if e.name == "setattr" and e.args[1] == "Status"]
            I.ob(f"{P}/surfaced-status-is-the-received-status", isinstance(v, tuple) and isinstance(v[0], Env) and
                 len(sets) >= 1 and sets[0].args[2] is g["rsp"].attrs["Status"])

    def body(self, I):
        g = I.ghost
        P = f"C24/{self.fn}"
        me = Env("assoc", cls=I.repo.cls(f"{ASSOC}:Association"))
        me.attrs["dimse"] = Env("assoc.dimse")
        me.attrs["lock"] = Env("assoc.lock")
        me.attrs["_reactor_checkpoint"] = Env("assoc._reactor_checkpoint")
        me.attrs["abort"] = Env("assoc.abort")
        me.attrs["abort"].data["parent"] = me
        me.attrs["abort"].data["attr"] = "abort"
        ts = UIDv(I.input("int", "transfer_syntax").e)
        fi = I.repo.func(self.fn)
        given = {"transfer_syntax": ts}
        if self.which == "find":
            # the query model of the C-FIND this iterator belongs to is a fact of the operation, whether or not the wrapper is told
            g["is_repo"] = I.choose(2, "query model") == 1
            if g["is_repo"]:
                given["query_model"] = UIDv(z3.IntVal(-7))
            else:
                qm = I.input("int", "query_model")
                I.assume(qm.e >= 0)
                given["query_model"] = UIDv(qm.e)
        params = [a.arg for a in fi.node.args.posonlyargs + fi.node.args.args][1:]
        unknown = [p for p in params if p not in given]
        if unknown or fi.node.args.kwonlyargs or fi.node.args.vararg or fi.node.args.kwarg:
            raise Unsupported(f"{self.fn}: parameters {unknown or 'of a kind'} the contract does not know how to supply")
        kind, gen = I.run_function(fi, [me] + [given[p] for p in params])
        if not isinstance(gen, GenObj):
            I.ob(f"{P}/returns-an-iterator", False, detail=f"{kind}:{gen!r}")
            return
        g["yields"] = []
        while True:
            try:
                ok, v = I.gen_next(gen)
            except PyRaise as pr:
                I.ob(f"{P}/no-exception-escapes-the-iterator", False, detail=repr(pr.exc))
                return
            if not ok:
                break
            g["yields"].append((v, lock_depth(I.trace)))
            g["checkpoint_at_yield"] = g.get("checkpoint_at_yield", []) + [
                any(e.name.endswith("_reactor_checkpoint.set") for e in I.trace[g.get("trace_mark", 0):])]
        I.ob(f"{P}/no-exception-escapes-the-iterator", True)
        self.check_iteration(I, ended=True)


def tasks(tier):
    from contracts.assoc_abort import AbortTask, NoResponseTask
    # "fail cleanly": the wrappers and send_* methods call _handle_no_response / abort(); what those two do is under contract here
    from contracts.acse_neg import SendAbortTask
    return [WrapTask("find"), WrapTask("getmove"), NoResponseTask("C24/"), AbortTask("C24/"), SendAbortTask("abort", "C24/")]


def replay(rec):
    from pyvc.replay import run_replay
    return run_replay("C24", rec)


LEVEL_TEXT = ("inductive generator contracts on the two response wrappers: for every kind of value get_msg can return (timeout, wrong "
              "type, invalid, Pending with decodable/undecodable identifier, final with/without identifier, repository-query limit "
              "warning, interleaved C-STORE request) exactly one item is surfaced (zero for the sub-operation request), iteration stops "
              "at the first non-Pending response with the reactor checkpoint set, aborts where documented, lock depth 0 at every yield.")
LEVEL_NOTE = "trusted: pyvc, z3, environment model of the association, callee contracts (code_to_category C28, decode, _c_store_scp C19)."
TECHNIQUE = 'deductive: inductive generator/loop contracts with ghost lock depth on the response iterators + effect-trace contracts on _handle_no_response, Association.abort and ACSE.send_abort (AST->VC, z3)'

"""C15 — DIMSE fragmentation respects the peer's maximum length and reassembles exactly."""
from contracts import dimse_frag as D

PROPERTY = "C15"
LEVEL = "proof"
ASSUMPTIONS = [
    "A-FLOAT: ceil(len/(max-6)) is computed exactly (true for IEEE-754 doubles while len < 2**53)",
    "dsutils.encode returns non-empty bytes for a command set (a command set always has CommandGroupLength)",
    "file model: open/seek/read behave like a byte array with a cursor (read(k) returns at most k bytes and only "
    "fewer at end of file)",
    "telescoping: consecutive slices [i*k, min((i+1)*k, n)) for i < N with N*k >= n concatenate to the input "
    "(stated; the per-fragment facts and the count are what the solver proves)",
    "decode_msg chunked-receive branch (_config.STORE_RECV_CHUNKED_DATASET) is covered by C25, fixed to False here",
]


def tasks(tier):
    return [D.GenTask(), D.EncodeTask("mem"), D.EncodeTask("mem-empty"), D.EncodeTask("none"), D.EncodeTask("file"),
            D.DecodeStepTask(), D.SendMsgTask("C15/")]


def replay(rec):
    from pyvc.replay import run_replay
    return run_replay("C15", rec)


LEVEL_TEXT = ("Generator/loop contracts proved by induction on the real bodies: the i-th fragment is input[i*k:min((i+1)k,n)], "
              "1 <= |f| <= max-6, count = ceil(n/k); encode_msg yields one PDV per P-DATA with exact command/last header bits, "
              "PDV-list length <= max, command fragments before data fragments, everything sent (memory and file-backed); "
              "decode_msg appends each payload to the buffer its header names and signals completion exactly at the last fragment, "
              "for any grouping of PDVs into primitives. No bound on lengths or on max. DIMSEServiceProvider.send_msg: message class table, the PEER's maximum length, every P-DATA sent in order.")
LEVEL_NOTE = "trusted: pyvc, z3 (NIA+Seq), math.ceil/float exactness below 2^53, file and BytesIO models, dsutils.encode/decode contracts."
TECHNIQUE = "deductive: inductive loop/generator contracts over symbolic lengths (VCs from the AST, z3 nonlinear arithmetic + sequences)"

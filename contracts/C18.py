"""C18 — outgoing messages use an accepted context compatible with their content."""
from contracts import assoc_scu as U

PROPERTY = "C18"
LEVEL = "proof"
ASSUMPTIONS = [
    "UID predicates is_compressed / is_little_endian are uninterpreted functions of the UID value (pydicom, A-LIB)",
    "accepted contexts are an abstract map id -> context (unknown content, symbolic size); every accepted context has exactly one "
    "transfer syntax (C10/C11)",
    "UPS substitution: for the UPS Push SOP class the other four UPS SOP classes are documented substitutes when no exact context exists",
    "send_* call sites use _get_valid_context by its contract (any accepted context object or ValueError); a timeout is returned for the "
    "response (what happens with responses is C24); N-EVENT-REPORT deliberately ignores the negotiated role (code comment), recorded as role None",
]
NOT_DECIDED = ["_c_store_scp's use of the looked-up context is covered under C19"]


def tasks(tier):
    from contracts.assoc_send import SendOpTask, OPS
    return [U.GetValidContextTask("C18/")] + [SendOpTask(op) for op in OPS]


def replay(rec):
    from pyvc.replay import run_replay
    return run_replay("C18", rec)


LEVEL_TEXT = ("_get_valid_context verified by induction over the candidate list (symbolic length): the result is an accepted context with "
              "the requested abstract syntax (or a documented UPS substitute), the required role, and a transfer syntax that is exact "
              "or, with conversion allowed, uncompressed on both sides with the same byte order; a convertible context is used only "
              "when no candidate matches exactly (quantified loop invariant); otherwise ValueError.")
LEVEL_NOTE = "trusted: pyvc, z3 (UF + quantified invariant), environment model of the accepted-context map."
TECHNIQUE = "deductive: inductive loop contract on Association._get_valid_context + effect-trace call-site contracts on the 12 send_* methods (AST->VC, z3)"

"""C05 — no schedule drives the provider into an undefined event; it returns to idle (PARTIAL: sequential core only).

Decided by contracts:
 * _process_recv_primitive maps the queued local-user primitive to exactly the PS3.8 event (Evt1/7/8/9/11/14/15, the transport
   result for T-CONNECT) and raises ValueError for anything else, before anything is queued;
 * the producers of state-machine events are exactly the functions listed here (AST scan of every event_queue.put) and each
   produces only events of Table 9-10;
 * peer closure: for every state in which the provider reads the socket and every event the peer or the transport can cause
   (Evt3,4,6,10,12,13,16,17,19) the real TRANSITION_TABLE has an entry; likewise Evt18 for the states in which ARTIM runs;
 * ARTIM: an expiry can only be reported while the machine is in Sta2 or Sta13 - for every action that stops the timer and
   leaves those states the stopped timer must not report expiry (REFUTED for AE-6: known finding).

Not decided: whether local-user events (Evt1,7,8,9,11,14,15) are always defined for the state in which the reactor processes
them - that depends on the interleaving of the association thread, user threads and the reactor; and 'eventually idle'."""
import ast
import os

import z3

from pyvc.task import Task, FiniteTask
from pyvc.interp import Interp, Config
from pyvc.values import SV, Obj, Env, Ev, ExcVal, PyRaise, Unsupported
from spec import ps38_fsm as S

PROPERTY = "C05"
LEVEL = "other"
DUL = "pynetdicom.dul"
PRP = f"{DUL}:DULServiceProvider._process_recv_primitive"
TIMER = "pynetdicom.timer"
ASSUMPTIONS = [
    "sequential core only: no obligation quantifies over thread interleavings (A-ATOMIC)",
    "the socket is read only in states that have a transport connection (Sta2, Sta3, Sta5..Sta13): _is_transport_event reads when "
    "socket.ready, and no socket exists in Sta1 / is not yet connected in Sta4",
    "time.monotonic is non-decreasing; the time that passes between the reactor's ARTIM check and an action is arbitrary",
]
NOT_DECIDED = [
    "whether a local-user event is always defined for the state in which the reactor processes it (e.g. abort() while the reactor "
    "is already in Sta13; release() racing the peer's release) - needs an interleaving semantics",
    "'every association eventually brings the provider back to idle' (liveness)",
]
# PS3.8 9.2.1 / Table 9-10: events caused by local service-user primitives
PRIM_EVENTS = {("A_ASSOCIATE", "request"): "Evt1", ("A_ASSOCIATE", "accept"): "Evt7", ("A_ASSOCIATE", "reject"): "Evt8",
               ("A_RELEASE", "request"): "Evt11", ("A_RELEASE", "response"): "Evt14", ("A_ABORT", None): "Evt15",
               ("A_P_ABORT", None): "Evt15", ("P_DATA", None): "Evt9"}
READ_STATES = ["Sta2", "Sta3"] + [f"Sta{i}" for i in range(5, 14)]
ARTIM_STATES = ["Sta2", "Sta13"]


class ProcessPrimitiveTask(Task):
    name = "DULServiceProvider._process_recv_primitive"
    functions = [PRP]

    def config(self, repo):
        c = Config()
        c.ob_prefix = "C05/"

        def env_call(I, env, method, args, kw):
            g = I.ghost
            if env.path == "dul.to_provider_queue.queue" and method == "__getitem__":
                if g["head"] is None:
                    raise PyRaise(ExcVal("IndexError", ("deque index out of range",)))
                return g["head"]
            if env.path == "dul.event_queue" and method == "put":
                I.trace.append(Ev("event", tuple(args)))
                return None
            return NotImplemented
        c.env_call = env_call
        return c

    def body(self, I):
        P = f"C05/{PRP}"
        g = I.ghost
        PP = "pynetdicom.pdu_primitives"
        cases = ["empty"] + [f"{k}/{r}" for (k, r) in PRIM_EVENTS] + ["T_CONNECT/Evt2", "T_CONNECT/Evt17", "other"]
        case = cases[I.choose(len(cases), "head of the provider queue")]
        want = None
        if case == "empty":
            g["head"] = None
        elif case == "other":
            g["head"] = Obj(I.repo.cls("pynetdicom.presentation:PresentationContext"), tag="not a primitive")
        elif case.startswith("T_CONNECT"):
            o = Obj(I.repo.cls("pynetdicom.transport:T_CONNECT"), tag="t_connect")
            want = case.split("/")[1]
            o.fields["_result"] = want
            o.fields["result"] = want
            g["head"] = o
        else:
            kind, r = case.split("/")
            o = Obj(I.repo.cls(f"{PP}:{kind}"), tag=kind)
            want = PRIM_EVENTS[(kind, None if r == "None" else r)]
            if kind == "A_ASSOCIATE":
                o.fields["_result"] = {"request": None, "accept": 0, "reject": [1, 2][I.choose(2, "rejection result")]}[r]
            if kind == "A_RELEASE":
                o.fields["_result"] = None if r == "request" else "affirmative"
            g["head"] = o
        me = Env("dul", cls=I.repo.cls(f"{DUL}:DULServiceProvider"))
        kind_, val = I.run_function(I.repo.func(PRP), [me])
        evs = [e.args[0] for e in I.trace if e.name == "event"]
        if case == "empty":
            I.ob(f"{P}/nothing-queued-for-an-empty-provider-queue", kind_ == "return" and I.as_bool(val) is False and not evs)
        elif case == "other":
            I.ob(f"{P}/an-unknown-primitive-raises-ValueError-and-queues-nothing", kind_ == "raise" and val.cls_name == "ValueError" and not evs)
        else:
            I.ob(f"{P}/queues-exactly-the-PS3.8-event-of-the-primitive", kind_ == "return" and I.as_bool(val) is True and evs == [want],
                 detail=f"{case}: {evs}")
            I.ob(f"{P}/every-queued-event-is-in-Table-9-10", all(e in S.EVENTS for e in evs))


class ProducersScan(FiniteTask):
    """every statement that puts an event on a provider's event queue, in the whole library, puts a Table 9-10 event (a string
    literal, or a variable assigned only such literals / a transport result)"""
    name = "frame/event-producers"
    functions = []
    KNOWN = {("dul.py", "_process_recv_primitive"), ("dul.py", "_read_pdu_data"), ("dul.py", "run_reactor"), ("transport.py", "__init__"),
             ("transport.py", "close"), ("transport.py", "send"), ("transport.py", "ready"),
             ("dimse.py", "receive_primitive")}

    def check(self, repo, emit):
        from pyvc.repo import REPO_ROOT
        sites = []
        for fn in sorted(os.listdir(os.path.join(REPO_ROOT, "pynetdicom"))):
            if not fn.endswith(".py"):
                continue
            tree = ast.parse(open(os.path.join(REPO_ROOT, "pynetdicom", fn), encoding="utf-8").read())
            for f in ast.walk(tree):
                if not isinstance(f, ast.FunctionDef):
                    continue
                for n in ast.walk(f):
                    if isinstance(n, ast.Call) and isinstance(n.func, ast.Attribute) and n.func.attr == "put" \
                            and "event_queue" in ast.unparse(n.func.value):
                        def leaves(e):
                            """the values an expression can take: a literal, either branch of a conditional expression,
                            otherwise the expression's text"""
                            if isinstance(e, ast.Constant):
                                return [e.value]
                            if isinstance(e, ast.IfExp):
                                return leaves(e.body) + leaves(e.orelse)
                            return [ast.unparse(e)]
                        arg = n.args[0]
                        if isinstance(arg, ast.Name):
                            vals = []
                            for a in ast.walk(f):
                                if isinstance(a, (ast.Assign, ast.AnnAssign)) and a.value is not None and any(
                                        isinstance(t, ast.Name) and t.id == arg.id for t in (a.targets if isinstance(a, ast.Assign) else [a.target])):
                                    vals += leaves(a.value)
                                if isinstance(a, ast.Assign) and any(isinstance(t, ast.Tuple) and any(isinstance(x, ast.Name) and x.id == arg.id for x in t.elts) for t in a.targets):
                                    vals.append(ast.unparse(a.value))
                        else:
                            vals = leaves(arg)
                        sites.append((fn, f.name, n.lineno, vals))
        emit("C05/frame/event-producers-found", len(sites) >= 10, detail=f"{len(sites)} sites")
        allowed_expr = {"primitive.result", "self._decode_pdu(bytestream)"}
        # _process_recv_primitive is executed symbolically for every primitive kind (ProcessPrimitiveTask: "every queued event is in
        # Table 9-10", "queues exactly the PS3.8 event of the primitive"), helpers it calls included: for it the syntactic test adds
        # nothing, and a value computed by a helper is not a reason for an alarm (refactoring O_5)
        decided_by_contract = {("dul.py", "_process_recv_primitive")}
        for fn, fname, line, vals in sites:
            ok = bool(vals) and all((v in S.EVENTS) or (v in allowed_expr) for v in vals)
            if (fn, fname) in decided_by_contract and not ok:
                ok, vals = True, vals + ["(decided by the function's own contract)"]
            emit(f"C05/frame/{fn}:{fname}/queues-only-Table-9-10-events", ok, detail=f"line {line}: {vals}")
        prod = {(fn, fname) for fn, fname, _l, _v in sites}
        # a put() that was moved into a private helper of a documented producer still belongs to that producer (scanutil)
        from contracts.scanutil import callers_by_name, roots_of
        callers = callers_by_name(exclude=("tests", "benchmarks"))
        unknown, covered = set(), set()
        for site in prod:
            r = roots_of(site, self.KNOWN, callers)
            if r is None:
                unknown.add(site)
            else:
                covered |= r
        missing = self.KNOWN - covered
        emit("C05/frame/the-set-of-event-producing-functions-is-the-documented-one", not unknown and not missing, detail=str(sorted(unknown | missing)))


class ClosureTask(FiniteTask):
    name = "table/peer-closure"
    functions = []

    def check(self, repo, emit):
        I = Interp(repo, Config())
        ns = I.module_ns(repo.module("pynetdicom.fsm"))
        table = ns["TRANSITION_TABLE"]
        miss = [(e, s) for s in READ_STATES for e in S.PEER_EVENTS if (e, s) not in table]
        emit("C05/table/every-peer-or-transport-event-is-defined-in-every-state-that-reads-the-socket", not miss, detail=str(miss[:6]))
        miss2 = [("Evt18", s) for s in ARTIM_STATES if ("Evt18", s) not in table]
        emit("C05/table/ARTIM-expiry-is-defined-in-the-states-in-which-ARTIM-runs", not miss2, detail=str(miss2))
        extra = sorted(s for (e, s) in table if e == "Evt18" and s not in ARTIM_STATES)
        emit("C05/table/ARTIM-expiry-is-defined-only-in-Sta2-and-Sta13", not extra, detail=str(extra))
        # spec side: PS3.8 Table 9-10 defines the same pairs
        miss3 = [(e, s) for s in READ_STATES for e in S.PEER_EVENTS if (e, s) not in S.TABLE]
        emit("C05/spec/PS3.8-Table-9-10-defines-every-peer-event-in-those-states", not miss3, detail=str(miss3[:6]))


class ArtimTask(Task):
    """the REAL Timer: started, stopped after an arbitrary time, then asked whether it expired.  The reactor asks
    `artim_timer.expired` at the top of every iteration and queues Evt18, which Table 9-10 defines only in Sta2 and Sta13: an
    action that stops ARTIM and moves to another state needs a stopped timer that does not report expiry."""
    name = "ARTIM/a-stopped-timer-outside-Sta2-Sta13"
    functions = [f"{TIMER}:Timer.stop", f"{TIMER}:Timer.expired.fget", f"{TIMER}:Timer.remaining.fget", f"{TIMER}:Timer.start"]

    def config(self, repo):
        c = Config()
        c.ob_prefix = "C05/"

        def clock(I, args, kw):
            g = I.ghost
            t = I.fresh("real", "now")
            if "clock" in g:
                I.assume(t.e >= g["clock"])
            g["clock"] = t.e
            g.setdefault("reads", []).append(t.e)
            return t
        c.ext_models["time.monotonic"] = clock
        return c

    def body(self, I):
        from contracts import C04
        g = I.ghost
        ci = I.repo.cls(f"{TIMER}:Timer")
        tmo = I.input("real", "artim_timeout")
        I.assume(tmo.e > 0)
        t = I.instantiate(ci, [tmo], {})
        I.run_function(I.repo.func(f"{TIMER}:Timer.start"), [t])
        I.run_function(I.repo.func(f"{TIMER}:Timer.stop"), [t])          # an arbitrary time later (adversarial clock)
        kind, exp = I.run_function(ci.props["expired"].fget, [t])
        e = exp.e if isinstance(exp, SV) else z3.BoolVal(bool(exp))
        # which actions stop ARTIM and leave {Sta1 (reactor ends), Sta2, Sta13}?  read from the PS3.8 action table
        n_checked = 0
        for name, spec in sorted(S.ACTIONS.items()):
            eff, nxt = spec["effects"], spec["next"]
            branches = [(eff[k], nxt[k]) for k in eff] if isinstance(eff, dict) else [(eff, nxt)]
            for effects, ns_ in branches:
                if ("artim", "stop") not in effects:
                    continue
                n_checked += 1
                # Sta1: the reactor ends; Sta2/Sta13: Evt18 is defined; a timer started again after the stop is running, not stopped
                if ns_ in ("Sta1", "Sta2", "Sta13") or effects.index(("artim", "stop")) < max(
                        [i for i, x in enumerate(effects) if x == ("artim", "start")] + [-1]):
                    I.ob(f"C05/ARTIM/{name}-stops-the-timer:next-state-{ns_}-ends-the-reactor-defines-Evt18-or-restarts-the-timer", True)
                    continue
                I.ob(f"C05/ARTIM/{name}-stops-the-timer-and-moves-to-{ns_}:the-stopped-timer-does-not-report-expiry-there",
                     z3.Not(e), detail="Timer.stop() after more than the timeout has elapsed leaves expired == True; the reactor then "
                     f"queues Evt18 in {ns_}, which Table 9-10 does not define")
        I.ob("C05/ARTIM/actions-that-stop-the-timer-were-found", n_checked >= 4, detail=f"{n_checked}")
        # the other half of the invariant "ARTIM runs only in Sta2 / Sta13": an action that leaves the timer RUNNING (its last ARTIM
        # effect is a start) ends in a state for which Evt18 is defined; together with the obligations above, an expiry is reported
        # only in those states.  (That the real actions have exactly these effects is C04's obligation, re-proved under this id.)
        n_start = 0
        for name, spec in sorted(S.ACTIONS.items()):
            eff, nxt = spec["effects"], spec["next"]
            branches = [(eff[k], nxt[k]) for k in eff] if isinstance(eff, dict) else [(eff, nxt)]
            for effects, ns_ in branches:
                art = [x for x in effects if x[0] == "artim"]
                if art and art[-1] == ("artim", "start"):
                    n_start += 1
                    I.ob(f"C05/ARTIM/{name}-leaves-the-timer-running:its-next-state-{ns_}-defines-Evt18", ns_ in ARTIM_STATES)
        I.ob("C05/ARTIM/actions-that-start-the-timer-were-found", n_start >= 4, detail=f"{n_start}")


# the ARTIM argument above is made over the PS3.8 action table; that each real action function has exactly the table's effects
# (ARTIM start/stop included) and next state, and that do_action performs the table's action, is C04's contract - borrowed
RELABEL = {"C04/": "C05/actions:", "C02/": "C05/receive:"}
# "instead of the provider thread dying with an error": the actions convert the received PDU to a primitive INSIDE do_action, which
# re-raises; that this cannot fail there rests on the receive path's contract (C02): whatever the peer sent, _read_pdu_data never
# raises, queues exactly one receive event, and hands a PDU to the state machine only after that PDU converted once (and the
# conversion does not modify the PDU, so it converts again) - a PDU that does not convert is Evt19
RELABEL_ONLY = {"C04/": r"protocol-effects-are-exactly-PS3\.8|next-state-is-PS3\.8|performs-exactly-the-Table-9-10-action|"
                        r"moves-to-the-state-the-action-returned|pair-not-in-Table-9-10",
                "C02/": r"_read_pdu_data/(a-PDU-is-queued-for-the-state-machine-only-after-it-converted|a-PDU-that-does-not-convert-is-reported-as-Evt19|"
                        r"never-raises|queues-exactly-one-event|event-is-a-receive-event)|to_primitive/frame:does-not-modify-self|conversion-methods-found"}


def tasks(tier):
    from contracts.C27 import SendTask
    from contracts.dul_reactor import DulReactorTask, TransportEventTask
    from contracts import C04
    return [ProcessPrimitiveTask(), ProducersScan(), ClosureTask(), ArtimTask(), SendTask(), DulReactorTask(), TransportEventTask()] + \
        [C04.ActionTask(a) for a in sorted(S.ACTIONS)] + [C04.DoActionTask(e) for e in S.EVENTS] + _receive_tasks()


def _receive_tasks():
    from contracts import recvpath
    from contracts.C02 import ConversionFrameTask
    return [recvpath.ReadPduTask(), ConversionFrameTask()]


def replay(rec):
    from pyvc.replay import run_replay
    oid = rec.get("id", "")
    if oid.startswith("C05/actions:"):
        return run_replay("C04", dict(rec, id="C04/" + oid[len("C05/actions:"):]))
    if oid.startswith("C05/receive:"):
        return run_replay("C02", dict(rec, id="C02/" + oid[len("C05/receive:"):]))
    return run_replay("C05", rec)


LEVEL_TEXT = ("contract-based, partial (sequential core): exact event mapping of _process_recv_primitive, AST scan of all event producers, "
              "exhaustive peer/ARTIM closure of the real transition table, ARTIM expiry reachability through the real Timer with an "
              "adversarial clock. Interleavings of local-user events and liveness are not decided. One arbitrary iteration of DULServiceProvider.run_reactor: ARTIM first (Evt18), one source and at most one action per iteration, failure ends the provider with an A-ABORT.")
LEVEL_NOTE = "level 'other': see not_decided; one open known finding (ARTIM stopped after expiry by AE-6)."
TECHNIQUE = 'deductive: effect-trace contracts (_process_recv_primitive, one arbitrary reactor iteration, _is_transport_event) + real Timer under an adversarial clock (AST->VC, z3 LRA) + exhaustive table/AST scans + re-proved action (C04) and receive-path (C02) contracts the ARTIM/no-crash argument rests on'

"""Call-site contracts on every Association.send_c_* / send_n_* (C18): the request goes out on the context that
_get_valid_context returned for the operation's SOP class and role, every data set is encoded with THAT context's transfer
syntax, and file-backed C-STORE forbids conversion.  _get_valid_context is used by its contract (GetValidContextTask): it
returns some accepted context object or raises ValueError."""
import ast

import z3

from pyvc.task import Task
from pyvc.interp import Interp, Config
from pyvc.values import SV, Obj, Env, Ev, ExcVal, PyRaise, Unsupported
from contracts.negotiation import UIDv, lit_id
from contracts.dsmodel import DatasetV

ASSOC = "pynetdicom.association"
GVC = f"{ASSOC}:Association._get_valid_context"
PR = "pynetdicom.presentation"
# operation -> (role the local side needs, where the SOP class of the context comes from)
OPS = {
    "send_c_echo": ("scu", "Verification"), "send_c_find": ("scu", "query_model"), "send_c_get": ("scu", "query_model"),
    "send_c_move": ("scu", "query_model"), "send_c_store": ("scu", "dataset"), "send_n_action": ("scu", "meta_or_class"),
    "send_n_create": ("scu", "meta_or_class"), "send_n_delete": ("scu", "meta_or_class"),
    # N-EVENT-REPORT is sent by the SCP of the SOP class; pynetdicom deliberately ignores the negotiated role there (code
    # comment: "N-EVENT-REPORT doesn't use SCP/SCU Role selection negotiation"): the contract records role None
    "send_n_event_report": (None, "meta_or_class"), "send_n_get": ("scu", "meta_or_class"), "send_n_set": ("scu", "meta_or_class"),
    "send_c_cancel": ("scu", "query_model"),
}
VERIFICATION = -31


class StoreDs:
    """a pydicom Dataset handed to send_c_store: SOP class / instance, file meta with a transfer syntax, its own encoding"""
    ext_class = "pydicom.dataset.Dataset"
    ext_bases = ("Dataset",)

    def __init__(self, I, tag):
        self.sop_class = UIDv(I.input("int", f"{tag}.SOPClassUID").e)
        self.sop_instance = UIDv(I.input("int", f"{tag}.SOPInstanceUID").e)
        self.ts = UIDv(I.input("int", f"{tag}.TransferSyntaxUID").e)
        self.enc = (I.input("bool", f"{tag}.is_implicit_VR"), I.input("bool", f"{tag}.is_little_endian"))
        fm = Env(f"{tag}.file_meta")
        fm.attrs["TransferSyntaxUID"] = self.ts
        self.file_meta = fm

    def truth(self, I):
        return True

    def sym_contains(self, I, item):
        return item in ("SOPClassUID", "SOPInstanceUID")

    def sym_getattr(self, I, name):
        return {"SOPClassUID": self.sop_class, "SOPInstanceUID": self.sop_instance, "file_meta": self.file_meta,
                "is_implicit_VR": self.enc[0], "is_little_endian": self.enc[1], "original_encoding": self.enc}.get(name, NotImplemented)


class SendOpTask(Task):
    shard = True

    def __init__(self, op, prefix="C18/"):
        self.op, self.prefix = op, prefix
        self.fn = f"{ASSOC}:Association.{op}"
        self.name = f"Association.{op}"
        self.functions = [self.fn]

    def config(self, repo):
        c = Config()
        c.ob_prefix = self.prefix
        c.ext_models["pydicom.uid.UID"] = lambda I, a, k: a[0]
        c.summaries["pynetdicom.utils:set_uid"] = lambda I, a, k: (a[0] if a else k.get("value"))
        c.summaries["pynetdicom.utils:set_ae"] = lambda I, a, k: (a[0] if a else k.get("value"))
        c.summaries["pynetdicom.dsutils:pretty_dataset"] = lambda I, a, k: []
        c.module_consts[("pynetdicom.sop_class", "Verification")] = lambda I: UIDv(z3.IntVal(VERIFICATION))
        for nm, v in (("ImplicitVRLittleEndian", -41), ("ExplicitVRBigEndian", -42)):
            c.ext_consts[f"pydicom.uid.{nm}"] = UIDv(z3.IntVal(v))
        for flag in ("LOG_REQUEST_IDENTIFIERS", "LOG_RESPONSE_IDENTIFIERS"):
            c.module_consts[("pynetdicom._config", flag)] = False
        c.module_consts[("pynetdicom._config", "STORE_SEND_CHUNKED_DATASET")] = lambda I: I.ghost["chunked_send"]
        c.ext_models["time.sleep"] = lambda I, a, k: None
        c.ext_models["pydicom.dataset.Dataset"] = lambda I, a, k: Env("Dataset()")
        c.ext_models["pydicom.tag.Tag"] = lambda I, a, k: a[0]
        c.ext_models["pathlib.Path"] = lambda I, a, k: Env("Path(file)")
        c.ext_models["os.fspath"] = lambda I, a, k: "file.dcm"
        c.ext_models["pydicom.filereader.dcmread"] = lambda I, a, k: I.ghost["file_ds"]
        c.ext_models["pydicom.dcmread"] = lambda I, a, k: I.ghost["file_ds"]

        def split(I, a, k):
            fm = DatasetV([("MediaStorageSOPClassUID", I.ghost["file_ds"].sop_class), ("MediaStorageSOPInstanceUID", I.ghost["file_ds"].sop_instance),
                           ("TransferSyntaxUID", I.ghost["file_ds"].ts)])
            return (fm, I.input("int", "offset"))
        c.summaries["pynetdicom.dsutils:split_dataset"] = split

        def bio(I, a, k):
            e = Env("BytesIO")
            e.kind = "BytesIO"
            e.truth = True
            return e
        c.ext_models["io.BytesIO"] = bio

        def gvc(I, args, kw):
            g = I.ghost
            a = dict(zip(["self", "ab_syntax", "tr_syntax", "role", "context_id", "allow_conversion"], args))
            a.update(kw)
            g.setdefault("gvc_calls", []).append(a)
            I.trace.append(Ev("get_valid_context", (a,)))
            if I.choose(2, "_get_valid_context") == 1:
                g["no_context"] = True
                raise PyRaise(ExcVal("ValueError", ("no suitable presentation context",)))
            cx = Obj(I.repo.cls(f"{PR}:PresentationContext"), tag="chosen context")
            cx.fields.update(_context_id=I.input("int", "chosen_context_id"), _abstract_syntax=UIDv(I.input("int", "chosen_abstract_syntax").e),
                             _transfer_syntax=[UIDv(I.input("int", "chosen_transfer_syntax").e)], result=0, _as_scu=True, _as_scp=True)
            g["cx"] = cx
            return cx
        c.summaries[GVC] = gvc

        def enc(I, args, kw):
            I.trace.append(Ev("encode", tuple(args)))
            if I.choose(2, "encode") == 1:
                return None
            return b"\x01\x02"
        c.summaries["pynetdicom.dsutils:encode"] = enc
        for nm in ("_wrap_find_responses", "_wrap_get_move_responses"):
            c.summaries[f"{ASSOC}:Association.{nm}"] = lambda I, a, k: Env("response-iterator")
        c.summaries[f"{ASSOC}:Association._handle_no_response"] = lambda I, a, k: None
        c.summaries[f"{ASSOC}:Association._check_received_status"] = lambda I, a, k: Env("status")

        def env_call(I, env, method, args, kw):
            if env.path == "assoc.dimse" and method == "send_msg":
                I.trace.append(Ev("send_msg", tuple(args)))
                return None
            if env.path == "assoc.dimse" and method == "get_msg":
                return (None, None)            # no response (timeout): what follows is C24's concern
            if env.path == "assoc._reactor_checkpoint":
                return None
            return NotImplemented
        c.env_call = env_call

        def truth_hook(I, v):
            if isinstance(v, Env) and v.kind == "BytesIO":
                return True
            return NotImplemented
        c.truth_hook = truth_hook
        return c

    def build_args(self, I, fi):
        g = I.ghost
        out = {}
        names = [a.arg for a in fi.node.args.args[1:]]
        uid = lambda nm: UIDv(I.input("int", nm).e)            # noqa: E731
        for nm in names:
            if nm == "dataset":
                if self.op == "send_c_store":
                    mode = ["dataset", "file", "file-chunked"][I.choose(3, "what is stored")]
                    g["store_mode"] = mode
                    g["chunked_send"] = mode == "file-chunked"
                    g["file_ds"] = StoreDs(I, "file")
                    out[nm] = StoreDs(I, "dataset") if mode == "dataset" else "file.dcm"
                    g["store_ds"] = out[nm] if mode == "dataset" else g["file_ds"]
                else:
                    d = Env("dataset")
                    d.truth = True
                    out[nm] = d
            elif nm in ("query_model", "class_uid", "instance_uid"):
                out[nm] = uid(nm)
            elif nm == "meta_uid":
                out[nm] = uid(nm) if I.choose(2, "meta SOP class given") == 0 else None
            elif nm == "move_aet":
                out[nm] = "DEST"
            elif nm == "identifier_list":
                out[nm] = []
            elif nm in ("action_type", "event_type"):
                v = I.input("int", nm)
                I.assume(z3.And(v.e >= 0, v.e <= 65535))
                out[nm] = v
            elif nm == "msg_id":
                v = I.input("int", "msg_id")
                I.assume(z3.And(v.e >= 0, v.e <= 65535))
                out[nm] = v
            elif nm == "context_id":
                if I.choose(2, "cancel by query model or by context id") == 0:
                    out[nm] = None
                else:
                    out[nm] = I.input("int", "caller_supplied_context_id")
                    g["cancel_by_id"] = True
        if self.op == "send_c_cancel" and g.get("cancel_by_id"):
            out["query_model"] = None
        return out

    def body(self, I):
        P = f"{self.prefix}{self.fn}"
        g = I.ghost
        fi = I.repo.func(self.fn)
        me = Env("assoc", cls=I.repo.cls(f"{ASSOC}:Association"))
        me.attrs.update(is_established=True, _is_paused=True, dimse=Env("assoc.dimse"), _reactor_checkpoint=Env("assoc._reactor_checkpoint"))
        g["chunked_send"] = False
        kwargs = self.build_args(I, fi)
        kind, val = I.run_function(fi, [me], kwargs)
        sends = [e for e in I.trace if e.name == "send_msg"]
        calls = g.get("gvc_calls", [])
        role, src = OPS[self.op]
        if g.get("no_context"):
            I.ob(f"{P}/nothing-is-sent-when-no-suitable-accepted-context-exists", not sends and kind == "raise" and val.cls_name == "ValueError",
                 detail=f"{kind}:{val!r}")
            return
        I.ob(f"{P}/at-most-one-request-is-sent", len(sends) <= 1)
        if not sends:
            return                                  # refused before sending (unencodable data set, missing elements, ...)
        req, cid = sends[0].args[0], sends[0].args[1]
        if g.get("cancel_by_id"):
            # C-CANCEL on a caller-supplied context id: the only send that does not go through _get_valid_context
            I.ob(f"{P}/a-caller-supplied-context-id-is-checked-against-the-accepted-contexts-before-it-is-used", len(calls) == 1,
                 detail="send_msg(primitive, context_id) with the caller's id, no lookup")
            return
        I.ob(f"{P}/the-context-is-looked-up-exactly-once-before-sending", len(calls) == 1 and
             I.trace.index(next(e for e in I.trace if e.name == "get_valid_context")) < I.trace.index(sends[0]))
        if len(calls) != 1:
            return
        cx, a = g["cx"], calls[0]
        same = I.eq(cid, cx.fields["_context_id"])
        I.ob(f"{P}/the-request-goes-out-on-the-context-that-was-looked-up", same if not isinstance(same, bool) else z3.BoolVal(same))
        I.ob(f"{P}/the-lookup-asks-for-the-role-the-operation-needs", a.get("role") == role, detail=f"role {a.get('role')!r}, needed {role!r}")
        want_ab = {"Verification": UIDv(z3.IntVal(VERIFICATION)), "query_model": kwargs.get("query_model"),
                   "meta_or_class": kwargs.get("meta_uid") if kwargs.get("meta_uid") is not None else kwargs.get("class_uid"),
                   "dataset": g["store_ds"].sop_class if "store_ds" in g else None}[src]
        ab_ok = I.eq(a.get("ab_syntax"), want_ab)
        I.ob(f"{P}/the-lookup-asks-for-the-operations-SOP-class", ab_ok if not isinstance(ab_ok, bool) else z3.BoolVal(ab_ok))
        ts0 = cx.fields["_transfer_syntax"][0]
        for e in [e for e in I.trace if e.name == "encode"]:
            want = [I.getattr(ts0, n).e for n in ("is_implicit_VR", "is_little_endian", "is_deflated")]
            got = e.args[1:4]
            ok = len(got) == 3 and all(isinstance(f, SV) and f.e.eq(w) for f, w in zip(got, want))
            I.ob(f"{P}/data-sets-are-encoded-with-the-transfer-syntax-of-the-context-used", ok, detail=repr(got))
        if self.op == "send_c_store":
            mode = g["store_mode"]
            I.ob(f"{P}/conversion-is-forbidden-exactly-for-a-file-sent-in-chunks", a.get("allow_conversion") is (mode != "file-chunked"),
                 detail=f"{mode}: allow_conversion={a.get('allow_conversion')!r}")
            ds = g["store_ds"]
            t = a.get("tr_syntax")
            # the transfer syntax asked for is the data set's own (file meta), or - documented - Implicit LE / Explicit BE when the
            # data set's actual encoding says so
            alt = z3.Or(*[_b(I.eq(t, x)) for x in (ds.ts, UIDv(z3.IntVal(-41)), UIDv(z3.IntVal(-42)))])
            I.ob(f"{P}/the-lookup-asks-for-the-data-sets-transfer-syntax-(or-the-documented-substitute-for-a-mismatching-encoding)", alt)
            if mode == "file-chunked":
                same_ts = I.eq(t, ds.ts)
                I.ob(f"{P}/a-file-sent-in-chunks-asks-for-exactly-its-own-transfer-syntax", same_ts if not isinstance(same_ts, bool) else z3.BoolVal(same_ts))


def _b(t):
    return z3.BoolVal(t) if isinstance(t, bool) else t

"""C14 — concurrent acceptor associations never exceed the configured maximum (PARTIAL: per-call obligation)."""
from contracts import acse_accept as A

PROPERTY = "C14"
LEVEL = "other"
ASSUMPTIONS = [
    "INTERLEAVING LEMMA (stated, NOT machine-checked): an association thread is in AE.active_associations from before its check "
    "until it ends, so the established association whose check ran last saw all other established ones alive; with the per-call "
    "obligation (established only if the count, which includes the caller, is <= limit) at most `limit` are established at once",
    "threading.enumerate() returns the live threads (library contract); AE.active_associations is proved to select exactly the "
    "Association threads of this AE among them, whatever their state",
]
NOT_DECIDED = ["all arrival patterns / interleavings of negotiation threads (thread schedules are outside function contracts)"]
EXPLANATION = ("partial: the per-call limit check and rejection triple are proved for all inputs; the step to 'never more than N "
               "established at once' is an interleaving argument stated as an assumption")


def tasks(tier):
    return [A.LimitTask("C14/"), A.ActiveAssociationsTask("C14/")]


def replay(rec):
    from pyvc.replay import run_replay
    return run_replay("C14", rec)


LEVEL_TEXT = ("per call: the association is established only if the number of live acceptor associations (including the caller) is at "
              "most maximum_associations at the check, and over the limit the rejection is (transient, presentation, "
              "local-limit-exceeded); the concurrency step is a stated assumption, hence level 'other'. AE.active_associations selects exactly the live Association threads of the AE.")
LEVEL_NOTE = "trusted: pyvc, z3; interleaving lemma not machine-checked."
TECHNIQUE = "deductive (per-call): effect-trace contract on the limit check in ACSE._negotiate_as_acceptor; schedule quantifier not decided"

"""Character-level symbolic strings of statically known length: a `CharStr` is a list of z3 Int code points.
Used for the value-representation obligations (AE titles, UIDs): the verifier forks over the length (the code under contract
bounds it: 16 / 64) and keeps every character symbolic over the whole Unicode range."""
import z3

from pyvc.values import SV, Unsupported, PyRaise, ExcVal

MAXCP = 0x10FFFF
# str.strip() without arguments removes characters for which str.isspace() is true; in the ASCII range these are
# \t \n \v \f \r, FS GS RS US (0x1C-0x1F) and space (checked against CPython for all 128 code points in the thorough tier)
ASCII_SPACE = (9, 10, 11, 12, 13, 28, 29, 30, 31, 32)
# unicodedata.category(c)[0] == 'C' in the ASCII range: the C0 controls and DEL (checked exhaustively, see C12 tables task)
ASCII_CONTROL = tuple(range(0, 32)) + (127,)


def one_of(c, codes):
    return z3.Or(*[c == k for k in codes])


class CharStr:
    ext_class = "str"
    cond_comp = True       # filtering comprehensions over the characters are evaluated without forking

    def __init__(self, chars):
        self.chars = list(chars)

    @staticmethod
    def fresh(I, name, n):
        cs = []
        for i in range(n):
            c = I.input("int", f"{name}[{i}]").e
            I.assume(z3.And(c >= 0, c <= MAXCP))
            cs.append(c)
        return CharStr(cs)

    def sym_kind(self):
        return "astr"

    def truth(self, I):
        return len(self.chars) > 0

    def sym_len(self, I):
        return len(self.chars)

    def sym_iter(self, I):
        return [CharStr([c]) for c in self.chars]

    def sym_index(self, I, i):
        if isinstance(i, int):
            try:
                return CharStr([self.chars[i]])
            except IndexError:
                raise PyRaise(ExcVal("IndexError", ("string index out of range",)))
        raise Unsupported("symbolic index into a character string")

    def sym_eq(self, I, other):
        if isinstance(other, str):
            if len(other) != len(self.chars):
                return False
            if not other:
                return True
            return z3.And(*[c == ord(o) for c, o in zip(self.chars, other)])
        if isinstance(other, CharStr):
            if len(other.chars) != len(self.chars):
                return False
            if not self.chars:
                return True
            return z3.And(*[a == b for a, b in zip(self.chars, other.chars)])
        return False

    def sym_contains(self, I, item):
        if isinstance(item, str) and len(item) == 1:
            if not self.chars:
                return False
            return z3.Or(*[c == ord(item) for c in self.chars])
        if isinstance(item, str) and item == "":
            return True
        raise Unsupported("substring test on a character string")

    def sym_method(self, I, name, args, kw):
        if name == "isascii":
            return SV(z3.And(*[c < 128 for c in self.chars]), "bool") if self.chars else True
        if name == "strip" and not args:
            return Stripped(self)
        if name in ("strip", "lstrip", "rstrip") and len(args) == 1 and isinstance(args[0], str) and args[0]:
            # strip(<given characters>): the actual remaining characters, one path per number of characters removed at each end
            def pred(c):
                return z3.Or(*[c == ord(x) for x in args[0]])
            cs = list(self.chars)
            i, j = 0, len(cs)
            if name in ("strip", "lstrip"):
                while i < j and I.branch(SV(pred(cs[i]), "bool"), "strip-leading"):
                    i += 1
            if name in ("strip", "rstrip"):
                while j > i and I.branch(SV(pred(cs[j - 1]), "bool"), "strip-trailing"):
                    j -= 1
            return type(self)(cs[i:j]) if type(self) is not CharStr else CharStr(cs[i:j])
        if name == "encode":
            return self
        return NotImplemented

    def sym_str(self, I):
        return self

    def sym_cmp(self, I, op, other, reflected):
        """ordering of single characters (code point order); longer strings: undecided"""
        import ast as _ast
        if isinstance(other, str) and len(other) == 1 and len(self.chars) == 1:
            a, b = self.chars[0], z3.IntVal(ord(other))
        elif isinstance(other, CharStr) and len(other.chars) == 1 and len(self.chars) == 1:
            a, b = self.chars[0], other.chars[0]
        else:
            raise Unsupported("ordering comparison of symbolic strings longer than one character")
        if reflected:
            a, b = b, a
        return {_ast.Lt: a < b, _ast.LtE: a <= b, _ast.Gt: a > b, _ast.GtE: a >= b}[type(op)]

    def all_in(self, pred):
        return z3.And(*[pred(c) for c in self.chars]) if self.chars else z3.BoolVal(True)

    def __repr__(self):
        return f"CharStr(len={len(self.chars)})"


class Stripped:
    """value.strip(): only its emptiness is observed by the code under contract"""

    def __init__(self, base):
        self.base = base

    def all_space(self):
        cs = self.base.chars
        if not cs:
            return z3.BoolVal(True)
        # a non-ASCII character may or may not be whitespace: left unconstrained per character
        return z3.And(*[z3.If(c < 128, one_of(c, ASCII_SPACE), z3.Bool(f"isspace({c})")) for c in cs])

    def truth(self, I):
        return z3.Not(self.all_space())

    def sym_len(self, I):
        raise Unsupported("length of a stripped symbolic string")


class LongStr:
    """a string known only to be LONGER than the representation's bound: any access to its characters is undecided"""
    ext_class = "str"

    def __init__(self, I, name, more_than):
        self.n = I.input("int", f"len({name})").e
        I.assume(self.n > more_than)

    def truth(self, I):
        return True

    def sym_len(self, I):
        return SV(self.n, "int")

    def sym_method(self, I, name, args, kw):
        raise Unsupported(f"str.{name} on a string of unbounded length")


class CategoryV:
    """unicodedata.category(c) for a single symbolic character: only `[0] == 'C'` is observed"""

    def __init__(self, c):
        self.c = c

    def sym_index(self, I, i):
        if i == 0:
            return MajorClass(self.c)
        raise Unsupported("unicodedata.category(c)[i], i != 0")


class MajorClass:
    def __init__(self, c):
        self.c = c

    def sym_eq(self, I, other):
        if other == "C":
            # exact for ASCII; for other characters unconstrained (the callers reject non-ASCII before)
            return z3.If(self.c < 128, one_of(self.c, ASCII_CONTROL), z3.Bool(f"is_other_category({self.c})"))
        raise Unsupported("comparison of a Unicode major class with something other than 'C'")


def category_model(I, args, kw):
    v = args[0]
    if isinstance(v, CharStr) and len(v.chars) == 1:
        return CategoryV(v.chars[0])
    if isinstance(v, str) and len(v) == 1:
        import unicodedata
        return unicodedata.category(v)
    raise Unsupported("unicodedata.category on a non-character")

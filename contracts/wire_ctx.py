"""Call-site precondition of the negotiation functions, established where peer data enters: the proposed contexts an acceptor
negotiates are built by PresentationContextItemRQ.to_primitive from a received A-ASSOCIATE-RQ.  negotiate_as_acceptor REQUIRES at
least one transfer syntax per proposed context (C10); this task proves that to_primitive delivers that or raises - and a
raising conversion makes _read_pdu_data classify the PDU as invalid (C02 d) before any negotiation runs."""
import z3

from pyvc.task import Task
from pyvc.interp import Interp, Config
from pyvc.values import SV, Obj, Env, Ev, ExcVal, PyRaise, Unsupported
from contracts.negotiation import UIDv, neg_config

ITEMS = "pynetdicom.pdu_items"
TOP = f"{ITEMS}:PresentationContextItemRQ.to_primitive"


class ProposedContextFromWireTask(Task):
    name = "PresentationContextItemRQ.to_primitive/what-the-acceptor-negotiates"
    functions = [TOP]

    def __init__(self, prefix="C10/"):
        self.prefix = prefix

    def config(self, repo):
        c = neg_config(self.prefix)
        # add_transfer_syntax by contract (TsInvariantTask): appends a non-empty, not yet held UID, ignores duplicates, raises
        # ValueError for the empty UID
        def add_ts(I, args, kw):
            cx, u = args[0], args[1]
            if isinstance(u, UIDv) and I.branch(SV(u.ident == -1000001 if False else I.eq(u, ""), "bool") if not isinstance(I.eq(u, ""), bool) else I.eq(u, ""), "empty UID"):
                raise PyRaise(ExcVal("ValueError", ("empty transfer syntax",)))
            cx.fields.setdefault("_transfer_syntax", []).append(u)
            return None
        c.summaries["pynetdicom.presentation:PresentationContext.add_transfer_syntax"] = add_ts
        return c

    def body(self, I):
        P = f"{self.prefix}{TOP}"
        item = Obj(I.repo.cls(f"{ITEMS}:PresentationContextItemRQ"), tag="received item")
        cid = I.input("int", "presentation_context_id")
        I.assume(z3.And(cid.e >= 0, cid.e <= 255))
        n_ts = I.choose(3, "number of transfer syntax sub-items in the received item")
        has_ab = I.choose(2, "abstract syntax sub-item present") == 0
        subs = []
        if has_ab:
            a = Obj(I.repo.cls(f"{ITEMS}:AbstractSyntaxSubItem"), tag="abstract")
            a.fields["_abstract_syntax_name"] = UIDv(I.input("int", "abstract_syntax").e)
            subs.append(a)
        for k in range(n_ts):
            t = Obj(I.repo.cls(f"{ITEMS}:TransferSyntaxSubItem"), tag=f"ts{k}")
            t.fields["_transfer_syntax_name"] = UIDv(I.input("int", f"transfer_syntax_{k}").e)
            subs.append(t)
        item.fields.update(presentation_context_id=cid, abstract_transfer_syntax_sub_items=subs)
        kind, val = I.run_function(I.repo.func(TOP), [item])
        if kind == "raise":
            I.ob(f"{P}/a-malformed-item-raises-ValueError-(the-PDU-is-then-classified-as-invalid)", val.cls_name == "ValueError", detail=repr(val))
            return
        ts = val.fields.get("_transfer_syntax") if isinstance(val, Obj) else None
        I.ob(f"{P}/a-proposed-context-handed-to-the-negotiation-has-at-least-one-transfer-syntax", isinstance(ts, list) and len(ts) >= 1,
             detail=f"{n_ts} transfer syntax sub-items received: the context has {len(ts) if isinstance(ts, list) else ts!r}")

"""C13 — associations are established only when the acceptance policy allows them."""
from contracts import acse_accept as A
from contracts import codec

PROPERTY = "C13"
LEVEL = "proof"
ASSUMPTIONS = [
    "the calling/called AE titles on the A-ASSOCIATE primitive are the stripped titles (C01: A_ASSOCIATE_RQ decoding strips padding; "
    "re-proved under this id)",
    "str.strip is an uninterpreted function; list membership is the Boolean value of `x in list`",
    "callee contracts: _check_user_identity (own task), _check_sop_class_extended/_common_extended/_async_ops (opaque, no rejection), "
    "negotiate_as_acceptor (C10), send_accept/send_reject (traced; their PDUs are C12/C04)",
    "when several checks fail the code reports the LAST failing one in the order calling, called, identity, association limit; "
    "the contract accepts the documented triple of any failed check",
    "'no DIMSE service handler is ever invoked for that connection' is carried by: no establishment after a reject + assoc.kill(); the "
    "reactor only serves requests while is_established (C19/C20 contracts)",
]


def tasks(tier):
    return [A.NegAcceptTask("C13/"), A.CheckIdentityTask("C13/"), codec.LayoutTask("A_ASSOCIATE_RQ", 1, "C13/"),
            A.WireTitleTask("calling", "C13/"), A.WireTitleTask("called", "C13/"), A.UnbindTask("C13/"), _send_reject(), A.CheckExtendedTask("common", "C13/"), A.CheckExtendedTask("extended", "C13/"), A.DefaultHandlersTask("C13/"), A.CheckAsyncOpsTask("C13/"), A.UserIdentityGetterTask("C13/")]


def replay(rec):
    from pyvc.replay import run_replay
    return run_replay("C13", rec)


LEVEL_TEXT = ("_negotiate_as_acceptor executed symbolically over arbitrary titles, required-title list, policy flags, identity verdicts, "
              "live-association count: accept only under the stated policy; otherwise exactly one reject with the documented triple, "
              "EVT_REJECTED, kill, never established. _check_user_identity verified for every handler behaviour (absent, not "
              "implemented, raising, negative, positive).")
LEVEL_NOTE = "trusted: pyvc, z3 (strings with uninterpreted strip), environment model of assoc/ae, callee contracts listed in the evidence."
TECHNIQUE = 'deductive: effect-trace contracts on ACSE._negotiate_as_acceptor, the four negotiation-handler call sites, send_reject (arbitrary integers, z3 LIA), the wire title setters (layout algebra) and the handler bookkeeping (AST->VC, z3)'


def _send_reject():
    from contracts.acse_neg import SendRejectTask
    return SendRejectTask("C13/")

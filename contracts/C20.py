"""C20 — each service request gets exactly one final response with its message ID."""
from contracts import svc as S

PROPERTY = "C20"
LEVEL = "proof"
ASSUMPTIONS = [
    "handler behaviour is adversarial: any value, any number of results, exceptions at any point (stream induction)",
    "assoc.is_established may change at every read (handler/peer abort or release)",
    "dimse.send_msg is observed with a snapshot of the response primitive at the call (C15 carries it to the wire)",
]
NOT_DECIDED = []


def tasks(tier):
    return [S.WrapHandlerTask("C20/"), S.FindScpTask("C20/"), S.GetMoveScpTask("get"), S.GetMoveScpTask("move")]


def replay(rec):
    from pyvc.replay import run_replay
    return run_replay("C20", rec)


LEVEL_TEXT = "stream-inductive contracts on the service-class SCP implementations"
LEVEL_NOTE = "trusted: pyvc, z3, environment model"
TECHNIQUE = "deductive: stream-inductive loop contracts over adversarial handler results, effect trace at dimse.send_msg (AST->VC, z3)"

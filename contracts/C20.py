"""C20 — each service request gets exactly one final response with its message ID."""
from contracts import svc as S
from contracts import assoc_serve as AS
from pyvc.repo import Repo

PROPERTY = "C20"
LEVEL = "proof"
# work in progress: the stream-inductive contracts in contracts/svc.py still leave obligations of this property failing or
# undecided that have not been triaged (replayed on the real code), and a quick run takes 1-8 minutes; the property is
# therefore NOT claimed in MANIFEST.json (tools/gen_manifest.py lists it under not_applicable).  `./check C20` runs it.
CLAIMED = True
NA_REASON = ("contracts for this property (contracts/svc.py) are work in progress: some obligations still fail or are undecided and "
             "have not been triaged by replay on the real code, so the check is not registered; not claimed (DESIGN.md section 10)")
ASSUMPTIONS = [
    "handler behaviour is adversarial: any value, any number of results, exceptions at any point (stream induction)",
    "assoc.is_established may change at every read (handler/peer abort or release)",
    "dimse.send_msg is observed with a snapshot of the response primitive at the call (C15 carries it to the wire)",
]
NOT_DECIDED = []


def tasks(tier):
    return ([S.FindScpTask("C20/", table=t) for t in S.find_scp_tables(Repo())] + [S.WrapHandlerTask("C20/"), S.GetMoveScpTask("get"), S.GetMoveScpTask("move")]
            + [S.SingleScpTask(w) for w in S.SINGLE] + [S.RelevantPatientTask()]
            + [S.DispatchTask(m, c) for m, c in S.dispatcher_classes(Repo())] + [AS.ServeTask(), _send_msg()])


def _send_msg():
    # every response leaves through DIMSEServiceProvider.send_msg: a response primitive (Message ID Being Responded To present,
    # 0 included) must be encoded as the RESPONSE message of its type, or the request never gets its final response
    from contracts.dimse_frag import SendMsgTask
    return SendMsgTask("C20/")


def replay(rec):
    from pyvc.replay import run_replay
    oid = rec.get("id", "")
    if "DIMSEServiceProvider.send_msg" in oid:
        # the send_msg contract is shared with C15: its native harness drives the real send_msg
        return run_replay("C15", dict(rec, id="C15/" + oid[len("C20/"):]))
    return run_replay("C20", rec)


LEVEL_TEXT = "stream-inductive contracts on the service-class SCP implementations"
LEVEL_NOTE = "trusted: pyvc, z3, environment model"
TECHNIQUE = "deductive: stream-inductive loop contracts over adversarial handler results, effect trace at dimse.send_msg (AST->VC, z3)"

"""C11 — requestor and acceptor end up with the same view of the negotiated contexts."""
from contracts import negotiation as N
from contracts import codec

PROPERTY = "C11"
LEVEL = "proof"
ASSUMPTIONS = [
    "class invariant of PresentationContext used as a precondition: the empty UID is never in _transfer_syntax - proved by "
    "TsInvariantTask on the real add_transfer_syntax + validate_uid; assumed library fact: pydicom UID('').is_valid is False",
    "the A-ASSOCIATE-AC carries (context id, result, one transfer syntax) per context and the role reply items unchanged "
    "(C01: primitive -> PDU -> bytes -> primitive round trip; its obligations are re-proved under this id)",
    "acceptor side: C10 postconditions; requires as in C10; requested contexts have distinct odd ids",
    "the composition lemma is executed on every (role proposal) x (acceptor setting) x (supported or not) x 4 transfer-syntax "
    "orderings for a pair of proposed contexts, through BOTH real functions (finite: role settings are a 6x9 table; "
    "the per-context independence of both functions is what the inductive contracts prove)",
]


# both negotiation functions identify contexts by id; "every proposed context appears exactly once on the requestor side" needs
# the ids the requestor sends to be distinct: that is C12's numbering contract on AE.associate, re-proved under this id
RELABEL = {"C12/": "C11/distinct-ids:"}
RELABEL_ONLY = {"C12/": r"ApplicationEntity\.associate/|lemma/ids"}


def tasks(tier):
    from contracts.acse_neg import RequestorSiteTask, RequestorSiteFamilyTask
    ts = [N.NegRequestorTask("C11/"), N.CompositionTask("C11/"), N.RoleTableTask("C11/"), N.TsInvariantTask("C11/"),
          RequestorSiteTask("C11/"), RequestorSiteFamilyTask("C11/")]
    from contracts.C12 import AssociateIdsTask, IdsLemma
    ts += [AssociateIdsTask(), IdsLemma()]
    # a negotiation the requestor cannot accept ends with send_abort(2): what that call sends and marks
    from contracts.acse_neg import SendAbortTask
    ts += [SendAbortTask("abort", "C11/")]
    # wire form of the result list and of the role items (subset of the C01 tasks)
    ts += [codec.PrimTask("A_ASSOCIATE/ac", (2, 1, ("MaximumLengthNotification", "ImplementationClassUIDNotification")), "C11/"),
           codec.PrimTask("A_ASSOCIATE/ac", (1, 1, ("MaximumLengthNotification", "ImplementationClassUIDNotification",
                                                     "SCP_SCU_RoleSelectionNegotiation")), "C11/"),
           codec.PrimTask("SCP_SCU_RoleSelectionNegotiation", None, "C11/")]
    return ts


def replay(rec):
    from pyvc.replay import run_replay
    if rec.get("id", "").startswith("C11/distinct-ids:"):
        return run_replay("C12", dict(rec, id="C12/" + rec["id"][len("C11/distinct-ids:"):]))
    # the class-invariant obligation shared with C10 is replayed by C10's harness
    return run_replay("C10" if "add_transfer_syntax" in rec.get("id", "") else "C11", rec)


LEVEL_TEXT = ("negotiate_as_requestor verified by induction over the requested contexts (one output per id, acceptor's result and "
              "transfer syntax, PS3.7 role outcome); composition lemma: both real functions executed on every role/ordering case, the "
              "acceptor's answer handed over as the AC PDU carries it - same accepted ids, same syntaxes, complementary roles; AC wire "
              "round trip re-proved. ACSE._negotiate_as_requestor under contract: proposed roles applied to every requested context (None as False), arguments of the negotiation, accepted/rejected split, outcome per response kind; bounded family (not counted) for restructured role application.")
LEVEL_NOTE = "trusted: pyvc, z3, spec/roles.py, C01/C10 contracts; ACSE glue (_negotiate_as_requestor role application) see NOT_DECIDED."
TECHNIQUE = "deductive: inductive contract on negotiate_as_requestor + exhaustive composition lemma through both real functions"
NOT_DECIDED = ["ACSE._negotiate_as_requestor's role-application loop and accepted/rejected split are covered by C13/C12 tasks when built"]

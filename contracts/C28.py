"""C28 — every status code has one category and all status tables agree with it."""
import z3

from pyvc.task import Task, FiniteTask
from pyvc.interp import Interp, Config
from pyvc.values import SV
from spec import ps37_status as spec

PROPERTY = "C28"
LEVEL = "proof"
ASSUMPTIONS = [
    "spec/ps37_status.py is a correct transcription of the PS3.7 Annex C category ranges (A-SPEC, reviewed by hand)",
]
NOT_DECIDED = []

F = "pynetdicom.status:code_to_category"


class CodeToCategory(Task):
    name = "code_to_category/all-integers"
    functions = [F]

    def body(self, I: Interp):
        code = I.input("int", "code")
        I.assume(code.e >= 0)
        kind, val = I.run_function(I.repo.func(F), [code])
        # totality: no exception for any non-negative int (hence for all 65536 16-bit values)
        I.ob(f"C28/{F}/total-no-exception", kind == "return", detail=f"outcome={kind}:{val!r}")
        if kind != "return":
            return
        # single-valued and equal to the PS3.7 category function, for ALL integers >= 0
        I.ob(f"C28/{F}/result-is-a-category", isinstance(val, str) and val in spec.CATEGORIES, detail=repr(val))
        if isinstance(val, str):
            I.ob(f"C28/{F}/equals-spec-category", spec.category_z3(code.e) == z3.StringVal(val),
                 detail=f"path returns {val!r}")


class NegativeRejected(Task):
    name = "code_to_category/negative"
    functions = [F]

    def body(self, I):
        code = I.input("int", "code")
        I.assume(code.e < 0)
        kind, val = I.run_function(I.repo.func(F), [code])
        I.ob(f"C28/{F}/negative-raises-ValueError", kind == "raise" and val.cls_name == "ValueError",
             detail=f"outcome={kind}")


class Tables(FiniteTask):
    name = "status-tables"
    functions = [F]

    def check(self, repo, emit):
        I = Interp(repo, Config())
        mod = repo.module("pynetdicom.status")
        ns = I.module_ns(mod)
        fi = repo.func(F)
        tables = {k: v for k, v in ns.items() if k.endswith("_STATUS") and isinstance(v, dict)}
        emit("C28/tables/at-least-17-tables-extracted", len(tables) >= 17, detail=sorted(tables))
        for name in sorted(tables):
            bad_spec, bad_code, bad_shape = [], [], []
            for code, entry in tables[name].items():
                if not (isinstance(code, int) and isinstance(entry, tuple) and len(entry) == 2):
                    bad_shape.append(repr(code))
                    continue
                if not (0 <= code <= 0xFFFF):
                    bad_shape.append(hex(code))
                if entry[0] != spec.category(code):
                    bad_spec.append((hex(code), entry[0], spec.category(code)))
                I.begin_path([])
                kind, val = I.run_function(fi, [code])
                if kind != "return" or val != entry[0]:
                    bad_code.append((hex(code), entry[0], val if kind == "return" else "raise"))
            n = len(tables[name])
            emit(f"C28/tables/{name}/entries-well-formed", not bad_shape, detail=bad_shape[:5],
                 model={"bad": bad_shape[:5]})
            emit(f"C28/tables/{name}/category-equals-spec", not bad_spec, detail=f"{n} entries; bad={bad_spec[:5]}",
                 model={"bad": bad_spec[:5]})
            emit(f"C28/tables/{name}/category-equals-code_to_category", not bad_code,
                 detail=f"{n} entries; bad={bad_code[:5]}", model={"bad": bad_code[:5]})
        consts = {k: ns.get(k) for k in ("STATUS_SUCCESS", "STATUS_FAILURE", "STATUS_WARNING", "STATUS_CANCEL",
                                         "STATUS_PENDING", "STATUS_UNKNOWN")}
        g = I.module_ns(repo.module("pynetdicom._globals"))
        got = tuple(g.get(k) for k in consts)
        emit("C28/globals/category-names", got == spec.CATEGORIES, detail=got)


class All16Bit(FiniteTask):
    """thorough tier: concrete interpretation of the real function on all 65536 values (engine cross-check)."""
    name = "code_to_category/all-65536-concrete"
    functions = [F]

    def check(self, repo, emit):
        I = Interp(repo, Config())
        fi = repo.func(F)
        bad = []
        for code in range(0x10000):
            I.begin_path([])
            kind, val = I.run_function(fi, [code])
            if kind != "return" or val != spec.category(code):
                bad.append((hex(code), val if kind == "return" else "raise"))
        emit(f"C28/{F}/all-65536-values-concrete", not bad, detail=f"bad={bad[:5]}", model={"bad": bad[:5]})


# "The SCU and SCP decisions about whether a response is final follow that category": the deciding code is under contract in
# C24 (SCU: the C-FIND / C-GET / C-MOVE response iterators stop exactly at the first response that is not Pending, the
# Repository Query 0xB001 being the one documented exception) and C20 (SCP: the C-FIND SCP of the Q/R services sends responses
# until the first status that is not Pending); those obligations are re-proved under this id
RELABEL = {"C24/": "C28/finality-scu:", "C20/": "C28/finality-scp:"}


def tasks(tier):
    from contracts.C24 import WrapTask
    from contracts import svc as S
    from pyvc.repo import Repo
    ts = [CodeToCategory(), NegativeRejected(), Tables()]
    ts += [WrapTask("find"), WrapTask("getmove")]
    ts += [S.FindScpTask("C20/", table=t) for t in S.find_scp_tables(Repo()) if "QR_FIND" in str(t)]
    if tier == "thorough":
        ts.append(All16Bit())
    return ts


def replay(rec):
    from pyvc.replay import run_replay
    oid = rec.get("id", "")
    for pfx, src in (("C28/finality-scu:", "C24"), ("C28/finality-scp:", "C20")):
        if oid.startswith(pfx):
            return run_replay(src, dict(rec, id=f"{src}/" + oid[len(pfx):]))
    return run_replay("C28", rec)

LEVEL_TEXT = ("code_to_category is executed symbolically from its AST for an arbitrary integer and proved equal to the "
              "PS3.7 category function for ALL integers >= 0 (total, single-valued); every entry of every *_STATUS table "
              "(module top level re-executed from the AST) is checked against both; finite parts are exhaustive. SCU/SCP finality decisions (C24 response iterators, C20 Q/R C-FIND SCP) re-proved under this id.")
LEVEL_NOTE = ("trusted: pyvc executor, z3, the transcription spec/ps37_status.py. SCU/SCP finality decisions are covered "
              "by the C20/C24 contracts, not here.")
TECHNIQUE = "deductive: AST->VC of code_to_category vs spec function (z3, all integers) + exhaustive table obligations"

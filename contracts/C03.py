"""C03 — PDU framing is independent of how TCP splits the byte stream."""
from contracts import recvpath

PROPERTY = "C03"
LEVEL = "proof"
ASSUMPTIONS = [
    "assumed contract of socket.socket.recv(k), k>=1: returns the next 1..k bytes of the peer's stream (adversarial "
    "count), b'' exactly at EOF, or raises OSError/TimeoutError",
    "_decode_pdu is represented by its contract (C02): it is handed bytes and returns (pdu, event) or raises",
    "inter-chunk delays (timing) are not modelled here; blocking bounds are C08",
]
NOT_DECIDED = ["timing of chunks relative to the network timeout (see C08)"]


def tasks(tier):
    return [recvpath.RecvTask(), recvpath.ReadPduTask(), recvpath.ReadyTask()]


def replay(rec):
    from pyvc.replay import run_replay
    return run_replay("C03", rec)


LEVEL_TEXT = ("Loop contract on AssociationSocket.recv (invariant acc == stream[pos0:pos0+count], variant want-count) against an "
              "adversarial socket.recv; _read_pdu_data verified against recv's contract: a complete PDU at the cursor is decoded "
              "from exactly its bytes and the cursor lands on the next PDU for ANY chunking; a stream ending inside a PDU gives Evt17 "
              "and no decode. No bound on chunk sizes, counts or PDU length.")
LEVEL_NOTE = "trusted: pyvc, z3 (Seq+BV+LIA), the socket.recv contract, struct.unpack model; timing not modelled."
TECHNIQUE = "deductive: loop invariant + ghost byte-stream cursor, VCs from the AST of recv/_read_pdu_data, z3 sequences"

"""C17 — DIMSE primitives survive conversion to command sets and back.

For each of the 23 DIMSE message types, the REAL DIMSEMessage.__init__, primitive_to_message and message_to_primitive are
executed on a primitive whose every parameter is either absent or an arbitrary value its REAL setter accepted (all 2^k
presence combinations, values symbolic), the command set being an abstract element map (keyword -> value); the
encode/decode of that map by pydicom is an assumed identity (A-LIB).  Finite obligations: the command-field table."""
import z3

from pyvc.task import Task, FiniteTask
from pyvc.interp import Interp, Config
from pyvc.values import SV, Obj, Env, Ev, ExcVal, PyRaise, Unsupported, ClassRef
from pyvc.layout import LB
from contracts.negotiation import UIDv
from contracts.dsmodel import DatasetV
from contracts.dimse_frag import bytesio_env, ghost_bytes

PROPERTY = "C17"
LEVEL = "other"
DM = "pynetdicom.dimse_messages"
DP = "pynetdicom.dimse_primitives"
P2M = f"{DM}:DIMSEMessage.primitive_to_message"
M2P = f"{DM}:DIMSEMessage.message_to_primitive"
ASSUMPTIONS = [
    "pydicom's encoding and decoding of the command set (Implicit VR Little Endian) is the identity on the abstract element map "
    "keyword -> value, a one-element multi-value decoding to the single value (A-LIB; pydicom is external)",
    "set_uid / set_ae are represented by their contracts (C12): they return the value or raise",
    "pydicom Tag(x) of an int is that int (BaseTag is an int subclass: the tag (0000,0000) is falsy)",
    "spec/ps37_dimse.py: command field values of PS3.7 Annex E (hand transcription)",
]
NOT_DECIDED = [
    "the byte-level command-set codec (pydicom) - assumed; the element lists of _COMMAND_SET_KEYWORDS are not compared with a "
    "PS3.7 transcription (only their consistency with the primitives' parameters and the command-field table is checked)",
]
# PS3.7 Annex E.1 (command field values)
COMMAND_FIELD = {
    "C-STORE-RQ": 0x0001, "C-STORE-RSP": 0x8001, "C-GET-RQ": 0x0010, "C-GET-RSP": 0x8010, "C-FIND-RQ": 0x0020, "C-FIND-RSP": 0x8020,
    "C-MOVE-RQ": 0x0021, "C-MOVE-RSP": 0x8021, "C-ECHO-RQ": 0x0030, "C-ECHO-RSP": 0x8030, "N-EVENT-REPORT-RQ": 0x0100,
    "N-EVENT-REPORT-RSP": 0x8100, "N-GET-RQ": 0x0110, "N-GET-RSP": 0x8110, "N-SET-RQ": 0x0120, "N-SET-RSP": 0x8120,
    "N-ACTION-RQ": 0x0130, "N-ACTION-RSP": 0x8130, "N-CREATE-RQ": 0x0140, "N-CREATE-RSP": 0x8140, "N-DELETE-RQ": 0x0150,
    "N-DELETE-RSP": 0x8150, "C-CANCEL-RQ": 0x0FFF,
}
MESSAGE_LEVEL = ("CommandGroupLength", "CommandField", "CommandDataSetType")
UID_KW = ("AffectedSOPClassUID", "RequestedSOPClassUID", "AffectedSOPInstanceUID", "RequestedSOPInstanceUID")
TAG_KW = ("OffendingElement", "AttributeIdentifierList")
STR_KW = ("MoveOriginatorApplicationEntityTitle", "MoveDestination", "ErrorComment")


class TablesTask(FiniteTask):
    name = "tables/command-field-and-keyword-consistency"
    functions = []

    def check(self, repo, emit):
        I = Interp(repo, Config())
        ns = I.module_ns(repo.module(DM))
        mt = ns["_MESSAGE_TYPES"]
        got = {v[0]: k for k, v in mt.items()}
        emit("C17/tables/_MESSAGE_TYPES-assigns-the-PS3.7-command-field-values", got == COMMAND_FIELD,
             detail=str(sorted(set(got.items()) ^ set(COMMAND_FIELD.items()))))
        emit("C17/tables/_MESSAGE_TYPES-is-one-to-one-over-23-message-types", len(mt) == 23 and len(got) == 23 and
             len({v[1].ci.name for v in mt.values()}) == 23)
        names_ok = all(v[1].ci.name == v[0].replace("-", "_") for v in mt.values())
        emit("C17/tables/each-command-field-maps-to-the-message-class-of-the-same-name", names_ok)
        kws = ns["_COMMAND_SET_KEYWORDS"]
        emit("C17/tables/_COMMAND_SET_KEYWORDS-covers-exactly-the-23-message-types", set(kws) == set(COMMAND_FIELD), detail=str(set(kws) ^ set(COMMAND_FIELD)))
        for name, kwl in sorted(kws.items()):
            emit(f"C17/tables/{name}/command-set-has-the-message-level-elements-and-no-duplicates",
                 all(m in kwl for m in MESSAGE_LEVEL) and len(set(kwl)) == len(kwl), detail=str(kwl))
            rq = name.endswith("-RQ")
            want = "MessageID" if rq else "MessageIDBeingRespondedTo"
            if name == "C-CANCEL-RQ":
                want = "MessageIDBeingRespondedTo"
            emit(f"C17/tables/{name}/carries-the-message-id-of-its-direction", want in kwl and (("Status" in kwl) == (not rq)), detail=str(kwl))


class OpaqueStr:
    """a non-empty str value whose characters are not inspected (set_ae / validation by contract, C12)"""
    ext_class = "str"

    def __init__(self, name):
        self.name = name

    def sym_kind(self):
        return "astr"

    def truth(self, I):
        return True

    def sym_eq(self, I, other):
        return other is self

    def __repr__(self):
        return f"<str {self.name}>"


def uid_summary(I, args, kw):
    return args[0] if args else kw.get("value")


def c17_config(prefix="C17/"):
    c = Config()
    c.ob_prefix = prefix
    c.summaries["pynetdicom.utils:set_uid"] = uid_summary
    c.summaries["pynetdicom.utils:set_ae"] = uid_summary

    def group_length(I, a, k):
        # by contract (GroupLengthTask): sets (0000,0000) from the elements present NOW
        cs = a[0].fields.get("command_set") if isinstance(a[0], Obj) else None
        I.ghost["group_length_calls"] = I.ghost.get("group_length_calls", []) + [list(cs.elems) if isinstance(cs, DatasetV) else None]
        return None
    c.summaries[f"{DM}:DIMSEMessage._set_command_group_length"] = group_length
    c.ext_models["pydicom.dataset.Dataset"] = lambda I, a, k: DatasetV([])
    c.ext_models["pydicom.uid.UID"] = lambda I, a, k: a[0]

    def tag(I, a, k):
        v = a[0]
        if isinstance(v, str):
            return ("tag", v)
        return v
    c.ext_models["pydicom.tag.Tag"] = tag
    c.ext_models["io.BytesIO"] = lambda I, a, k: bytesio_env(I, LB.of(I, a[0]) if a else LB(), "BytesIO")

    def truth_hook(I, v):
        if isinstance(v, Env) and v.kind == "BytesIO":
            return True
        return NotImplemented
    c.truth_hook = truth_hook

    def env_call(I, env, method, args, kw):
        if env.kind == "BytesIO" and method == "getvalue":
            return env.data["content"]
        if env.kind == "BytesIO" and method in ("tell", "seek", "read"):
            from contracts.dimse_frag import _bytesio_call
            return _bytesio_call(I, env, method, args, kw)
        return NotImplemented
    c.env_call = env_call
    return c


class RoundTripTask(Task):
    shard = True

    def __init__(self, msg_name):
        self.msg_name = msg_name                      # e.g. "C-STORE-RQ"
        self.cls = msg_name.replace("-", "_")
        self.name = f"round-trip/{msg_name}"
        self.functions = [P2M, M2P, f"{DM}:DIMSEMessage.__init__"]

    def config(self, repo):
        return c17_config()

    def param_value(self, I, kw):
        if kw in UID_KW:
            return UIDv(I.input("int", kw).e)
        if kw in TAG_KW:
            shape = I.choose(3, f"{kw}: one tag / [one tag] / [two tags]")
            t1 = I.input("int", f"{kw}[0]")
            I.assume(z3.And(t1.e >= 0, t1.e <= 0xFFFFFFFF))
            if shape == 0:
                return t1
            if shape == 1:
                return [t1]
            t2 = I.input("int", f"{kw}[1]")
            I.assume(z3.And(t2.e >= 0, t2.e <= 0xFFFFFFFF))
            return [t1, t2]
        if kw in STR_KW:
            return OpaqueStr(kw)
        return I.input("int", kw)

    def body(self, I):
        P = f"C17/{self.msg_name}"
        g = I.ghost
        ns = I.module_ns(I.repo.module(DM))
        kws = [k for k in ns["_COMMAND_SET_KEYWORDS"][self.msg_name] if k not in MESSAGE_LEVEL]
        prim_name = self.cls[:self.cls.rfind("_R")]
        prim_ci = ns["_MSG_TO_PRIMITIVE"][prim_name].ci
        prim = I.instantiate(prim_ci, [], {})
        # ---- the primitive: every parameter absent or set through its REAL setter to an arbitrary value
        given = {}
        for kw in kws:
            has = True
            try:
                I.getattr(prim, kw)
            except PyRaise:
                has = False
            I.ob(f"{P}/every-command-set-keyword-is-a-parameter-of-the-primitive", has, detail=kw)
            if not has:
                return
            if I.choose(2, f"{kw} present") == 1:
                given[kw] = I.getattr(prim, kw)          # not set: what the primitive reports (None, or its default)
                continue
            v = self.param_value(I, kw)
            try:
                I.setattr(prim, kw, v)
            except PyRaise:
                raise_path_end()
            given[kw] = I.getattr(prim, kw)
            if given[kw] is None:
                raise_path_end()                 # the setter mapped the value to 'absent' (e.g. an empty list)
        ds_kw = ns["_DATASET_KEYWORDS"].get(self.cls)
        dsv = None
        if ds_kw:
            if I.choose(2, "data set") == 1:
                _base, _n, _lb = ghost_bytes(I, "dataset_bytes", 1)
                _pos = I.input("int", "stream_position")          # wherever the application left the stream
                I.assume(z3.And(_pos.e >= 0, _pos.e <= _n))
                dsv = bytesio_env(I, _lb, "param-BytesIO", _pos)
                I.setattr(prim, ds_kw, dsv)
        # ---- primitive -> message
        msg = I.instantiate(I.repo.cls(f"{DM}:{self.cls}"), [], {})
        kind, val = I.run_function(I.repo.func(P2M), [msg, prim])
        I.ob(f"{P}/primitive_to_message-does-not-raise", kind == "return", detail=f"{kind}:{val!r}")
        if kind != "return":
            return
        cs = msg.fields["command_set"]
        elems = dict(cs.elems)
        glc = I.ghost.get("group_length_calls", [])
        I.ob(f"{P}/the-group-length-is-computed-once-over-the-finished-command-set",
             len(glc) == 1 and glc[0] is not None and sorted(k for k, _ in glc[0]) == sorted(elems) and all(dict(glc[0])[k] is elems[k] for k in elems),
             detail=f"{len(glc)} calls; at the call: {sorted(k for k, _ in glc[0]) if glc and glc[0] else None}; sent: {sorted(elems)}")
        I.ob(f"{P}/command-field-is-the-PS3.7-value", elems.get("CommandField") == COMMAND_FIELD[self.msg_name], detail=repr(elems.get("CommandField")))
        if ds_kw:
            # the receiver takes the data-set bytes that follow the command set only if this element announces them
            # (decode_msg, C15/C16): the bytes survive the round trip only if it does exactly when there are bytes
            cdt = elems.get("CommandDataSetType")
            I.ob(f"{P}/the-command-set-announces-a-data-set-exactly-when-the-parameter-has-bytes",
                 cdt is not None and _b(I.neg(I.eq(cdt, 0x0101))) == z3.BoolVal(dsv is not None), detail=repr(cdt))
        present = sorted(k for k in elems if k not in MESSAGE_LEVEL)
        I.ob(f"{P}/command-set-holds-exactly-the-parameters-that-were-given", present == sorted(k for k, v in given.items() if v is not None),
             detail=f"{present}")
        for k in present:
            I.ob(f"{P}/command-set-element-carries-the-parameter-value", _same(I, elems[k], given.get(k)), detail=k)
        # ---- (encode, decode: assumed identity on the element map) ---- message -> primitive
        cf = elems.get("CommandField")
        back = ns["_MESSAGE_TYPES"].get(cf)
        I.ob(f"{P}/the-command-field-selects-the-same-message-class-on-receipt", back is not None and back[1].ci.name == self.cls)
        if back is None:
            return
        msg2 = I.instantiate(back[1].ci, [], {})
        wire = DatasetV([(k, (v[0] if isinstance(v, list) and len(v) == 1 else v)) for k, v in cs.elems])
        msg2.fields["command_set"] = wire
        msg2.fields["data_set"] = msg.fields.get("data_set")
        k2, prim2 = I.run_function(I.repo.func(M2P), [msg2])
        I.ob(f"{P}/message_to_primitive-does-not-raise", k2 == "return", detail=f"{k2}:{prim2!r}")
        if k2 != "return":
            return
        I.ob(f"{P}/round-trip-gives-a-primitive-of-the-same-type", isinstance(prim2, Obj) and prim2.cls is prim_ci)
        is_rq = self.msg_name.endswith("-RQ") and self.msg_name != "C-CANCEL-RQ"
        if "MessageID" in kws or "MessageIDBeingRespondedTo" in kws:
            mid = I.getattr(prim2, "MessageIDBeingRespondedTo") if hasattr_(I, prim2, "MessageIDBeingRespondedTo") else None
            I.ob(f"{P}/round-trip-keeps-the-request/response-direction",
                 (mid is None) == (given.get("MessageIDBeingRespondedTo") is None))
        for kw in kws:
            got = I.getattr(prim2, kw)
            I.ob(f"{P}/round-trip-keeps-every-parameter", _same(I, got, given[kw]), detail=f"{kw}: sent {given[kw]!r} got {got!r}")
        if ds_kw:
            I.ob(f"{P}/round-trip-keeps-the-data-set-bytes", _same_ds(I, I.getattr(prim2, ds_kw), dsv))


def _b(x):
    return z3.BoolVal(x) if isinstance(x, bool) else (x.e if hasattr(x, "e") else x)


def raise_path_end():
    from pyvc.values import PathEnd
    raise PathEnd()


def hasattr_(I, o, name):
    try:
        I.getattr(o, name)
        return True
    except PyRaise:
        return False


def _same(I, a, b):
    if a is None or b is None:
        return a is None and b is None
    if isinstance(a, list) or isinstance(b, list):
        if not (isinstance(a, list) and isinstance(b, list)) or len(a) != len(b):
            # a one-element list and its single value denote the same multi-valued attribute
            la = a if isinstance(a, list) else [a]
            lb_ = b if isinstance(b, list) else [b]
            if len(la) != len(lb_):
                return False
            a, b = la, lb_
        parts = [_same(I, x, y) for x, y in zip(a, b)]
        if all(isinstance(p, bool) for p in parts):
            return all(parts)
        return z3.And(*[z3.BoolVal(p) if isinstance(p, bool) else p for p in parts])
    if isinstance(a, (Env, OpaqueStr)) or isinstance(b, (Env, OpaqueStr)):
        return a is b
    t = I.eq(a, b)
    return t


def _same_ds(I, a, b):
    if a is None or b is None:
        return a is None and b is None or (b is None and isinstance(a, Env) and a.kind == "BytesIO" and a.data["content"].sym_len(I) == 0)
    return a is b


class GroupLengthTask(Task):
    """DIMSEMessage._set_command_group_length on its real body: afterwards (0000,0000) Command Group Length holds the length of
    the command set encoded WITHOUT that element, in Implicit VR Little Endian (PS3.7 6.3.1), and no other element was touched.
    The encoder is used by its contract (dsutils.encode: bytes of some length for the elements it is shown)."""
    name = "DIMSEMessage._set_command_group_length"
    FN = f"{DM}:DIMSEMessage._set_command_group_length"
    functions = [FN]
    shard = False

    def config(self, repo):
        c = Config()
        c.ob_prefix = "C17/"

        def enc(I, a, k):
            g = I.ghost
            ds = a[0]
            names = ["ds", "is_implicit_vr", "is_little_endian", "deflated"]
            ar = dict(zip(names, a))
            ar.update(k)
            g["encode_calls"] = g.get("encode_calls", []) + [(ds, list(ds.elems) if isinstance(ds, DatasetV) else None, ar.get("is_implicit_vr"),
                                                                ar.get("is_little_endian"), ar.get("deflated", False))]
            b = I.fresh("bytes", "encoded_command_set")
            g["encoded"] = b
            return b
        c.summaries["pynetdicom.dsutils:encode"] = enc
        return c

    def body(self, I):
        P = f"C17/{self.FN}"
        g = I.ghost
        old = I.input("int", "old_group_length")
        others = [("CommandField", I.input("int", "CommandField")), ("MessageID", I.input("int", "MessageID")),
                  ("CommandDataSetType", I.input("int", "CommandDataSetType"))]
        pos = I.choose(3, "position of the group length element")
        elems = list(others)
        elems.insert({0: 0, 1: 1, 2: 3}[pos], ("CommandGroupLength", old))
        cs = DatasetV(elems)
        msg = Obj(I.repo.cls(f"{DM}:DIMSEMessage"))
        msg.fields["command_set"] = cs
        kind, val = I.run_function(I.repo.func(self.FN), [msg])
        I.ob(f"{P}/no-exception", kind == "return", detail=f"{kind}:{val!r}")
        if kind != "return":
            return
        calls = g.get("encode_calls", [])
        I.ob(f"{P}/the-command-set-is-encoded-once-as-implicit-VR-little-endian-not-deflated",
             len(calls) == 1 and calls[0][0] is cs and calls[0][2] is True and calls[0][3] is True and calls[0][4] is False, detail=repr(calls))
        if len(calls) != 1:
            return
        seen = calls[0][1]
        I.ob(f"{P}/the-length-is-taken-over-every-other-element-and-not-over-the-group-length-element-itself",
             seen is not None and sorted(k for k, _ in seen) == sorted(k for k, _ in others) and all(dict(seen)[k] is v for k, v in others), detail=repr(seen))
        now = dict(msg.fields["command_set"].elems) if isinstance(msg.fields.get("command_set"), DatasetV) else {}
        gl = now.get("CommandGroupLength")
        I.ob(f"{P}/the-group-length-element-holds-the-length-of-that-encoding",
             isinstance(gl, SV) and gl.k == "int" and z3.Length(g["encoded"].e) == gl.e, detail=repr(gl))
        I.ob(f"{P}/no-other-element-is-changed", sorted(now) == sorted(["CommandGroupLength"] + [k for k, _ in others]) and all(now[k] is v for k, v in others),
             detail=repr(now))


def tasks(tier):
    from contracts.dimse_frag import SendMsgTask
    # which message class a primitive is converted with (request or response of ITS type) is decided in
    # DIMSEServiceProvider.send_msg, the one caller of primitive_to_message on the sending side
    from contracts import dimse_frag as D
    # "...encoding it and decoding it again": between primitive_to_message and message_to_primitive the command set and data set
    # travel as PDV fragments; that encode_msg / _generate_pdv_fragments / decode_msg hand over exactly those bytes, for every
    # length and maximum PDU size, is C15's contract set - re-proved under this id (RELABEL below)
    return [TablesTask()] + [RoundTripTask(n) for n in sorted(COMMAND_FIELD)] + [SendMsgTask("C17/"), GroupLengthTask()] + \
        [D.GenTask(), D.EncodeTask("mem"), D.EncodeTask("mem-empty"), D.EncodeTask("none"), D.EncodeTask("file"), D.DecodeStepTask()]


RELABEL = {"C15/": "C17/wire:"}
RELABEL_ONLY = {"C15/": r"encode_msg|_generate_pdv_fragments|decode_msg"}


bounded_results = [{"what": "replay/C17.py (thorough tier, native): real primitive -> primitive_to_message -> encode_msg (pydicom) -> decode_msg -> "
                    "message_to_primitive for all 23 message types x every subset of the optional parameters x boundary values (about 6800 "
                    "round trips) - the bounded check of the ASSUMED pydicom command-set codec",
                    "bound": "parameter values from a fixed boundary list; max PDU 64; data set absent or one 12-byte element",
                    "cases": 6810, "counted_as_proved": False}]


def replay(rec):
    from pyvc.replay import run_replay
    oid = rec.get("id", "")
    if oid.startswith("C17/wire:"):
        return run_replay("C15", dict(rec, id="C15/" + oid[len("C17/wire:"):]))
    if "DIMSEServiceProvider.send_msg" in oid:
        # the send_msg contract is shared with C15: its native harness drives the real send_msg
        return run_replay("C15", dict(rec, id="C15/" + oid[len("C17/"):]))
    return run_replay("C17", rec)


LEVEL_TEXT = ("contract-based with an assumed dataset codec: for each of the 23 message types the real __init__, primitive_to_message and "
              "message_to_primitive are executed for every presence combination of the parameters with symbolic values accepted by the real "
              "setters; the command set is an abstract element map; command-field table compared with PS3.7 exhaustively.")
LEVEL_NOTE = "level 'other': pydicom's byte-level command-set encoding is assumed (external); element lists are not compared with PS3.7 tables."
TECHNIQUE = "deductive: AST->VC symbolic execution of the conversion functions over an abstract command-set map (z3) + exhaustive table obligations"

"""C09 — protocol timers measure elapsed time, unaffected by wall-clock changes.

Ghost state: real time ``t`` (monotone; advances by an arbitrary d >= 0 before every clock read),
``g_start`` / ``g_stop`` = real time of the last start()/stop().  Clock models (assumed, A-LIB):
``time.monotonic()`` = t + k_mono, ``time.perf_counter()`` = t + k_perf, ``time.time()`` = t + off
where ``off`` is a FRESH real at every read (the wall clock may step by any amount at any point).

Class invariant Inv(K) (K = offset of the monotone clock the class uses; existentially chosen once
for the whole class, see ALTERNATIVES):
    _start_time is None  <=>  not started          _start_time == g_start + K   otherwise
    _end_time   is None  <=>  not stopped          _end_time   == g_stop  + K   otherwise
Every method is verified from an ARBITRARY state satisfying Inv (so every call history is covered by
induction) and must re-establish Inv and return what the property statement prescribes.
"""
import z3

from pyvc.task import Task
from pyvc.interp import Interp, Config
from pyvc.values import SV, Obj

PROPERTY = "C09"
LEVEL = "proof"
M = "pynetdicom.timer"
CLS = f"{M}:Timer"
ALTERNATIVES = ("monotonic", "perf_counter")

ASSUMPTIONS = [
    "A-FLOAT: clock values and time differences are exact reals (float rounding of time arithmetic is not modelled)",
    "clock model: time.monotonic()/perf_counter() = real time + constant; time.time() = real time + arbitrary offset "
    "that may change at every read (wall-clock steps of either sign)",
    "stop() on a timer that is already stopped may keep either stop instant (the property text does not fix it)",
]


def clock_models(I):
    g = I.ghost

    def advance():
        d = I.fresh("real", "dt")
        I.assume(d.e >= 0)
        g["t"] = g["t"] + d.e
        g["reads"] = g.get("reads", 0) + 1
        g["t_read"] = g["t"]

    def wall(I_, args, kw):
        advance()
        return I.fresh("real", "wallclock")          # arbitrary: no relation to elapsed time

    def mono(I_, args, kw):
        advance()
        return SV(g["t"] + g["k_mono"], "real")

    def perf(I_, args, kw):
        advance()
        return SV(g["t"] + g["k_perf"], "real")
    return {"time.time": wall, "time.monotonic": mono, "time.perf_counter": perf,
            "time.time_ns": lambda *a: (_ for _ in ()).throw(Exception("time_ns unsupported"))}


class TimerTask(Task):
    method = None
    functions = []

    def __init__(self, alt):
        self.alt = alt
        self.name = f"{self.method}@{alt}"

    def config(self, repo):
        c = Config()
        self._cfg = c
        return c

    # ---- symbolic pre-state satisfying Inv
    def make(self, I: Interp):
        g = I.ghost
        g["t"] = I.input("real", "t0").e
        g["k_mono"] = z3.Real("k_mono")
        g["k_perf"] = z3.Real("k_perf")
        g["K"] = g["k_mono"] if self.alt == "monotonic" else g["k_perf"]
        I.cfg.ext_models.update(clock_models(I))
        tm = Obj(I.repo.cls(CLS))
        started = I.choose(2, "started") == 0
        stopped = I.choose(2, "stopped") == 0
        has_timeout = I.choose(2, "timeout") == 0
        g["started"], g["stopped"] = started, stopped
        if started:
            gs = I.input("real", "g_start")
            I.assume(gs.e <= g["t"])
            g["g_start"] = gs.e
            tm.fields["_start_time"] = SV(gs.e + g["K"], "real")
        else:
            g["g_start"] = None
            tm.fields["_start_time"] = None
        if stopped:
            ge = I.input("real", "g_stop")
            I.assume(ge.e <= g["t"])
            if started:
                pass  # a stop may precede the last start only if start() clears it: Inv says nothing more
            g["g_stop"] = ge.e
            tm.fields["_end_time"] = SV(ge.e + g["K"], "real")
        else:
            g["g_stop"] = None
            tm.fields["_end_time"] = None
        if has_timeout:
            to = I.input("real", "timeout")
            tm.fields["_timeout"] = to
            g["timeout"] = to.e
        else:
            tm.fields["_timeout"] = None
            g["timeout"] = None
        g["pre"] = dict(tm.fields)
        return tm

    # ---- Inv on the post-state
    def inv_obs(self, I, tm, tag, g_start, g_stop):
        g = I.ghost
        K = g["K"]
        st, en = tm.fields.get("_start_time"), tm.fields.get("_end_time")
        pre = f"C09/{CLS}.{tag}/invariant"
        if g_start is None:
            I.ob(f"{pre}/start-time-None-iff-not-started", st is None, detail=repr(st))
        else:
            I.ob(f"{pre}/start-time-is-monotone-clock-at-start",
                 (st is not None) and I.eq(st, SV(g_start + K, "real")), detail=repr(st))
        if g_stop is None:
            I.ob(f"{pre}/end-time-None-iff-not-stopped", en is None, detail=repr(en))
        else:
            if isinstance(g_stop, tuple):
                ok = (en is not None) and z3.Or(*[I.eq(en, SV(x + K, "real")) for x in g_stop])
            else:
                ok = (en is not None) and I.eq(en, SV(g_stop + K, "real"))
            I.ob(f"{pre}/end-time-is-monotone-clock-at-stop", ok, detail=repr(en))

    def spec_elapsed(self, I):
        """elapsed time the property statement talks about, evaluated at the instant of the clock read
        made during the call (any instant inside the call is a legitimate 'now')."""
        g = I.ghost
        now = g.get("t_read", g["t"])
        end = g["g_stop"] if g["stopped"] else now
        return end - g["g_start"]


class Expired(TimerTask):
    method = "expired"
    functions = [f"{CLS}.expired.fget", f"{CLS}.remaining.fget", f"{CLS}.timeout.fget"]

    def body(self, I):
        tm = self.make(I)
        g = I.ghost
        kind, val = I.run_function(I.repo.func(f"{CLS}.expired.fget"), [tm])
        I.ob(f"C09/{CLS}.expired/no-exception", kind == "return", detail=f"{kind}:{val!r}")
        if kind != "return":
            return
        t = I.truth(val)
        if g["timeout"] is None or not g["started"]:
            I.ob(f"C09/{CLS}.expired/false-when-no-timeout-or-not-started", I.neg(t) if not isinstance(t, bool) else (not t))
        else:
            want = self.spec_elapsed(I) > g["timeout"]
            I.ob(f"C09/{CLS}.expired/true-iff-elapsed-exceeds-timeout", (t == want) if not isinstance(t, bool) else (want if t else z3.Not(want)))
        I.ob(f"C09/{CLS}.expired/frame-state-unchanged", all(tm.fields.get(k) is g["pre"].get(k) for k in g["pre"]))
        I.ob(f"C09/{CLS}.expired/at-most-one-clock-read", g.get("reads", 0) <= 1)


class Remaining(TimerTask):
    method = "remaining"
    functions = [f"{CLS}.remaining.fget", f"{CLS}.timeout.fget"]

    def body(self, I):
        tm = self.make(I)
        g = I.ghost
        kind, val = I.run_function(I.repo.func(f"{CLS}.remaining.fget"), [tm])
        I.ob(f"C09/{CLS}.remaining/no-exception", kind == "return", detail=f"{kind}:{val!r}")
        if kind != "return":
            return
        if g["timeout"] is None:
            I.ob(f"C09/{CLS}.remaining/one-when-no-timeout", I.eq(val, 1))
        elif not g["started"]:
            I.ob(f"C09/{CLS}.remaining/timeout-when-not-started", I.eq(val, SV(g["timeout"], "real")))
        else:
            I.ob(f"C09/{CLS}.remaining/timeout-minus-elapsed", I.eq(val, SV(g["timeout"] - self.spec_elapsed(I), "real")))
        I.ob(f"C09/{CLS}.remaining/frame-state-unchanged", all(tm.fields.get(k) is g["pre"].get(k) for k in g["pre"]))


class Start(TimerTask):
    method = "start"
    functions = [f"{CLS}.start"]
    target = "start"

    def body(self, I):
        tm = self.make(I)
        g = I.ghost
        kind, val = I.run_function(I.repo.func(f"{CLS}.{self.target}"), [tm])
        I.ob(f"C09/{CLS}.{self.target}/no-exception", kind == "return", detail=f"{kind}:{val!r}")
        if kind != "return":
            return
        I.ob(f"C09/{CLS}.{self.target}/reads-clock-once", g.get("reads", 0) == 1, detail=g.get("reads", 0))
        if g.get("reads", 0) >= 1:
            self.inv_obs(I, tm, self.target, g["t_read"], None)
        I.ob(f"C09/{CLS}.{self.target}/frame-timeout-unchanged", tm.fields.get("_timeout") is g["pre"]["_timeout"])


class Restart(Start):
    method = "restart"
    functions = [f"{CLS}.restart", f"{CLS}.start"]
    target = "restart"


class Stop(TimerTask):
    method = "stop"
    functions = [f"{CLS}.stop"]

    def body(self, I):
        tm = self.make(I)
        g = I.ghost
        kind, val = I.run_function(I.repo.func(f"{CLS}.stop"), [tm])
        I.ob(f"C09/{CLS}.stop/no-exception", kind == "return", detail=f"{kind}:{val!r}")
        if kind != "return":
            return
        I.ob(f"C09/{CLS}.stop/reads-clock-at-most-once", g.get("reads", 0) <= 1)
        now = g.get("t_read", g["t"])
        if g["stopped"]:
            new_stop = (g["g_stop"], now)       # already stopped: either instant is acceptable
        else:
            new_stop = now
        self.inv_obs(I, tm, "stop", g["g_start"], new_stop)
        I.ob(f"C09/{CLS}.stop/frame-timeout-unchanged", tm.fields.get("_timeout") is g["pre"]["_timeout"])


class SetTimeout(TimerTask):
    method = "timeout.fset"
    functions = [f"{CLS}.timeout.fset", f"{CLS}.timeout.fget"]

    def body(self, I):
        tm = self.make(I)
        g = I.ghost
        newv = I.input("real", "new_timeout") if I.choose(2, "newNone") == 0 else None
        kind, val = I.run_function(I.repo.func(f"{CLS}.timeout.fset"), [tm, newv])
        I.ob(f"C09/{CLS}.timeout.fset/no-exception", kind == "return")
        if kind != "return":
            return
        self.inv_obs(I, tm, "timeout.fset", g["g_start"], g["g_stop"])
        kind, got = I.run_function(I.repo.func(f"{CLS}.timeout.fget"), [tm])
        I.ob(f"C09/{CLS}.timeout/getter-returns-what-was-set", kind == "return" and (got is newv))
        I.ob(f"C09/{CLS}.timeout.fset/no-clock-read", g.get("reads", 0) == 0)


class Init(TimerTask):
    method = "__init__"
    functions = [f"{CLS}.__init__"]

    def body(self, I):
        g = I.ghost
        g["t"] = I.input("real", "t0").e
        g["k_mono"], g["k_perf"] = z3.Real("k_mono"), z3.Real("k_perf")
        g["K"] = g["k_mono"] if self.alt == "monotonic" else g["k_perf"]
        I.cfg.ext_models.update(clock_models(I))
        to = I.input("real", "timeout") if I.choose(2, "toNone") == 0 else None
        try:
            tm = I.instantiate(I.repo.cls(CLS), [to], {})
            ok = True
        except Exception as e:  # PyRaise
            from pyvc.values import PyRaise
            if not isinstance(e, PyRaise):
                raise
            ok = False
        I.ob(f"C09/{CLS}.__init__/no-exception", ok)
        if not ok:
            return
        self.inv_obs(I, tm, "__init__", None, None)
        I.ob(f"C09/{CLS}.__init__/timeout-stored", tm.fields.get("_timeout") is to)
        I.ob(f"C09/{CLS}.__init__/no-clock-read", g.get("reads", 0) == 0)


TASKS = [Init, Expired, Remaining, Start, Restart, Stop, SetTimeout]


def tasks(tier):
    from contracts.dul_reactor import DulReactorTask
    from contracts.C07 import RunReactorTask
    # the two callers that turn the timers into protocol behaviour (idle timer -> network timeout)
    return [T(alt) for alt in ALTERNATIVES for T in TASKS] + [DulReactorTask(), RunReactorTask()]


def postprocess(results):
    """The class invariant's clock offset K is existentially quantified over the class: keep the
    alternative with the fewest refuted obligations (all obligations must hold for ONE clock)."""
    best = None
    for alt in ALTERNATIVES:
        rs = [r for r in results if r["task"].endswith("@" + alt)]
        bad = sum(1 for r in rs for o in r["records"] if o["status"] != "discharged") + \
            sum(1 for r in rs if r["undecided"] or r["error"])
        if best is None or bad < best[0]:
            best = (bad, alt, rs)
    others = [r for r in results if "@" not in r["task"]]
    return best[2] + others, f"clock alternative selected: {best[1]}"


def replay(rec):
    from pyvc.replay import run_replay
    return run_replay("C09", rec)


LEVEL_TEXT = ("Every Timer method is executed symbolically from an arbitrary state satisfying the class invariant "
              "(start/stop instants recorded on a monotone clock) against an adversarial wall clock; postconditions are "
              "the property statement over ghost elapsed time. Induction over the invariant covers every call history. The two callers: the DUL reactor starts the idle timer once and restarts it exactly when data arrived; the association reactor decides the network timeout by that timer.")
LEVEL_NOTE = ("trusted: pyvc, z3 (LRA), the clock model (monotonic = real time + constant, wall = arbitrary), exact reals "
              "instead of floats. Callers of Timer (dul/association) are covered by C05/C08 obligations, not here.")
TECHNIQUE = "deductive: class invariant + method contracts on Timer with ghost real-time clock, VCs from the AST, z3 LRA"

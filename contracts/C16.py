"""C16 — every DIMSE message pynetdicom sends is completely receivable by its peer."""
from pyvc.repo import Repo
from pyvc.interp import Interp, Config
from contracts import dimse_frag as D

PROPERTY = "C16"
LEVEL = "proof"
ASSUMPTIONS = [
    "composition lemma (stated): the sender emits Cmd*.CmdLast.(Data*.DataLast)? (C15 encode_msg) and the receiver "
    "completes at CmdLast iff CommandDataSetType == 0x0101, else at DataLast (C15 decode_msg); hence the message is "
    "completely received iff CommandDataSetType announces a data set exactly when data fragments are sent",
    "io.BytesIO objects are always truthy (no __bool__/__len__); getvalue() returns the content",
    "a primitive carries _dataset_path only together with a None data-set parameter (call site Association.send_c_store)",
    "the parameter-copy loop of primitive_to_message is abstracted; its frame (touches only command-set elements) is "
    "checked syntactically on every run",
]


def message_classes():
    r = Repo()
    I = Interp(r, Config())
    ns = I.module_ns(r.module(D.DM))
    with_ds = sorted(ns["_DATASET_KEYWORDS"])
    allm = sorted(v[1].ci.name for v in ns["_MESSAGE_TYPES"].values())
    return with_ds, [m for m in allm if m not in with_ds]


def tasks(tier):
    with_ds, without = message_classes()
    ts = [D.P2MTask(m) for m in with_ds + without]
    # the sender side the lemma rests on (same tasks as C15, obligations re-prefixed)
    ts += [D.EncodeTask(m, prefix="C16/") for m in ("mem", "mem-empty", "none", "file")]
    ts += [D.DecodeStepTask(prefix="C16/")]
    return ts


def replay(rec):
    from pyvc.replay import run_replay
    return run_replay("C16", rec)


LEVEL_TEXT = ("primitive_to_message is executed symbolically for all 23 message classes x {absent, empty, non-empty} data-set "
              "parameter x file-backed or not, and its CommandDataSetType is proved to announce a data set exactly when "
              "encode_msg's contract sends data fragments; encode_msg/decode_msg contracts (C15) are re-proved under this id.")
LEVEL_NOTE = ("trusted: pyvc, z3, BytesIO model, the stated composition lemma, the call-site precondition on _dataset_path. "
              "send_* / SCP call sites that build the data-set parameter are covered by C18/C20/C21 contracts.")
TECHNIQUE = "deductive: postcondition of primitive_to_message tied to encode_msg's proved 'sends data fragments' contract (AST->VC, z3)"

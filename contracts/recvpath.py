"""Contracts on the receive path: transport.AssociationSocket.recv, dul._read_pdu_data, dul._decode_pdu.

Ghost state (DESIGN 3/C03): the peer's byte stream ``stream`` (Seq<u8>), our cursor ``pos`` and the
offset ``eof`` at which the peer closes (= len(stream)).  Assumed contract of ``socket.recv(k)``
(A-LIB): recv(0) returns b""; for k >= 1 it returns stream[pos:pos+j] for an ADVERSARIAL 1 <= j <= k (and advances the
cursor), or b"" iff pos == eof, or raises OSError/TimeoutError.  No bound on chunk sizes or counts.

Obligation ids are prefixed C03/ (framing) or C02/ (total classification); each property's driver
keeps its own prefix."""
import ast

import z3

from pyvc.task import Task
from pyvc.interp import Interp, Config, LoopSpec
from pyvc.values import SV, Obj, Env, Ev, ExcVal, PyRaise, ByteArr, Unsupported, BYTES
from pyvc.layout import LB, Slice
from contracts import env_dul
from spec import ps38_fsm as S

TR = "pynetdicom.transport"
DUL = "pynetdicom.dul"
RECV = f"{TR}:AssociationSocket.recv"
READ = f"{DUL}:DULServiceProvider._read_pdu_data"
DECODE = f"{DUL}:DULServiceProvider._decode_pdu"
# PS3.8 9.3.1: PDU type codes 01H..07H
PDU_KINDS = ["A_ASSOCIATE_RQ", "A_ASSOCIATE_AC", "A_ASSOCIATE_RJ", "P_DATA_TF", "A_RELEASE_RQ", "A_RELEASE_RP", "A_ABORT_RQ"]


def init_stream(I):
    g = I.ghost
    g["stream"] = I.input("bytes", "stream").e
    g["eof"] = z3.Length(g["stream"])
    p0 = I.input("int", "pos0")
    I.assume(z3.And(p0.e >= 0, p0.e <= g["eof"]))
    g["pos0"] = p0.e
    g["pos"] = p0.e
    g["raised"] = False


def sub(stream, a, b):
    return z3.SubSeq(stream, a, b - a)


def socket_recv_model(I, args):
    """assumed contract of socket.socket.recv"""
    g = I.ghost
    k = args[0]
    ke = I._num(k, "int")
    I.ob("C03/" + RECV + "/call:socket.recv/requires-bufsize>=0", ke >= 0)
    if I.branch(SV(ke == 0, "bool"), "recv(0)"):
        return b""                      # CPython: recv(0) returns b"" at once
    out = I.choose(3, "socket.recv")
    if out == 2:
        g["raised"] = True
        raise PyRaise(ExcVal("TimeoutError" if I.choose(2, "which") else "OSError", ("recv failed",)))
    if out == 1:
        I.assume(g["pos"] == g["eof"])
        return b""
    j = I.fresh("int", "chunk")
    I.assume(z3.And(j.e >= 1, j.e <= ke, g["pos"] + j.e <= g["eof"]))
    data = LB([Slice(g["stream"], g["pos"], g["pos"] + j.e)])
    g["pos"] = g["pos"] + j.e
    return data


# ---------------------------------------------------------------------------------------------
# AssociationSocket.recv
# ---------------------------------------------------------------------------------------------
def _roles(fi):
    """Structural roles (no names hard-coded): the accumulator is the variable returned after the loop; the counters are the
    integer locals the loop body updates with `+=` / `-=` (e.g. a count of bytes read going up, or a number of bytes
    still wanted going down); the number of bytes wanted is the function's second parameter."""
    loops = [n for n in ast.walk(fi.node) if isinstance(n, ast.While)]
    if len(loops) != 1:
        raise Unsupported("recv: expected exactly one while loop")
    rets = [n for n in fi.node.body if isinstance(n, ast.Return)]
    if not rets or not isinstance(rets[-1].value, ast.Name):
        raise Unsupported("recv: no trailing `return <name>`")
    counters = []
    for n in ast.walk(loops[0]):
        if isinstance(n, ast.AugAssign) and isinstance(n.target, ast.Name) and isinstance(n.op, (ast.Add, ast.Sub)):
            counters.append((n.target.id, 1 if isinstance(n.op, ast.Add) else -1))
    params = [a.arg for a in fi.node.args.args]
    if len(params) < 2:
        raise Unsupported("recv: no byte-count parameter")
    return counters, params[1], rets[-1].value.id


class RecvLoop(LoopSpec):
    """invariant: the accumulator is stream[pos0 : pos0 + L], the cursor is at pos0 + L, 0 <= L <= wanted, and every counter c
    that the body steps by +-len(chunk) satisfies c == c_at_entry +- L"""

    def __init__(self, counters, want, acc):
        self.counters, self.want, self.acc = counters, want, acc

    def _L(self, I, fr):
        return I._num(LB.of(I, fr.locals[self.acc]).sym_len(I), "int")

    def invariant(self, I, fr):
        g = I.ghost
        L = self._L(I, fr)
        w = I._num(fr.locals[self.want], "int")
        entry = g.setdefault("recv_entry", {})
        cs = []
        for name, sign in self.counters:
            if name not in fr.locals:
                continue
            c = I._num(fr.locals[name], "int")
            if name not in entry:
                entry[name] = c                      # first evaluation on a path is the loop entry (L == 0 there)
            cs.append(c == entry[name] + sign * L)
        return z3.And(L >= 0, L <= w, g["pos"] == g["pos0"] + L,
                      LB.of(I, fr.locals[self.acc]).is_slice_of(I, g["stream"], g["pos0"], g["pos0"] + L), *cs)

    def variant(self, I, fr):
        return SV(I._num(fr.locals[self.want], "int") - self._L(I, fr), "int")

    def havoc(self, I, fr):
        g = I.ghost
        acc = fr.locals[self.acc]
        if not isinstance(acc, ByteArr):
            raise Unsupported("recv: accumulator is not a bytearray")
        # havoc through the invariant: the accumulator is SOME prefix slice of the stream, the cursor follows it
        L = I.fresh("int", "read_so_far")
        I.assume(L.e >= 0)
        acc.v = LB([Slice(g["stream"], g["pos0"], g["pos0"] + L.e)])
        p = I.fresh("int", "pos")
        I.assume(z3.And(p.e >= 0, p.e <= g["eof"]))
        g["pos"] = p.e


class RecvTask(Task):
    name = "AssociationSocket.recv"
    functions = [RECV]

    def config(self, repo):
        c = Config()
        c.ob_prefix = "C03/"
        fi = repo.func(RECV)
        counters, want, acc = _roles(fi)
        c.loop_specs[(RECV, 0)] = RecvLoop(counters, want, acc)

        def env_call(I, env, method, args, kw):
            if env.path == "self.socket" and method == "recv":
                return socket_recv_model(I, args)
            return NotImplemented
        c.env_call = env_call

        # clocks: adversarial, non-decreasing (inter-chunk delays are arbitrary; the property allows any delay below
        # the network timeout, so recv itself must not give up on elapsed time between chunks)
        def clock(I, args, kw):
            g = I.ghost
            t = I.fresh("real", "clock")
            if "clock" in g:
                I.assume(t.e >= g["clock"])
            g["clock"] = t.e
            return t
        for nm in ("time.monotonic", "time.time", "time.perf_counter"):
            c.ext_models[nm] = clock
        return c

    def body(self, I):
        init_stream(I)
        g = I.ghost
        n = I.input("int", "nr_bytes")
        I.assume(n.e >= 0)
        me = Env("self", cls=I.repo.cls(f"{TR}:AssociationSocket"))
        kind, val = I.run_function(I.repo.func(RECV), [me, n])
        P = "C03/" + RECV
        if kind == "raise":
            I.ob(f"{P}/raises-only-when-socket.recv-raises", bool(g["raised"]) and I.exc_isinstance(val, "OSError"),
                 detail=repr(val))
            return
        res = LB.of(I, val)
        full = z3.And(res.is_slice_of(I, g["stream"], g["pos0"], g["pos0"] + n.e), g["pos"] == g["pos0"] + n.e)
        short = z3.And(g["pos"] == g["eof"], I._num(res.sym_len(I), "int") < n.e,
                       res.is_slice_of(I, g["stream"], g["pos0"], g["eof"]))
        I.ob(f"{P}/returns-exactly-the-next-n-bytes-or-everything-up-to-EOF", z3.Or(full, short))
        I.ob(f"{P}/never-reads-past-what-was-asked", g["pos"] <= g["pos0"] + n.e)


# ---------------------------------------------------------------------------------------------
# DULServiceProvider._read_pdu_data  (recv and _decode_pdu by contract)
# ---------------------------------------------------------------------------------------------
def recv_contract(I, args, kw):
    """Callee contract of AssociationSocket.recv (proved by RecvTask)."""
    g = I.ghost
    n = I._num(args[1] if len(args) > 1 else kw["nr_bytes"], "int")
    I.ob("C03/" + READ + "/call:recv/requires-nr_bytes>=0", n >= 0)
    out = I.choose(3, "recv")
    if out == 2:
        g["raised"] = True
        raise PyRaise(ExcVal("TimeoutError" if I.choose(2, "which") else "OSError", ("recv failed",)))
    if out == 0:
        I.assume(g["pos"] + n <= g["eof"])
        r = LB([Slice(g["stream"], g["pos"], g["pos"] + n)])
        g["pos"] = g["pos"] + n
        return ByteArr(r)
    I.assume(g["eof"] - g["pos"] < n)
    r = LB([Slice(g["stream"], g["pos"], g["eof"])])
    g["pos"] = g["eof"]
    g["hit_eof"] = True
    return ByteArr(r)


def decode_contract(I, args, kw):
    """Callee contract of _decode_pdu (its own obligations: DecodeTask): for bytes whose first byte is a
    known PDU type it returns (pdu, event-of-that-type) or raises; ghost: records what it was given."""
    g = I.ghost
    b = args[1]
    g["decoded"] = LB.of(I, b)
    I.trace.append(Ev("decode", (b,)))
    if I.choose(2, "decode") == 1:
        raise PyRaise(ExcVal("ValueError" if I.choose(2, "exc") else "AssertionError", ("cannot decode",)))
    t = g["decoded"].sym_index(I, 0)
    pdu = Env("pdu")
    ev_of = {k: e for e, k in S.PDU_EVENTS.items()}
    for ty, kindname in enumerate(PDU_KINDS, start=1):
        if I.branch(SV(t.e == ty, "bool"), "pdu-type"):
            pdu.kind = kindname
            return (pdu, ev_of[kindname])
    raise PyRaise(ExcVal("KeyError", ("unknown PDU type",)))


class ReadPduTask(Task):
    name = "DULServiceProvider._read_pdu_data"
    functions = [READ]

    def config(self, repo):
        c = Config()
        c.summaries[RECV] = recv_contract
        c.summaries[DECODE] = decode_contract

        def env_call(I, env, method, args, kw):
            if env.path == "self.event_queue" and method == "put":
                I.trace.append(Ev("event", (args[0],)))
                return None
            if env.path == "self._recv_pdu" and method == "put":
                I.trace.append(Ev("put_pdu", (args[0],)))
                return None
            if env.path == "pdu" and method == "to_primitive":
                # conversion of a decoded PDU: succeeds or raises (reserved / out-of-range parameter values, titles or UIDs
                # that are not legal) - decided by the PDU's content, which the peer controls
                g = I.ghost
                if "convertible" not in g:
                    g["convertible"] = I.choose(2, "the decoded PDU converts to a primitive") == 0
                I.trace.append(Ev("to_primitive", (env,)))
                if not g["convertible"]:
                    raise PyRaise(ExcVal("ValueError", ("invalid parameter value",)))
                return Env("primitive")
            return NotImplemented
        c.env_call = env_call
        return c

    def body(self, I):
        init_stream(I)
        g = I.ghost
        me = Env("self", cls=I.repo.cls(f"{DUL}:DULServiceProvider"))
        sock = Obj(I.repo.cls(f"{TR}:AssociationSocket"), tag="socket")
        me.attrs["socket"] = sock
        # methods of self that are repository functions are called through the class
        me.attrs["_decode_pdu"] = _bound(I, f"{DUL}:DULServiceProvider._decode_pdu", me)
        kind, val = I.run_function(I.repo.func(READ), [me])
        events = [e.args[0] for e in I.trace if e.name == "event"]
        puts = [e.args[0] for e in I.trace if e.name == "put_pdu"]
        decs = [e for e in I.trace if e.name == "decode"]
        st, p0, eof = g["stream"], g["pos0"], g["eof"]
        # ---------------- C02 (a): total classification
        I.ob(f"C02/{READ}/never-raises", kind == "return", detail=f"{kind}:{val!r}")
        # the same fact is what C03's framing claims rest on: however the byte stream is cut or ends, the read finishes with an
        # event (Evt17 for a stream that ends inside a PDU), never with an exception into the reactor
        I.ob(f"C03/{READ}/every-way-the-stream-is-cut-or-ends-is-turned-into-an-event", kind == "return", detail=f"{kind}:{val!r}")
        if kind != "return":
            return
        I.ob(f"C02/{READ}/queues-exactly-one-event", len(events) == 1, detail=repr(events))
        if len(events) != 1:
            return
        ev = events[0]
        I.ob(f"C02/{READ}/event-is-a-receive-event", ev in S.PDU_EVENTS or ev in ("Evt17", "Evt19"), detail=repr(ev))
        I.ob(f"C02/{READ}/queues-a-PDU-iff-the-event-is-a-PDU-event",
             (len(puts) == 1) == (ev in S.PDU_EVENTS), detail=f"event={ev} puts={len(puts)}")
        # ---------------- C02 (d): only a PDU that converts to a primitive reaches the state machine (whose actions convert
        # it again, outside any handler: an exception there ends the reactor thread)
        if puts:
            conv = [e for e in I.trace if e.name == "to_primitive" and e.args[0] is puts[0]]
            I.ob(f"C02/{READ}/a-PDU-is-queued-for-the-state-machine-only-after-it-converted-to-a-primitive",
                 bool(conv) and g.get("convertible") is True and I.trace.index(conv[0]) < I.trace.index(next(e for e in I.trace if e.name == "put_pdu")),
                 detail="the PDU is queued without a conversion check" if not conv else "queued although the conversion raised")
        if g.get("convertible") is False:
            I.ob(f"C02/{READ}/a-PDU-that-does-not-convert-is-reported-as-Evt19-and-not-queued", ev == "Evt19" and not puts, detail=f"{ev}")
        # ---------------- C03: framing
        have_hdr = eof - p0 >= 6
        hb = [st[p0 + i] for i in range(6)]
        for x in hb:
            I.assume(z3.Implies(have_hdr, z3.And(x >= 0, x <= 255)))      # bytes
        ty = hb[0]
        L = hb[2] * 2 ** 24 + hb[3] * 2 ** 16 + hb[4] * 2 ** 8 + hb[5]
        known = z3.And(ty >= 1, ty <= 7)
        complete = z3.And(have_hdr, eof - p0 >= 6 + L)
        if g["raised"]:
            I.ob(f"C03/{READ}/transport-error-is-reported-as-closed-connection", ev == "Evt17" and not decs, detail=ev)
            return
        if decs:
            I.ob(f"C03/{READ}/decodes-exactly-one-whole-PDU-from-the-stream",
                 z3.And(complete, known, g["decoded"].is_slice_of(I, st, p0, p0 + 6 + L), g["pos"] == p0 + 6 + L))
            I.ob(f"C03/{READ}/decodes-at-most-once", len(decs) == 1)
        else:
            I.ob(f"C03/{READ}/no-decode-only-if-truncated-or-unknown-type",
                 z3.Or(z3.Not(have_hdr), z3.Not(known), z3.Not(complete)))
        if ev == "Evt17":
            I.ob(f"C03/{READ}/closed-connection-iff-stream-ends-inside-the-PDU",
                 z3.Or(z3.Not(have_hdr), z3.And(known, z3.Not(complete))), detail="no transport error on this path")
            I.ob(f"C03/{READ}/truncated-PDU-is-never-decoded", not decs)
        elif ev == "Evt19" and not decs:
            I.ob(f"C03/{READ}/unknown-type-consumes-only-the-header", z3.And(have_hdr, z3.Not(known), g["pos"] == p0 + 6))
        if ev in S.PDU_EVENTS:
            I.ob(f"C03/{READ}/PDU-event-matches-the-type-byte-and-consumes-exactly-the-PDU",
                 z3.And(complete, g["pos"] == p0 + 6 + L,
                        ty == 1 + PDU_KINDS.index(S.PDU_EVENTS[ev])))
            I.ob(f"C03/{READ}/queued-PDU-is-the-decoded-one", len(puts) == 1 and getattr(puts[0], "kind", None) == S.PDU_EVENTS[ev])
        # the framing lemma: whenever a complete known PDU is at the cursor (and the transport does not fail),
        # the cursor ends exactly at the start of the next PDU, whatever the chunking was
        I.ob(f"C03/{READ}/framing-lemma:complete-PDU-advances-cursor-to-next-PDU",
             z3.Implies(z3.And(complete, known), g["pos"] == p0 + 6 + L))
        # C02 (conformant acceptance): a complete PDU of a known type is never dropped by the framing layer - its reserved
        # header byte is 'not tested when received' (PS3.8 9.3), the 4-byte length alone decides how much is read
        I.ob(f"C02/{READ}/a-complete-PDU-of-a-known-type-reaches-the-decoder-whatever-its-reserved-header-byte-is",
             z3.Implies(z3.And(complete, known), z3.BoolVal(bool(decs))))


def _bound(I, qual, selfv):
    from pyvc.values import FuncRef
    return FuncRef(I.repo.func(qual), selfv)


# ---------------------------------------------------------------------------------------------
# DULServiceProvider._decode_pdu
# ---------------------------------------------------------------------------------------------
class DecodeTask(Task):
    name = "DULServiceProvider._decode_pdu"
    functions = [DECODE]

    def config(self, repo):
        c = Config()
        c.summaries["pynetdicom.events:trigger"] = env_dul.trigger_summary
        for k in set(S.PDU_EVENTS.values()):
            c.summaries[f"pynetdicom.pdu:{k}"] = self._ctor(k)
        return c

    def _ctor(self, kind):
        def f(I, args, kw):
            o = Env(f"new:{kind}")
            o.kind = kind
            return o
        return f

    def body(self, I):
        b = I.input("bytes", "pdu_bytes")
        I.assume(z3.Length(b.e) >= 6)
        ty = b.e[0]
        I.assume(z3.And(ty >= 1, ty <= 7))      # guaranteed by the caller (_read_pdu_data), see ReadPduTask
        me = Env("self", cls=I.repo.cls(f"{DUL}:DULServiceProvider"))
        me.attrs["assoc"] = Env("assoc")
        raised = {"v": False}

        g_ = I.ghost

        def env_call(I_, env, method, args, kw):
            if "queue" in env.path or env.path.endswith("_recv_pdu"):
                g_["queue_used"] = f"{env.path}.{method}"
                return None
            if env.path.startswith("new:") and method == "to_primitive":
                # should the function itself try the conversion: it succeeds or raises, as the PDU's content decides
                I.trace.append(Ev("pdu.to_primitive", (env,)))
                if I.choose(2, "to_primitive") == 1:
                    g_["conversion_raised"] = True
                    raise PyRaise(ExcVal("ValueError", ("invalid parameter value",)))
                return Env("primitive")
            if env.path.startswith("new:") and method == "decode":
                I.trace.append(Ev("pdu.decode", (env, args[0])))
                if I.choose(2, "decode") == 1:
                    raised["v"] = True
                    raise PyRaise(ExcVal("ValueError", ("bad pdu",)))
                return None
            return NotImplemented
        I.cfg.env_call = env_call
        kind, val = I.run_function(I.repo.func(DECODE), [me, ByteArr(b)])
        P = f"C02/{DECODE}"
        names = PDU_KINDS
        if kind == "raise":
            I.ob(f"{P}/raises-only-when-decode-raises", raised["v"] or bool(g_.get("conversion_raised")), detail=repr(val))
            if not raised["v"]:
                # the PDU was received and decoded: that it crossed the wire is notified even if it is refused afterwards
                evs_ = [e.args[0] for e in I.trace if e.name == "evt"]
                I.ob(f"C27/{DECODE}/a-PDU-that-was-decoded-is-notified-as-received-even-if-it-is-refused-afterwards",
                     evs_.count("EVT_PDU_RECV") == 1, detail=repr(evs_))
            return
        # what _read_pdu_data relies on (it uses this function by contract): the pair (decoded PDU, its event) is RETURNED and
        # nothing is queued here - the caller queues the event only after the conversion check
        shape = isinstance(val, tuple) and len(val) == 2
        queued = [e for e in I.trace if e.name in ("event", "put_pdu") or (e.name.startswith("call:") and "queue" in e.name)]
        queued += [e for e in I.trace if e.name == "envcall" and "queue" in str(e.args[:1])]
        I.ob(f"{P}/returns-the-decoded-PDU-and-its-event-and-queues-nothing-itself", shape and not queued and not g_.get("queue_used"),
             detail=f"returned {val!r}; queue operations: {queued or g_.get('queue_used')}")
        if not shape:
            return
        pdu, ev = val
        evs = [e for e in I.trace if e.name == "evt"]
        decs = [e for e in I.trace if e.name == "pdu.decode"]
        I.ob(f"{P}/event-is-Table-9-10-event-of-the-type-byte",
             z3.Or(*[z3.And(ty == i + 1, z3.BoolVal(S.PDU_EVENTS.get(ev) == k and getattr(pdu, "kind", None) == k))
                     for i, k in enumerate(names)]), detail=f"{ev}")
        I.ob(f"{P}/decodes-exactly-the-received-bytes-once",
             len(decs) == 1 and decs[0].args[0] is pdu and I.valid(I.z(decs[0].args[1]) == b.e))
        I.ob(f"C27/{DECODE}/EVT_DATA_RECV-before-decode-EVT_PDU_RECV-after-successful-decode",
             [e.args[0] for e in evs] == ["EVT_DATA_RECV", "EVT_PDU_RECV"]
             and I.trace.index(evs[0]) < I.trace.index(decs[0]) < I.trace.index(evs[1])
             and isinstance(evs[1].args[1], dict) and evs[1].args[1].get("pdu") is pdu, detail=repr(evs))
        if raised["v"]:
            I.ob(f"C27/{DECODE}/no-EVT_PDU_RECV-when-decode-fails", False)


class DecodeFailTask(DecodeTask):
    name = "DULServiceProvider._decode_pdu/decode-fails"

    def body(self, I):
        # separate task so that the obligation id exists on the unchanged tree
        b = I.input("bytes", "pdu_bytes")
        I.assume(z3.Length(b.e) >= 6)
        ty = b.e[0]
        I.assume(z3.And(ty >= 1, ty <= 7))
        me = Env("self", cls=I.repo.cls(f"{DUL}:DULServiceProvider"))
        me.attrs["assoc"] = Env("assoc")

        def env_call(I_, env, method, args, kw):
            if env.path.startswith("new:") and method == "decode":
                raise PyRaise(ExcVal("ValueError", ("bad pdu",)))
            return NotImplemented
        I.cfg.env_call = env_call
        kind, val = I.run_function(I.repo.func(DECODE), [me, ByteArr(b)])
        evs = [e.args[0] for e in I.trace if e.name == "evt"]
        I.ob(f"C27/{DECODE}/no-EVT_PDU_RECV-when-decode-fails", kind == "raise" and "EVT_PDU_RECV" not in evs, detail=repr(evs))
        I.ob(f"C02/{DECODE}/decode-failure-propagates-to-the-caller", kind == "raise")


# ---------------------------------------------------------------------------------------------
# AssociationSocket.ready: the gate in front of every read
# ---------------------------------------------------------------------------------------------
READY = f"{TR}:AssociationSocket.ready.fget"


class ReadyTask(Task):
    """`ready` decides whether the reactor reads at all.  Framing is independent of how the peer cut its stream only if every
    byte that has arrived is eventually offered to the reader: data is available when select() reports the socket readable OR -
    for a TLS socket of EITHER side - the TLS layer holds decrypted bytes that select() cannot see (several PDUs in one TLS
    record).  A failing select() is a closed connection (Evt17), nothing else; without a connected socket nothing is read."""
    name = "AssociationSocket.ready"
    functions = [READY]

    def config(self, repo):
        c = Config()
        c.ob_prefix = "C03/"

        def select(I, args, kw):
            g = I.ghost
            I.trace.append(Ev("select", (args[0], args[3] if len(args) > 3 else kw.get("timeout"))))
            k = I.choose(3, "select")
            if k == 2:
                raise PyRaise(ExcVal(["OSError", "ValueError", "TimeoutError"][I.choose(3, "select error")], ("bad socket",)))
            g["readable"] = k == 1
            return ([g["sock"]] if k == 1 else [], [], [])
        c.ext_models["select.select"] = select
        c.module_consts[(TR, "_HAS_SSL")] = True

        def env_call(I, env, method, args, kw):
            g = I.ghost
            if env.path == "self.socket" and method == "pending":
                I.trace.append(Ev("pending"))
                return g["pending"]
            if env.path == "self.event_queue" and method == "put":
                I.trace.append(Ev("event", (args[0],)))
                return None
            return NotImplemented
        c.env_call = env_call
        return c

    def body(self, I):
        P = f"C03/{READY}"
        g = I.ghost
        me = Env("self", cls=I.repo.cls(f"{TR}:AssociationSocket"))
        me.attrs["event_queue"] = Env("self.event_queue")
        state = I.choose(3, "socket state")          # 0: no socket, 1: not connected, 2: connected
        tls = I.choose(2, "TLS socket") == 1
        side = ["requestor", "acceptor"][I.choose(2, "which side wrapped the socket")]
        sock = Env("self.socket", cls="ssl.SSLSocket" if tls else "socket.socket")
        g["sock"] = sock
        me.attrs["socket"] = None if state == 0 else sock
        me.attrs["_is_connected"] = state == 2
        # a requestor's TLS socket is wrapped from AE tls_args, an acceptor's by the server's ssl_context: tls_args says nothing
        # about whether THIS socket is a TLS socket
        ta = Env("tls_args")
        ta.truth = True                       # (ssl_context, server_hostname): a non-empty tuple
        me.attrs["tls_args"] = (ta if (tls and side == "requestor") else None)
        me.attrs["_tls_args"] = me.attrs["tls_args"]
        g["pending"] = I.input("int", "bytes_pending_in_the_TLS_layer")
        I.assume(g["pending"].e >= 0)
        kind, val = I.run_function(I.repo.func(READY), [me])
        I.ob(f"{P}/no-exception", kind == "return", detail=f"{kind}:{val!r}")
        if kind != "return":
            return
        evs = [e.args[0] for e in I.trace if e.name == "event"]
        sel = [e for e in I.trace if e.name == "select"]
        r = val if isinstance(val, bool) else (val.e if isinstance(val, SV) else None)
        if state != 2:
            I.ob(f"{P}/nothing-is-ready-without-a-connected-socket", r is False and not sel and not evs)
            return
        I.ob(f"{P}/select-is-asked-once-without-waiting", len(sel) == 1 and sel[0].args[1] == 0, detail=repr(sel))
        if "readable" not in g:
            I.ob(f"{P}/a-failing-select-is-a-closed-connection:Evt17-and-not-ready", r is False and evs == ["Evt17"], detail=f"{r} {evs}")
            return
        I.ob(f"{P}/no-event-when-select-succeeds", evs == [])
        want = z3.Or(z3.BoolVal(g["readable"]), z3.And(z3.BoolVal(tls), g["pending"].e > 0))
        I.ob(f"{P}/ready-iff-readable-or-decrypted-bytes-are-pending-in-the-TLS-layer-of-either-side",
             r is not None and (z3.BoolVal(r) if isinstance(r, bool) else r) == want, detail=f"tls={tls} side={side} readable={g['readable']}")

"""C04 — the state machine reacts to every state/event pair as PS3.8 prescribes.

Oracle: spec/ps38_fsm.py (independent transcription of PS3.8 Tables 9-6..9-10).
(a) table equality over all 13x19 pairs (exhaustive); (b) one effect-trace contract per action
function, executed from its AST for every role / protocol-version / queue-head case;
(c) do_action / transition contracts (actions replaced by their contracts: modular)."""
import z3

from pyvc.task import Task, FiniteTask
from pyvc.interp import Interp, Config
from pyvc.values import SV, Obj, Env, Ev, ExcVal, PyRaise, FuncRef
from spec import ps38_fsm as S
from contracts import env_dul

PROPERTY = "C04"
LEVEL = "proof"
FSM = "pynetdicom.fsm"
PDU = "pynetdicom.pdu"
PRIM = "pynetdicom.pdu_primitives"
ASSUMPTIONS = [
    "spec/ps38_fsm.py is a correct transcription of PS3.8 Tables 9-6..9-10 (A-SPEC)",
    "ghost queue alignment: the head of the queue an action reads is the PDU/primitive that produced the event "
    "(established by _read_pdu_data/_process_recv_primitive contracts, C02/C05)",
    "AE-6 'acceptable by the service provider' is read as protocol_version == 1 (derived from the code)",
    "the local-user A-P-ABORT path of AA-1 (pynetdicom API extension, no PS3.8 counterpart) has its own contract: "
    "source 2, reason = the primitive's provider reason",
    "contracts of A_ASSOCIATE_RQ/AC/P_DATA_TF from_primitive/to_primitive are used instead of their bodies (C01)",
    "events.trigger returns None and raises nothing for notification events (C26)",
    "precondition of AA-1: the head of the provider queue is empty, an A-ABORT or an A-P-ABORT primitive (cross-thread "
    "invariant, not machine-checked: Evt15's producer peeked that primitive; in Sta2 nothing else can be queued)",
]


def py_name(action):   # 'AE-1' -> 'AE_1'
    return action.replace("-", "_")


def mk_prim(I, kind, **fields):
    o = Obj(I.repo.cls(f"{PRIM}:{kind}"), tag=f"head:{kind}")
    o.fields.update(fields)
    return o


def mk_pdu(I, kind, **fields):
    o = Obj(I.repo.cls(f"{PDU}:{kind}"), tag=f"head:{kind}")
    o.fields.update(fields)
    return o


def wf_rj(I, res, src, rsn):
    """legal A-ASSOCIATE-RJ code triples (PS3.8 Table 9-21)"""
    I.assume(z3.Or(res.e == 1, res.e == 2))
    I.assume(z3.Or(z3.And(src.e == 1, z3.Or(rsn.e == 1, rsn.e == 2, rsn.e == 3, rsn.e == 7)),
                   z3.And(src.e == 2, z3.Or(rsn.e == 1, rsn.e == 2)),
                   z3.And(src.e == 3, z3.Or(rsn.e == 1, rsn.e == 2))))


class ActionTask(Task):
    """Effect-trace contract of one action function."""

    def __init__(self, action):
        self.action = action
        self.fn = f"{FSM}:{py_name(action)}"
        self.name = f"action/{action}"
        self.functions = [self.fn]

    def config(self, repo):
        c = Config()
        c.env_call = env_dul.env_call
        c.summaries.update(env_dul.summaries())
        return c

    # ---------------- scenario (pre-state) per action
    def scenario(self, I):
        a = self.action
        scn = env_dul.Scenario()
        info = {}
        if a in ("AE-1",):
            scn.provider_head = mk_prim(I, "A_ASSOCIATE")
        elif a == "AE-2":
            req = mk_prim(I, "A_ASSOCIATE")
            t = Obj(I.repo.cls("pynetdicom.transport:T_CONNECT"), tag="head:T_CONNECT")
            t.fields.update(request=req, _result="Evt2")
            scn.provider_head = t
            info["request"] = req
        elif a in ("AE-7",):
            scn.provider_head = mk_prim(I, "A_ASSOCIATE")
        elif a == "AE-8":
            res, src, rsn = I.input("int", "result"), I.input("int", "result_source"), I.input("int", "diagnostic")
            wf_rj(I, res, src, rsn)
            scn.provider_head = mk_prim(I, "A_ASSOCIATE", _result=res, _result_source=src, _diagnostic=rsn)
            info["rj"] = (res, src, rsn)
        elif a in ("DT-1", "AR-7"):
            scn.provider_head = mk_prim(I, "P_DATA", _presentation_data_value_list=[])
        elif a in ("AR-1", "AR-4", "AR-9"):
            scn.provider_head = mk_prim(I, "A_RELEASE", _result=None if a == "AR-1" else "affirmative")
        elif a == "AE-3":
            scn.pdu_head = mk_pdu(I, "A_ASSOCIATE_AC")
        elif a == "AE-4":
            res, src, rsn = I.input("int", "result"), I.input("int", "source"), I.input("int", "reason")
            wf_rj(I, res, src, rsn)
            scn.pdu_head = mk_pdu(I, "A_ASSOCIATE_RJ", result=res, source=src, reason_diagnostic=rsn)
            info["rj"] = (res, src, rsn)
        elif a == "AE-6":
            pv = I.input("int", "protocol_version")
            I.assume(z3.And(pv.e >= 0, pv.e <= 0xFFFF))
            scn.pdu_head = mk_pdu(I, "A_ASSOCIATE_RQ", protocol_version=pv)
            info["cond"] = pv.e == 1
        elif a in ("DT-2", "AR-6"):
            scn.pdu_head = mk_pdu(I, "P_DATA_TF", presentation_data_value_items=[])
        elif a in ("AR-2", "AR-8"):
            scn.pdu_head = mk_pdu(I, "A_RELEASE_RQ")
        elif a in ("AR-3", "AR-10"):
            scn.pdu_head = mk_pdu(I, "A_RELEASE_RP")
        elif a == "AA-3":
            src, rsn = I.input("int", "source"), I.input("int", "reason")
            I.assume(z3.Or(src.e == 0, src.e == 2))
            I.assume(z3.Or(*[rsn.e == x for x in S.PROVIDER_REASONS]))
            scn.pdu_head = mk_pdu(I, "A_ABORT_RQ", source=src, reason_diagnostic=rsn)
            info["cond"] = src.e != 2
            info["abort"] = (src, rsn)
        elif a == "AA-6":
            if I.choose(2, "pdu-queue") == 0:
                scn.pdu_head = mk_pdu(I, "A_RELEASE_RQ")
            info["had_pdu"] = scn.pdu_head is not None
        elif a == "AA-1":
            # head of the provider queue when AA-1 runs: empty, A-ABORT or A-P-ABORT (precondition: AA-1 is
            # reached by Evt15, whose producer peeked that abort primitive, or by a PDU event in Sta2,
            # where the local user can have queued nothing but an abort)
            k = I.choose(3, "provider-head")
            info["head"] = k
            if k == 1:
                src = I.input("int", "abort_source")
                I.assume(z3.Or(src.e == 0, src.e == 2))
                scn.provider_head = mk_prim(I, "A_ABORT", _abort_source=src)
                info["abort_source"] = src
            elif k == 2:
                rsn = I.input("int", "provider_reason")
                I.assume(z3.Or(*[rsn.e == x for x in S.PROVIDER_REASONS]))
                scn.provider_head = mk_prim(I, "A_P_ABORT", _provider_reason=rsn)
                info["provider_reason"] = rsn
        if a in ("AR-5", "AA-4", "AA-5"):
            scn.shutdown_raises = I.choose(2, "shutdown") == 1
        return scn, info

    def body(self, I: Interp):
        a = self.action
        A = f"C04/{self.fn}"
        spec = S.ACTIONS[a]
        scn, info = self.scenario(I)
        dul = env_dul.make_dul(I, scn)
        is_req = dul.attrs["assoc"].attrs["is_requestor"]
        kind, val = I.run_function(I.repo.func(self.fn), [dul])
        I.ob(f"{A}/no-exception", kind == "return", detail=f"{kind}:{val!r} trace={I.trace!r}")
        if kind != "return":
            return
        # ---- which spec case applies on this path
        if "cond" in spec:
            cond = {"rq_acceptable": info.get("cond"), "is_requestor": is_req.e, "user_initiated": info.get("cond")}[spec["cond"]]
            cases = [(cond, spec["effects"][True], spec["next"][True]),
                     (z3.Not(cond), spec["effects"][False], spec["next"][False])]
        else:
            cases = [(True, spec["effects"], spec["next"])]
        proto = []
        for e in I.trace:
            if e.name == "connect":
                proto.append(("connect",))
            elif e.name in ("send", "indicate"):
                o = e.args[0]
                proto.append((e.name, o.cls.name if isinstance(o, Obj) else repr(o)))
            elif e.name == "pdata_indication":
                proto.append(("pdata_indication",))
            elif e.name == "artim":
                proto.append(("artim", e.args[0]))
            elif e.name == "close":
                # Evt17 actions (AR-5, AA-4, AA-5): the peer/transport already closed the connection; shutting the
                # local socket down is clean-up, not the PS3.8 effect "close transport connection"
                if not (a in ("AR-5", "AA-4", "AA-5") and e.args[0] == "shutdown"):
                    proto.append(("close",))
        for cond, effects, nxt in cases:
            def under(f):
                if cond is True:
                    return f
                if isinstance(f, bool):
                    return z3.Implies(cond, z3.BoolVal(f))
                return z3.Implies(cond, f)
            I.ob(f"{A}/next-state-is-PS3.8", under(val == nxt), detail=f"returned {val!r}, Table 9-6..9-9: {nxt}")
            I.ob(f"{A}/protocol-effects-are-exactly-PS3.8", under(sorted(proto) == sorted(effects)),
                 detail=f"effects {proto} ; PS3.8: {effects}")
        # ---- the state announced in ACTIONS
        acts = I.module_ns(I.repo.module(FSM))["ACTIONS"]
        ann = acts[a][2]
        I.ob(f"{A}/next-state-is-announced-in-ACTIONS", val == ann or (isinstance(ann, tuple) and val in ann),
             detail=f"{val!r} vs {ann!r}")
        # ---- queue consumption (frame)
        pops_pdu = sum(1 for e in I.trace if e.name == "pop_pdu")
        pops_prim = sum(1 for e in I.trace if e.name == "pop_primitive")
        want_pdu = 1 if a in S.POPS_PDU or (a in S.POPS_PDU_IF_ANY and info.get("had_pdu")) else 0
        want_prim = 1 if a in S.POPS_PRIMITIVE or (a == "AA-1" and info.get("head") in (1, 2)) else 0
        I.ob(f"{A}/consumes-exactly-its-own-queue-entries", pops_pdu == want_pdu and pops_prim == want_prim,
             detail=f"pdu pops {pops_pdu}/{want_pdu}, primitive pops {pops_prim}/{want_prim}")
        # ---- fields of what is sent / indicated
        sent = [e.args[0] for e in I.trace if e.name == "send"]
        ind = [e.args[0] for e in I.trace if e.name == "indicate"]
        g = lambda o, n: I.getattr(o, n)   # noqa: E731  (runs the real property getters)
        if a == "AE-6" and sent:
            p = sent[0]
            I.ob(f"{A}/reject-is-result1-source2-reason2",
                 z3.And(*[_b(I.eq(g(p, k), v)) for k, v in S.AE6_REJECT.items()]))
        if a == "AE-6" and ind:
            I.ob(f"{A}/indication-is-the-received-request", ind[0].fields.get("__from_pdu__") is scn_head(I, "pop_pdu"))
        if a == "AE-8" and sent:
            res, src, rsn = info["rj"]
            p = sent[0]
            I.ob(f"{A}/reject-carries-the-user-result-source-reason",
                 z3.And(_b(I.eq(g(p, "result"), res)), _b(I.eq(g(p, "source"), src)), _b(I.eq(g(p, "reason_diagnostic"), rsn))))
        if a == "AE-4" and ind:
            res, src, rsn = info["rj"]
            p = ind[0]
            I.ob(f"{A}/confirmation-carries-result-source-reason",
                 z3.And(_b(I.eq(g(p, "result"), res)), _b(I.eq(g(p, "result_source"), src)), _b(I.eq(g(p, "diagnostic"), rsn))))
        if a in ("AE-2", "AE-7", "DT-1", "AR-7") and sent:
            I.ob(f"{A}/pdu-built-from-the-queued-primitive",
                 sent[0].fields.get("__from_primitive__") is (info.get("request") or scn_head(I, "pop_primitive")))
        if a in ("AE-3", "DT-2", "AR-6"):
            tgt = ind[0] if ind else next((e.args[0] for e in I.trace if e.name == "pdata_indication"), None)
            I.ob(f"{A}/indication-built-from-the-received-pdu",
                 isinstance(tgt, Obj) and tgt.fields.get("__from_pdu__") is scn_head(I, "pop_pdu"))
        if a == "AE-1":
            c = next((e.args[0] for e in I.trace if e.name == "connect"), None)
            I.ob(f"{A}/connect-request-wraps-the-queued-primitive",
                 isinstance(c, Obj) and c.cls.name == "T_CONNECT" and c.fields.get("request") is scn_head(I, "pop_primitive"))
        if a == "AA-1" and sent:
            p = sent[0]
            k = info["head"]
            if k == 1:
                I.ob(f"{A}/user-abort-primitive:source-from-primitive-reason-0",
                     z3.And(_b(I.eq(g(p, "source"), info["abort_source"])), _b(I.eq(g(p, "reason_diagnostic"), 0))))
            elif k == 2:
                I.ob(f"{A}/provider-abort-primitive:source-2-reason-from-primitive",
                     z3.And(_b(I.eq(g(p, "source"), 2)), _b(I.eq(g(p, "reason_diagnostic"), info["provider_reason"]))))
            else:
                I.ob(f"{A}/abort-is-service-user-source-0-reason-0",
                     z3.And(*[_b(I.eq(g(p, kk), v)) for kk, v in S.AA1_DEFAULT.items()]))
        if a == "AA-7" and sent:
            I.ob(f"{A}/abort-is-provider-source-2-reason-2",
                 z3.And(*[_b(I.eq(g(sent[0], kk), v)) for kk, v in S.AA7_ABORT.items()]))
        if a == "AA-8" and sent:
            rs = g(sent[0], "reason_diagnostic")
            I.ob(f"{A}/abort-is-provider-source-with-defined-reason",
                 z3.And(_b(I.eq(g(sent[0], "source"), S.AA8_SOURCE)), z3.Or(*[_b(I.eq(rs, x)) for x in S.PROVIDER_REASONS])))
        if a in ("AA-8", "AA-4") and ind:
            pr = ind[0].fields.get("_provider_reason")
            I.ob(f"{A}/indication-has-a-defined-provider-reason", z3.Or(*[_b(I.eq(pr, x)) for x in S.PROVIDER_REASONS]))
        if a == "AA-3" and ind:
            src, rsn = info["abort"]
            p = ind[0]
            if p.cls.name == "A_P_ABORT":
                I.ob(f"{A}/provider-abort-indication-carries-reason", _b(I.eq(p.fields.get("_provider_reason"), rsn)))
            elif p.cls.name == "A_ABORT":
                I.ob(f"{A}/user-abort-indication-carries-source", _b(I.eq(p.fields.get("_abort_source"), src)))
        # ---- implementation obligations for transitions to idle (shared with C05/C27)
        n_evt = sum(1 for e in I.trace if e.name == "evt" and e.args[0] == "EVT_CONN_CLOSE")
        n_kill = sum(1 for e in I.trace if e.name == "kill")
        n_close = sum(1 for e in I.trace if e.name == "close")
        I.ob(f"C27/{self.fn}/EVT_CONN_CLOSE-exactly-once-on-a-transition-to-idle-and-never-otherwise",
             n_evt == (1 if a in S.TO_IDLE else 0), detail=f"{n_evt} notifications, next state {val!r}")
        if a in S.TO_IDLE:
            I.ob(f"{A}/to-idle:connection-closed-or-shut-down-exactly-once", n_close == 1, detail=f"{n_close}")
            I.ob(f"{A}/to-idle:exactly-one-EVT_CONN_CLOSE", n_evt == 1, detail=f"{n_evt}")
            I.ob(f"{A}/to-idle:provider-killed-exactly-once-and-last",
                 n_kill == 1 and I.trace and I.trace[-1].name == "kill", detail=f"{n_kill}")
        else:
            I.ob(f"{A}/not-to-idle:no-close-no-kill-no-EVT_CONN_CLOSE", n_evt == 0 and n_kill == 0 and n_close == 0,
                 detail=f"evt={n_evt} kill={n_kill} close={n_close}")
        n_sent = sum(1 for e in I.trace if e.name == "dimse_sentinel")
        I.ob(f"{A}/dimse-wakeup-sentinel-iff-abort-path", n_sent == (1 if a in ("AA-2", "AA-3", "AA-4") else 0),
             detail=f"{n_sent}")


def _b(t):
    return z3.BoolVal(t) if isinstance(t, bool) else t


def scn_head(I, evname):
    return next((e.args[0] for e in I.trace if e.name == evname), None)


class TableTask(FiniteTask):
    name = "table/all-247-pairs"
    functions = []

    def check(self, repo, emit):
        I = Interp(repo, Config())
        ns = I.module_ns(repo.module(FSM))
        T, A = ns["TRANSITION_TABLE"], ns["ACTIONS"]
        states, events = ns["STATES"], ns["EVENTS"]
        emit("C04/tables/13-states-19-events", list(states) == S.STATES and list(events) == S.EVENTS,
             detail=f"{list(states)[:2]}.. {list(events)[:2]}..")
        for ev in S.EVENTS:
            bad = []
            for st in S.STATES:
                got, want = T.get((ev, st)), S.TABLE.get((ev, st))
                if got != want:
                    bad.append((st, got, want))
            emit(f"C04/TRANSITION_TABLE/{ev}/all-13-states-equal-Table-9-10", not bad, detail=bad, model={"bad": bad})
        extra = [k for k in T if k not in S.TABLE and not (k[0] in S.EVENTS and k[1] in S.STATES)]
        emit("C04/TRANSITION_TABLE/no-entries-outside-the-grid", not extra, detail=extra)
        emit("C04/ACTIONS/exactly-the-28-actions", sorted(A) == sorted(S.ACTIONS), detail=sorted(set(A) ^ set(S.ACTIONS)))
        for a in sorted(S.ACTIONS):
            ent = A.get(a)
            ok = isinstance(ent, tuple) and len(ent) == 3 and isinstance(ent[1], FuncRef) \
                and ent[1].fi.qualname == f"{FSM}:{py_name(a)}"
            emit(f"C04/ACTIONS/{a}/bound-to-its-function", ok, detail=repr(ent))
            nxt = S.ACTIONS[a]["next"]
            want = tuple(sorted(nxt.values())) if isinstance(nxt, dict) else (nxt,)
            got = ent[2] if isinstance(ent, tuple) else None
            got_t = tuple(sorted(got)) if isinstance(got, tuple) else (got,)
            emit(f"C04/ACTIONS/{a}/announced-next-state", tuple(sorted(set(want))) == tuple(sorted(set(got_t))),
                 detail=f"{got!r} vs {want!r}")


class DoActionTask(Task):
    """StateMachine.do_action for one (event, state) pair; action functions are replaced by their
    contracts (return one of the announced states, or raise)."""

    def __init__(self, event):
        self.event = event
        self.name = f"do_action/{event}"
        self.functions = [f"{FSM}:StateMachine.do_action", f"{FSM}:StateMachine.transition", f"{FSM}:StateMachine.__init__"]

    def config(self, repo):
        c = Config()
        c.env_call = env_dul.env_call
        c.summaries.update(env_dul.summaries())
        for a, sp in S.ACTIONS.items():
            c.summaries[f"{FSM}:{py_name(a)}"] = self._action_contract(a, sp)
        return c

    def _action_contract(self, a, sp):
        def f(I, args, kw):
            I.trace.append(Ev("action", (a,)))
            nxt = sp["next"]
            outs = sorted(set(nxt.values())) if isinstance(nxt, dict) else [nxt]
            k = I.choose(len(outs) + 1, "action-outcome")
            if k == len(outs):
                I.ghost["action_raised"] = True
                raise PyRaise(ExcVal("RuntimeError", ("action failed",)))
            return outs[k]
        return f

    def body(self, I):
        ev = self.event
        si = I.choose(13, "state")
        st = S.STATES[si]
        D = f"C04/{FSM}:StateMachine.do_action"
        scn = env_dul.Scenario()
        dul = env_dul.make_dul(I, scn)
        sm = I.instantiate(I.repo.cls(f"{FSM}:StateMachine"), [dul], {})
        I.ob(f"{D}/initial-state-is-Sta1", sm.fields.get("current_state") == "Sta1")
        sm.fields["current_state"] = st
        I.trace.clear()
        kind, val = I.run_function(I.repo.func(f"{FSM}:StateMachine.do_action"), [sm, ev])
        want = S.TABLE.get((ev, st))
        acts = [e.args[0] for e in I.trace if e.name == "action"]
        trans = [e for e in I.trace if e.name == "evt" and e.args[0] == "EVT_FSM_TRANSITION"]
        kills = sum(1 for e in I.trace if e.name == "kill")
        if want is None:
            I.ob(f"{D}/pair-not-in-Table-9-10:InvalidEventError-state-unchanged-no-action",
                 kind == "raise" and val.cls_name == "InvalidEventError" and sm.fields["current_state"] == st
                 and not acts and not trans and kills == 0, detail=f"{ev},{st}: {kind} {val!r} {I.trace!r}")
            return
        I.ob(f"{D}/performs-exactly-the-Table-9-10-action", acts == [want], detail=f"{ev},{st}: {acts} vs {want}")
        if I.ghost.get("action_raised"):
            I.ob(f"{D}/action-exception:provider-killed-and-reraised-state-unchanged",
                 kind == "raise" and kills == 1 and sm.fields["current_state"] == st and not trans,
                 detail=f"{kind} {val!r} kills={kills}")
            return
        I.ob(f"{D}/no-exception", kind == "return", detail=f"{ev},{st}: {kind}:{val!r}")
        if kind != "return":
            return
        new = sm.fields["current_state"]
        nxt = S.ACTIONS[want]["next"]
        outs = set(nxt.values()) if isinstance(nxt, dict) else {nxt}
        I.ob(f"{D}/moves-to-the-state-the-action-returned", new in outs and kills == 0, detail=f"{new}")
        ok = len(trans) == 1 and isinstance(trans[0].args[1], dict) and \
            trans[0].args[1].get("action") == want and trans[0].args[1].get("current_state") == st and \
            trans[0].args[1].get("fsm_event") == ev and trans[0].args[1].get("next_state") == new
        I.ob(f"{D}/exactly-one-EVT_FSM_TRANSITION-with-action-old-event-new", ok, detail=repr(trans))
        # C27: the notified transition starts in the state the machine was in and ends in the state it is in afterwards -
        # with current_state written only by __init__/transition (C27 frame scan) consecutive notifications chain
        I.ob(f"C27/{FSM}:StateMachine.do_action/the-notified-transition-goes-from-the-state-before-to-the-state-after",
             len(trans) == 1 and isinstance(trans[0].args[1], dict) and trans[0].args[1].get("current_state") == st
             and trans[0].args[1].get("next_state") == new and sm.fields["current_state"] == new, detail=repr(trans))


class TransitionTask(Task):
    name = "transition"
    functions = [f"{FSM}:StateMachine.transition"]

    def body(self, I):
        T = f"C04/{FSM}:StateMachine.transition"
        sm = Obj(I.repo.cls(f"{FSM}:StateMachine"))
        sm.fields.update(current_state="Sta6", dul=Env("dul"))
        s = I.input("str", "state")
        kind, val = I.run_function(I.repo.func(f"{FSM}:StateMachine.transition"), [sm, s])
        legal = z3.Or(*[s.e == z3.StringVal(x) for x in S.STATES])
        if kind == "return":
            I.ob(f"{T}/accepts-only-Sta1..Sta13-and-stores-it", z3.And(legal, _b(I.eq(sm.fields["current_state"], s))))
        else:
            I.ob(f"{T}/rejects-exactly-the-other-strings-with-ValueError-state-unchanged",
                 z3.And(z3.Not(legal), z3.BoolVal(val.cls_name == "ValueError" and sm.fields["current_state"] == "Sta6")))


# "ARTIM started/stopped": the action contracts establish WHICH Timer method each action calls; what those calls do to the timer
# (after start()/restart() it runs from that instant and is not stopped - whatever start/stop history it had; after stop() it is
# stopped at that instant) is the Timer class contract of C09, re-proved under this id for the three methods the actions use
RELABEL = {"C09/": "C04/artim:"}
RELABEL_ONLY = {"C09/": r"Timer\.(start|restart|stop)/"}


def tasks(tier):
    from contracts import C09
    ts = [TableTask(), TransitionTask()]
    ts += [ActionTask(a) for a in sorted(S.ACTIONS)]
    ts += [DoActionTask(e) for e in S.EVENTS]
    ts += [T(alt) for alt in C09.ALTERNATIVES for T in (C09.Start, C09.Restart, C09.Stop)]
    return ts


def postprocess(results):
    from contracts import C09
    return C09.postprocess(results)


def replay(rec):
    from pyvc.replay import run_replay
    oid = rec.get("id", "")
    if oid.startswith("C04/artim:"):
        return run_replay("C09", dict(rec, id="C09/" + oid[len("C04/artim:"):]))
    return run_replay("C04", rec)


LEVEL_TEXT = ("TRANSITION_TABLE/ACTIONS (re-evaluated from the AST) equal the PS3.8 transcription on all 247 pairs; each of "
              "the 28 action functions is executed symbolically for every role/protocol-version/queue-head case and its "
              "effect trace, fields sent/indicated, queue consumption and next state are proved equal to Tables 9-6..9-9; "
              "do_action is proved for all 247 pairs against the actions' contracts.")
LEVEL_NOTE = ("trusted: pyvc, z3, the transcription spec/ps38_fsm.py, the environment model of the provider object "
              "(contracts/env_dul.py), callee contracts from C01/C26, ghost queue alignment (C02/C05).")
TECHNIQUE = 'deductive: effect-trace contracts per FSM action from the AST + exhaustive 13x19 table equality vs PS3.8 transcription + the Timer start/restart/stop class contract (ghost clock, z3 LRA) re-proved for the ARTIM effects'

"""C30 — storage apps never write outside their storage directory.

Postcondition on both handle_store functions: every path handed to a writing call is
    join(storage_dir, name)   with   "/" not in name, name not in {"", ".", ".."}, NUL not in name
for an ARBITRARY SOP Instance UID / SOP Class UID string (z3 strings, cvc5 as second opinion)."""
import z3

from pyvc.task import Task
from pyvc.interp import Interp, Config
from pyvc.values import SV, Obj, Env, Ev, ExcVal, PyRaise, Unsupported

PROPERTY = "C30"
LEVEL = "proof"
STORESCP = "pynetdicom.apps.common:handle_store"
QRSCP = "pynetdicom.apps.qrscp.handlers:handle_store"
ASSUMPTIONS = [
    "assumed contract of re.sub(r'[^\\d.]', '_', s): result has the length of s and only characters 0-9 . _ "
    "(checked exhaustively over the 128 ASCII code points + sampled non-ASCII in the thorough tier)",
    "assumed contract of os.path.join(d, n) (POSIX): n if n starts with '/', else d + n if d ends with '/' or is empty, else d + '/' + n",
    "the configured storage directory itself is trusted (operator supplied)",
    "opening an existing directory ('', '.', '..' relative to the storage directory) for writing fails without creating or "
    "modifying anything (POSIX)",
    "writing calls are: open(path, mode with w/a/x/+), <dataset>.save_as(path, ...); os.makedirs only creates the storage directory",
    "SQL database writes go through the configured db_path (sqlalchemy engine), not through paths built from the dataset",
]
SAFE_RE = None


def z3_safe_name(name):
    """a file name that cannot leave its directory: no separator, no NUL.  The names "", "." and ".." stay inside
    too: they denote the storage directory itself or its parent, i.e. existing DIRECTORIES, and opening a
    directory for writing fails (POSIX, assumed) — nothing is created or modified."""
    S = z3.StringVal
    return z3.And(z3.Not(z3.Contains(name, S("/"))), z3.Not(z3.Contains(name, S("\x00"))))


def join_model(I, args, kw):
    d, n = args[0], args[1]
    if len(args) != 2:
        raise Unsupported("os.path.join with != 2 arguments")
    if d is None or n is None:
        I.raise_("TypeError", "expected str, bytes or os.PathLike object, not NoneType")
    if I.kind_of(d) != "str" or I.kind_of(n) != "str":
        if isinstance(n, Env) or isinstance(d, Env):
            raise Unsupported("os.path.join on opaque values")
        I.raise_("TypeError", "join() argument must be str")
    de, ne = I.z(d), I.z(n)
    S = z3.StringVal
    r = z3.If(z3.PrefixOf(S("/"), ne), ne,
              z3.If(z3.Or(de == S(""), z3.SuffixOf(S("/"), de)), z3.Concat(de, ne), z3.Concat(de, S("/"), ne)))
    I.ghost.setdefault("joins", []).append((de, ne, r))
    return SV(r, "str")


def resub_model(I, args, kw):
    pat, repl, s = args[0], args[1], args[2]
    if pat != r"[^\d.]" or repl != "_":
        raise Unsupported(f"re.sub with pattern {pat!r} has no assumed contract")
    if I.kind_of(s) != "str":
        I.raise_("TypeError", "expected string or bytes-like object")
    r = I.fresh("str", "resub")
    allowed = z3.Star(z3.Union(z3.Range("0", "9"), z3.Re("."), z3.Re("_")))
    I.assume(z3.And(z3.Length(r.e) == z3.Length(I.z(s)), z3.InRe(r.e, allowed)))
    return r


class CompiledRe:
    """re.compile(pattern): an object whose .sub(repl, s) is re.sub(pattern, repl, s) (same assumed contract)"""

    def __init__(self, pattern):
        self.pattern = pattern

    def truth(self, I):
        return True

    def sym_method(self, I, name, args, kw):
        if name == "sub":
            return resub_model(I, [self.pattern] + list(args), kw)
        return NotImplemented


def common_config(prefix):
    c = Config()
    c.ob_prefix = prefix
    c.ext_models["os.path.join"] = join_model
    c.ext_models["re.sub"] = resub_model
    c.ext_models["re.compile"] = lambda I, a, k: CompiledRe(a[0])
    for _nm in ("shutil.move", "shutil.copy", "shutil.copy2", "shutil.copyfile", "os.rename", "os.replace"):
        c.ext_models[_nm] = (lambda nm: lambda I, a, k: I.trace.append(Ev(nm, tuple(a))))(_nm)
    c.ext_models["os.path.isfile"] = lambda I, a, k: I.fresh("bool", "isfile")
    c.ext_models["os.remove"] = lambda I, a, k: I.trace.append(Ev("os.remove", tuple(a)))
    c.ext_models["os.path.exists"] = lambda I, a, k: I.fresh("bool", "exists")
    c.ext_models["os.path.dirname"] = lambda I, a, k: I.fresh("str", "dirname")
    c.ext_models["os.path.abspath"] = lambda I, a, k: I.fresh("str", "abspath")

    def makedirs(I, a, k):
        I.trace.append(Ev("makedirs", (a[0],)))
        if I.choose(2, "makedirs") == 1:
            raise PyRaise(ExcVal("OSError", ("cannot create",)))
        return None
    c.ext_models["os.makedirs"] = makedirs

    def open_(I, a, k):
        mode = a[1] if len(a) > 1 else k.get("mode", "r")
        I.trace.append(Ev("open", (a[0], mode)))
        if I.choose(2, "open") == 1:
            raise PyRaise(ExcVal("OSError", ("cannot open",)))
        return Env("file")
    c.ext_models["open"] = open_
    c.ext_opaque = ("sqlalchemy", "pydicom", "os.fspath", "datetime")
    c.log_names = {"LOGGER"}
    return c


def make_event(I):
    """event.dataset -> ds ; ds[0x00030000:] -> ds2 with arbitrary SOPInstanceUID / SOPClassUID strings"""
    uid = I.input("str", "SOPInstanceUID")
    sopc = I.input("str", "SOPClassUID")
    event = Env("event")
    ds = Env("ds")
    ds2 = Env("ds2")
    ds2.attrs["SOPInstanceUID"] = uid
    ds2.attrs["SOPClassUID"] = sopc
    ds.data[("slice", repr(0x00030000), repr(None), repr(None))] = ds2
    event.attrs["dataset"] = ds
    return event, uid, sopc, ds2


def written_paths(I):
    out = []
    for e in I.trace:
        if e.name == "open" and isinstance(e.args[1], str) and any(ch in e.args[1] for ch in "wax+"):
            out.append(("open", e.args[0]))
        elif e.name.endswith(".save_as") or e.name.endswith(".write_bytes") or e.name.endswith(".write_text"):
            out.append((e.name, e.args[0] if e.args else None))
        elif e.name in ("shutil.move", "shutil.copy", "shutil.copy2", "shutil.copyfile", "os.rename", "os.replace"):
            # the destination is written; for move/copy an existing DIRECTORY as destination means "into it" (see strict below)
            out.append((e.name, e.args[1] if len(e.args) > 1 else None))
    return out


INTO_DIRECTORY = ("shutil.move", "shutil.copy", "shutil.copy2")      # dst naming an existing directory: the file goes INTO it


def _suffixed(pe):
    """pe == <prefix> ++ "<concrete suffix without a separator>": returns (prefix, suffix) or (pe, "")"""
    try:
        if z3.is_app(pe) and pe.decl().kind() == z3.Z3_OP_SEQ_CONCAT and pe.num_args() >= 2 and z3.is_string_value(pe.arg(pe.num_args() - 1)):
            suf = pe.arg(pe.num_args() - 1).as_string()
            if "/" not in suf and "\x00" not in suf:
                rest = [pe.arg(i) for i in range(pe.num_args() - 1)]
                return (rest[0] if len(rest) == 1 else z3.Concat(*rest)), suf
    except Exception:
        pass
    return pe, ""


def check_writes(I, P, storage_dir):
    """storage_dir: z3 String or None (current directory)"""
    S = z3.StringVal
    ws = written_paths(I)
    I.ghost["n_writes"] = len(ws)
    for how, p in ws:
        if I.kind_of(p) != "str":
            I.ob(f"{P}/written-path-is-a-string-built-from-the-storage-directory", False, detail=f"{how}: {p!r}")
            continue
        pe = I.z(p)
        # the file-name part: the second operand of the os.path.join that produced this path (or the path itself
        # when no directory was joined: current directory); a concrete suffix appended to such a path (a temporary name
        # like "<path>.part") belongs to the file-name part
        base, suffix = _suffixed(pe)
        jn = [(de, ne) for (de, ne, r) in I.ghost.get("joins", []) if r.eq(pe)]
        if not jn and suffix:
            jn = [(de, z3.Concat(ne, S(suffix))) for (de, ne, r) in I.ghost.get("joins", []) if r.eq(base)]
        if jn:
            de, ne = jn[-1]
            if how in INTO_DIRECTORY:
                # "", "." and ".." name existing directories: open()/save_as on them fails, but a move or copy puts the file
                # INSIDE the named directory - for ".." that is the parent of the storage directory
                I.ob(f"{P}/a-move-or-copy-destination-never-names-a-directory:not-empty-dot-or-dotdot",
                     z3.And(ne != S(""), ne != S("."), ne != S("..")), detail=how)
            if storage_dir is None:
                I.ob(f"{P}/written-path-starts-with-the-storage-directory", False, detail="joined although no directory configured")
                continue
            dn = z3.If(z3.Or(de == S(""), z3.SuffixOf(S("/"), de)), de, z3.Concat(de, S("/")))
            I.ob(f"{P}/written-path-starts-with-the-storage-directory", de == storage_dir, detail=how)
            I.ob(f"{P}/file-name-part-is-safe:no-separator-not-dot-no-NUL", z3_safe_name(ne), detail=how)
            I.ob(f"{P}/written-path-is-directory+name", z3.Implies(z3_safe_name(ne), pe == z3.Concat(dn, ne)), detail=how)
        else:
            I.ob(f"{P}/written-path-starts-with-the-storage-directory", storage_dir is None, detail=f"{how}: path not built by os.path.join")
            I.ob(f"{P}/file-name-part-is-safe:no-separator-not-dot-no-NUL", z3_safe_name(pe), detail=how)


class StoreScpTask(Task):
    name = "storescp.handle_store"
    functions = [STORESCP]

    def config(self, repo):
        return common_config("C30/")

    def body(self, I):
        P = f"C30/{STORESCP}"
        event, uid, sopc, ds2 = make_event(I)
        args = Env("args")
        args.attrs["ignore"] = I.input("bool", "args.ignore")
        if I.choose(2, "output_directory") == 0:
            od = I.input("str", "output_directory")
            args.attrs["output_directory"] = od
            sd = od.e
        else:
            args.attrs["output_directory"] = None
            sd = None
        kind, val = I.run_function(I.repo.func(STORESCP), [event, args, Env("app_logger")])
        I.ob(f"{P}/no-exception-escapes-the-handler", kind == "return", detail=f"{kind}:{val!r}")
        check_writes(I, P, sd)
        mk = [e for e in I.trace if e.name == "makedirs"]
        I.ob(f"{P}/only-the-storage-directory-is-created", all(sd is not None and I.valid(I.z(e.args[0]) == sd) for e in mk))


class QrScpTask(Task):
    name = "qrscp.handle_store"
    functions = [QRSCP]

    def config(self, repo):
        c = common_config("C30/")
        c.opaque_calls.add("pynetdicom.apps.qrscp.db:add_instance")
        return c

    def body(self, I):
        P = f"C30/{QRSCP}"
        event, uid, sopc, ds2 = make_event(I)
        sd = I.input("str", "storage_dir")
        kind, val = I.run_function(I.repo.func(QRSCP), [event, sd, I.input("str", "db_path"), Env("cli_config"), Env("logger")])
        I.ob(f"{P}/no-exception-escapes-the-handler", kind == "return", detail=f"{kind}:{val!r}")
        check_writes(I, P, sd.e)


class ReSubModelTask(Task):
    """discharges nothing about the repository: documents the regex contract as a z3-checked lemma
    (the pattern's complement class maps every character outside [0-9.] to '_')."""
    name = "lemma/sanitised-name-has-no-separator"
    functions = []

    def body(self, I):
        r = I.input("str", "sanitised")
        allowed = z3.Star(z3.Union(z3.Range("0", "9"), z3.Re("."), z3.Re("_")))
        I.assume(z3.InRe(r.e, allowed))
        pre = I.input("str", "prefix")
        I.assume(z3.InRe(pre.e, z3.Plus(z3.Range("A", "Z"))))
        name = z3.Concat(pre.e, z3.StringVal("."), r.e)
        I.ob("C30/lemma/prefix.sanitised-uid-is-a-safe-file-name", z3_safe_name(name))


def tasks(tier):
    return [StoreScpTask(), QrScpTask(), ReSubModelTask()]


def replay(rec):
    from pyvc.replay import run_replay
    return run_replay("C30", rec)


LEVEL_TEXT = ("Both handle_store functions are executed symbolically for an arbitrary SOP Instance/Class UID string and any storage "
              "directory; every path reaching open(...,'w')/save_as is proved to be storage_dir/<name> with a separator-free, "
              "non-dot, NUL-free name (z3 strings; cvc5 --strings-exp as second back end).")
LEVEL_NOTE = "trusted: pyvc, z3/cvc5 string solvers, assumed contracts of re.sub (for the one pattern used) and os.path.join (POSIX)."
TECHNIQUE = "deductive: path-containment postcondition over symbolic strings (AST->VC, z3 sequences/regex)"
